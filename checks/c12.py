"""C12 — inspecting a presentation does not change it.

Generator: (deck, traversal plan) - every public property of the read-surface classes is called by reflection,
in an order, with repetitions and intermediate saves chosen by Hypothesis; decks = corpus + default template +
generated decks. Oracle: reference = save(open(deck)); after the read history the deck is saved twice; parts are
matched by relationship path from the root and compared (content types, relationships, binary payloads, XML
C14N-identical after removing empty attribute-less formatting containers); successive saves byte-identical.
"""
import io
import os

from lxml import etree

from vlib.core import Violation, hyp_search, collect, sut, REPO
from vlib import opcmodel as O
from vlib import deckops as D
from vlib.corpus import corpus_decks

PROPERTY = "C12"
LEVEL = "exploration"
RULE = ("case = (deck, plan): the reflective reader calls every public property of the read-surface objects "
        "(Presentation, slides, layouts, masters, shape collections, shapes of every class, placeholders and their "
        "format, text frames, paragraphs, runs, tables/rows/columns/cells, charts, plots, categories, series, images, "
        "click actions/hyperlinks, notes slide when present, core properties when present) recursively; the plan fixes "
        "the rotation/reversal of property order per depth, the slides visited, 1-3 repetitions, 0-3 intermediate "
        "saves and an optional save before the first read. Decks: corpus, a generated deck with every shape kind and "
        "partial-xfrm placeholders, and variants of four corpus decks whose slide parts are rotated / numbered with "
        "gaps / whose last slide lost its p:sldId but not its relationship. Non-trivial: deck has a chart, table, group or notes slide, or renamed slide parts, or the history has "
        "an intermediate or initial save. "
        "Distinct by hash of (deck, plan).")
ASSUMPTIONS = [
    "accessors documented as creating content are not called: Slide.notes_slide without an existing notes slide, "
    "Presentation.notes_master without one, _Background.fill, LineFormat.color, Chart.chart_title, axis_title, "
    "ChartTitle/AxisTitle/DataLabel.text_frame, Package.core_properties on a deck without the part",
    "formatting proxies (FillFormat, LineFormat, Font, ChartFormat, ...) are obtained but not traversed: the statement "
    "enumerates content and geometry readers, not formatting objects",
    "an exception from a getter is a legal outcome of reading (e.g. NotImplementedError) and is ignored",
]

CONTAINERS = {"a:pPr", "a:rPr", "a:defRPr", "a:tcPr", "a:tblPr", "a:ln", "a:spPr", "p:spPr", "c:spPr", "p:txBody", "a:txBody",
              "c:txPr", "c:rich", "a:bodyPr", "a:lstStyle", "a:p", "p:sldIdLst", "p:sldMasterIdLst", "p:sldLayoutIdLst",
              "a:endParaRPr", "c:dLbls", "a:xfrm"}
CONTAINERS.discard("c:dLbls")
CONTAINERS.discard("a:xfrm")
NSP = {"http://schemas.openxmlformats.org/drawingml/2006/main": "a",
       "http://schemas.openxmlformats.org/presentationml/2006/main": "p",
       "http://schemas.openxmlformats.org/drawingml/2006/chart": "c"}

# classes whose instances are traversed (by class name, module under pptx.)
SURFACE = {
    "Presentation", "Slides", "Slide", "SlideLayouts", "SlideLayout", "SlideMasters", "SlideMaster", "NotesSlide",
    "SlideShapes", "GroupShapes", "LayoutShapes", "MasterShapes", "NotesSlideShapes", "SlidePlaceholders",
    "LayoutPlaceholders", "MasterPlaceholders", "NotesSlidePlaceholders", "BasePlaceholders",
    "Shape", "Picture", "Connector", "GroupShape", "GraphicFrame", "Movie", "SlidePlaceholder", "LayoutPlaceholder",
    "MasterPlaceholder", "NotesSlidePlaceholder", "PlaceholderPicture", "PlaceholderGraphicFrame", "PicturePlaceholder",
    "ChartPlaceholder", "TablePlaceholder", "BasePlaceholder", "_BaseSlidePlaceholder",
    "_PlaceholderFormat", "TextFrame", "_Paragraph", "_Run", "Table", "_Cell", "_Row", "_Column", "_RowCollection",
    "_ColumnCollection", "_CellCollection", "Chart", "_Plots", "AreaPlot", "Area3DPlot", "BarPlot", "BubblePlot", "DoughnutPlot",
    "LinePlot", "PiePlot", "RadarPlot", "XyPlot", "Categories", "Category", "CategoryLevel", "SeriesCollection", "AreaSeries",
    "BarSeries", "BubbleSeries", "LineSeries", "PieSeries", "RadarSeries", "XySeries", "Image", "ActionSetting", "Hyperlink",
    "CoreProperties", "CorePropertiesPart", "AdjustmentCollection", "Legend", "CategoryAxis", "ValueAxis", "DateAxis",
    "TickLabels", "_OleFormat", "_MediaFormat",
}
# (class name or '*', property) never called
EXCLUDE = {
    ("*", "part"), ("*", "package"), ("*", "element"), ("*", "xml"),
    ("Slide", "notes_slide"), ("Slide", "background"), ("Presentation", "notes_master"), ("Presentation", "core_properties"),
    ("Chart", "chart_title"), ("Chart", "replace_data"), ("CategoryAxis", "axis_title"), ("ValueAxis", "axis_title"),
    ("DateAxis", "axis_title"), ("*", "axis_title"), ("LineFormat", "color"),
}


def _props(cls):
    out = []
    for name in dir(cls):
        if name.startswith("_"):
            continue
        for k in cls.__mro__:
            if name in k.__dict__:
                d = k.__dict__[name]
                if isinstance(d, property) or type(d).__name__ == "lazyproperty":
                    out.append(name)
                break
    return sorted(out)


_PROP_CACHE = {}


class Reader:
    def __init__(self, plan):
        self.rot = plan.get("rot") or [0]
        self.rev = plan.get("rev") or [False]
        self.budget = plan.get("budget", 6000)
        self.skip = set(plan.get("_skip") or [])
        self.skipped = {}
        self.calls = 0
        self.visited = set()
        self.alive = []
        self.classes = set()
        self.probe = None     # callable -> state digest; set only when blaming a failure
        self.blamed = []

    def read(self, obj, depth=0):
        if self.calls > self.budget or depth > 9:
            return
        cname = type(obj).__name__
        if cname not in SURFACE or id(obj) in self.visited:
            return
        self.visited.add(id(obj))
        self.alive.append(obj)   # keep visited objects alive: ids of collected proxies would be reused
        self.classes.add(cname)
        cls = type(obj)
        if cls not in _PROP_CACHE:
            _PROP_CACHE[cls] = _props(cls)
        names = list(_PROP_CACHE[cls])
        r = self.rot[depth % len(self.rot)] % (len(names) or 1)
        names = names[r:] + names[:r]
        if self.rev[depth % len(self.rev)]:
            names.reverse()
        children = []
        for n in names:
            if ("*", n) in EXCLUDE or (cname, n) in EXCLUDE:
                continue
            if self.skip:
                owner = next((k.__name__ for k in cls.__mro__ if n in k.__dict__), cname)
                if "%s.%s" % (owner, n) in self.skip:
                    self.skipped["%s.%s" % (owner, n)] = self.skipped.get("%s.%s" % (owner, n), 0) + 1
                    continue
            self.calls += 1
            try:
                v = getattr(obj, n)
            except Exception:
                v = None
            if self.probe and self.probe():
                owner = next((k.__name__ for k in cls.__mro__ if n in k.__dict__), cname)
                self.blamed.append("%s.%s" % (owner, n))
            if type(v).__name__ in SURFACE:
                children.append(v)
            elif isinstance(v, (tuple, list)):
                children.extend(x for x in v[:40] if type(x).__name__ in SURFACE)
        # documented non-creating routes to otherwise excluded objects
        try:
            if cname == "Slide" and obj.has_notes_slide:
                children.append(obj.notes_slide)
            if cname in ("Shape", "SlidePlaceholder", "LayoutPlaceholder", "MasterPlaceholder") and obj.has_text_frame:
                children.append(obj.text_frame)
            if cname == "GraphicFrame" or cname == "PlaceholderGraphicFrame":
                if obj.has_chart:
                    children.append(obj.chart)
                if obj.has_table:
                    children.append(obj.table)
        except Exception:
            pass
        # collections
        try:
            if hasattr(obj, "__iter__") and cname not in ("Category",):
                n = 0
                for item in obj:
                    n += 1
                    if n > 40:
                        break
                    if type(item).__name__ in SURFACE:
                        children.append(item)
                    self.calls += 1
            if hasattr(obj, "__len__"):
                len(obj)
        except Exception:
            pass
        if self.probe and self.probe():
            self.blamed.append("%s.__iter__" % cname)
        if cname == "Table":
            try:
                for ri in range(min(len(obj.rows), 6)):
                    for ci in range(min(len(obj.columns), 6)):
                        children.append(obj.cell(ri, ci))
                list(obj.iter_cells())
            except Exception:
                pass
        if cname.endswith("Series"):
            try:
                list(obj.values)
                if hasattr(obj, "iter_values"):
                    list(obj.iter_values())
            except Exception:
                pass
        # the budget is spent depth-first: start with a different child in different plans so that every slide,
        # shape and series is the first one visited in some of them
        if children:
            r = self.rot[(depth + 1) % len(self.rot)] % len(children)
            children = children[r:] + children[:r]
            if self.rev[(depth + 1) % len(self.rev)]:
                children.reverse()
        for c in children:
            self.read(c, depth + 1)


# ------------------------------------------------------------------ comparison

def strip_empty_containers(root):
    """remove maximal subtrees that have no attribute and no text and consist only of container tags"""
    def tagname(el):
        q = etree.QName(el)
        return "%s:%s" % (NSP.get(q.namespace, "?"), q.localname)

    def removable(el):
        if not isinstance(el.tag, str):
            return False
        if tagname(el) not in CONTAINERS or el.attrib or (el.text and el.text.strip()):
            return False
        return all(removable(ch) for ch in el)

    # a:p, a:bodyPr and a:lstStyle are content of a text body: they go only together with a whole empty body that
    # a getter created (text_frame on a shape without one), never on their own - a blank paragraph is a blank line
    inner_only = {"a:p", "a:bodyPr", "a:lstStyle"}
    for el in list(root.iter()):
        if el is root or el.getparent() is None:
            continue
        if isinstance(el.tag, str) and tagname(el) in inner_only:
            continue
        if removable(el):
            par = el.getparent()
            # keep the tail whitespace irrelevant
            par.remove(el)
    return root


def canon(blob):
    root = etree.fromstring(blob)
    strip_empty_containers(root)
    return O.c14n(etree.tostring(root))


def graph_paths(pkg):
    """part name -> canonical relationship path from the root (ids + types), independent of part names"""
    paths = {}
    stack = [("/", "")]
    while stack:
        src, path = stack.pop()
        for r in sorted(pkg.rels(src), key=lambda r: (r.id, r.type)):
            if r.mode != "Internal" or r.resolved not in pkg.members:
                continue
            if r.resolved not in paths:
                paths[r.resolved] = "%s/%s" % (path, r.id)
                stack.append((r.resolved, paths[r.resolved]))
    return paths


def compare_saves(ref, got, what):
    pr, pg = graph_paths(ref), graph_paths(got)
    by_path_r = {v: k for k, v in pr.items()}
    by_path_g = {v: k for k, v in pg.items()}
    if set(by_path_r) != set(by_path_g):
        extra = sorted(set(by_path_g) - set(by_path_r))
        missing = sorted(set(by_path_r) - set(by_path_g))
        kind = "added:" + by_path_g[extra[0]].split("/")[2] if extra else "lost:" + by_path_r[missing[0]].split("/")[2]
        raise Violation("C12:parts-%s" % kind, "%s: parts added %s, lost %s"
                        % (what, [by_path_g[e] for e in extra][:3], [by_path_r[m] for m in missing][:3]))
    for path, nr in sorted(by_path_r.items()):
        ng = by_path_g[path]
        if ref.ctype(nr) != got.ctype(ng):
            raise Violation("C12:content-type", "%s: %s %s vs %s" % (what, nr, ref.ctype(nr), got.ctype(ng)))
        rr = sorted((r.id, r.type, r.mode, pr.get(r.resolved) if r.mode == "Internal" else r.target) for r in ref.rels(nr))
        rg = sorted((r.id, r.type, r.mode, pg.get(r.resolved) if r.mode == "Internal" else r.target) for r in got.rels(ng))
        if rr != rg:
            raise Violation("C12:relationships:%s" % nr.split("/")[2 if nr.count("/") > 2 else 1],
                            "%s: relationships of %s differ: only before %s, only after %s"
                            % (what, nr, [x for x in rr if x not in rg][:2], [x for x in rg if x not in rr][:2]))
        br, bg = ref.members[nr], got.members[ng]
        if br == bg:
            continue
        try:
            cr, cg = canon(br), canon(bg)
        except etree.XMLSyntaxError:
            raise Violation("C12:binary-payload", "%s: payload of %s changed" % (what, nr))
        if cr != cg:
            raise Violation("C12:xml-changed:%s" % first_diff_tag(cr, cg),
                            "%s: part %s differs beyond empty formatting containers" % (what, nr))
    rr = sorted((r.id, r.type, r.mode, pr.get(r.resolved) if r.mode == "Internal" else r.target) for r in ref.rels("/"))
    rg = sorted((r.id, r.type, r.mode, pg.get(r.resolved) if r.mode == "Internal" else r.target) for r in got.rels("/"))
    if rr != rg:
        raise Violation("C12:relationships:package", "%s: package relationships differ" % what)


def first_diff_tag(a, b):
    """local name of the first element at which two canonical documents diverge"""
    ra, rb = etree.fromstring(a), etree.fromstring(b)
    def walk(x, y):
        if x.tag != y.tag or dict(x.attrib) != dict(y.attrib) or (x.text or "") != (y.text or ""):
            return etree.QName(y).localname
        cx, cy = list(x), list(y)
        for i in range(min(len(cx), len(cy))):
            r = walk(cx[i], cy[i])
            if r:
                return r
        if len(cx) != len(cy):
            extra = (cy[len(cx):] or cx[len(cy):])[0]
            return etree.QName(x).localname + ">" + etree.QName(extra).localname
        return None
    return walk(ra, rb) or "?"


# ------------------------------------------------------------------ case

_deck_cache = {}


def deck_bytes(deck):
    if deck in _deck_cache:
        return _deck_cache[deck]
    if deck == "generated":
        from pptx import Presentation
        prs = Presentation()
        it = D.Interp(prs, crash="violation", prefix="C12")
        it.run(D.RICH_PRELUDE + [["add_table", 0, 2, 2, 0, 0, 914400, 914400], ["table_op", 0, 0, 1, 0, 0, 0, 1],
                                 ["add_movie", 2, 1, 0, 0, 914400, 914400], ["add_ole", 2, 0, 0, False],
                                 ["add_freeform", 2, 0, [[0, 0], [100, 50], [30, 80]], True, 100.0],
                                 ["notes", 1, 12], ["target_slide", 1, 2, 0], ["ph_insert", 2, 0, 0]])
        # placeholders with a partial a:xfrm (moved but not resized / resized but not moved): their
        # missing half is inherited, so geometry getters must not materialise it
        phs = [s for s in prs.slides[0].placeholders]
        if phs:
            phs[0].left = 123456
        if len(phs) > 1:
            phs[1].width = 3456789
        # a blank paragraph between two others (an element that is empty apart from what getters add to it)
        tb = prs.slides[0].shapes.add_textbox(0, 0, 914400, 914400)
        tb.text_frame.text = "first\n\nthird"
        # text replaced by a script in paragraphs PowerPoint had touched: runs without a:rPr next to the
        # a:endParaRPr (language, dirty flag) PowerPoint leaves at the end of every paragraph it edited
        for k, p_ in enumerate(tb.text_frame.paragraphs):
            e = p_._p.makeelement("{http://schemas.openxmlformats.org/drawingml/2006/main}endParaRPr",
                                  {"lang": ("en-GB", "de-DE", "en-US")[k % 3], "dirty": "0"})
            p_._p.append(e)
        # groups moved / scaled as a whole (a:off, a:ext differ from a:chOff, a:chExt: the frame is not the members'
        # bounding box, as PowerPoint writes after the user drags or resizes a group)
        for sl in prs.slides:
            for sh in sl.shapes:
                if sh.shape_type is not None and sh.shape_type == 6 and len(sh.shapes):
                    sh.left = int(sh.left) + 91440
                    sh.width = int(sh.width) * 2 + 7
        data = it.save_bytes()
    elif "|" in deck:
        # variant of a corpus deck whose slide parts are renamed consistently (out of presentation order / gaps)
        from checks.c02 import renamed
        base, how = deck.split("|")
        data = deck_bytes("generated") if base == "generated" else open(os.path.join(REPO, base), "rb").read()
        if how == "orphan":
            data = orphaned_last_slide(data)
        elif how == "nonm":
            data = without_presentation_notes_master_rel(data)
        elif how == "jumpdel":
            data = with_jump_target_deleted(data)
        else:
            data = renamed(data, how) or data
    else:
        data = open(os.path.join(REPO, deck), "rb").read()
    _deck_cache[deck] = data
    return data


def orphaned_last_slide(data):
    """variant of a deck whose last slide lost its p:sldId only (the usual delete-a-slide recipe): the slide part is
    still related to the presentation part, so it is still a part of the package"""
    pkg = O.Pkg.read(data)
    pp = [r.resolved for r in pkg.rels("/") if r.type.endswith("/officeDocument")][0]
    root = etree.fromstring(pkg.members[pp])
    ns = {"p": "http://schemas.openxmlformats.org/presentationml/2006/main"}
    ids = root.findall("p:sldIdLst/p:sldId", ns)
    if len(ids) < 2:
        return data
    ids[-1].getparent().remove(ids[-1])
    pkg.set_member(pp, etree.tostring(root, xml_declaration=True, encoding="UTF-8", standalone=True))
    return pkg.to_bytes()


def without_presentation_notes_master_rel(data):
    """variant of a deck with notes slides whose presentation part no longer names the notes master (relationship
    and p:notesMasterIdLst removed); the notes slides still do, so the notes master is still a part of the package"""
    pkg = O.Pkg.read(data)
    pp = [r.resolved for r in pkg.rels("/") if r.type.endswith("/officeDocument")][0]
    rels = [r for r in pkg.rels(pp)]
    nm = [r for r in rels if r.type.endswith("/notesMaster")]
    if not nm:
        return data
    root = etree.fromstring(pkg.members[pp])
    ns = {"p": "http://schemas.openxmlformats.org/presentationml/2006/main"}
    for el in root.findall("p:notesMasterIdLst", ns):
        root.remove(el)
    pkg.set_member(pp, etree.tostring(root, xml_declaration=True, encoding="UTF-8", standalone=True))
    pkg.set_member(O.rels_name(pp), O.build_rels([(r.id, r.type, r.mode, r.target) for r in rels if r not in nm]))
    return pkg.to_bytes()


def with_jump_target_deleted(data):
    """variant of a deck in which a slide that another slide jumps to (click action) was deleted by the usual recipe
    (p:sldId and the presentation's relationship removed): the slide part stays in the package, reachable through
    the jump only"""
    from pptx import Presentation
    # the jump goes to the LAST slide, so that the slide parts that stay listed keep the names slide1..n-1 (a deleted
    # slide in front would collide with a renumbered one: the known hazard of that recipe, not this property's subject)
    prs = Presentation(io.BytesIO(data))
    if len(prs.slides) < 2:
        return data
    src = [sh for sh in prs.slides[0].shapes if hasattr(sh, "click_action") and type(sh).__name__ in ("Shape", "Picture")]
    if not src:
        return data
    src[0].click_action.target_slide = prs.slides[len(prs.slides) - 1]
    buf = io.BytesIO()
    prs.save(buf)
    pkg = O.Pkg.read(buf.getvalue())
    pp = [r.resolved for r in pkg.rels("/") if r.type.endswith("/officeDocument")][0]
    prels = list(pkg.rels(pp))
    slides = {r.resolved: r for r in prels if r.type.endswith("/slide")}
    target = sorted(slides, key=lambda n: int("".join(ch for ch in n.rsplit("/", 1)[1] if ch.isdigit()) or 0))[-1]
    rid = slides[target].id
    root = etree.fromstring(pkg.members[pp])
    ns = {"p": "http://schemas.openxmlformats.org/presentationml/2006/main"}
    R = "{http://schemas.openxmlformats.org/officeDocument/2006/relationships}id"
    for el in root.findall("p:sldIdLst/p:sldId", ns):
        if el.get(R) == rid:
            el.getparent().remove(el)
    pkg.set_member(pp, etree.tostring(root, xml_declaration=True, encoding="UTF-8", standalone=True))
    pkg.set_member(O.rels_name(pp), O.build_rels([(r.id, r.type, r.mode, r.target) for r in prels if r.id != rid]))
    return pkg.to_bytes()


def blame(deck, plan):
    """which accessor changes the deck? (only run after a failure)"""
    from pptx import Presentation
    import hashlib
    prs = Presentation(io.BytesIO(deck_bytes(deck)))

    state = {}

    def probe():
        """True if the deck changed (beyond empty containers) since the previous call"""
        changed = False
        for part in prs.part.package.iter_parts():
            k = id(part)
            rels = sorted(part.rels.keys())
            raw = etree.tostring(part._element) if hasattr(part, "_element") else b""
            old = state.get(k)
            if old is None:
                state[k] = (raw, rels, part)
                if state.get("primed"):
                    changed = True   # a part appeared
                continue
            if old[1] != rels:
                changed = True
            if old[0] != raw:
                try:
                    if canon(old[0]) != canon(raw):
                        changed = True
                except Exception:
                    changed = True
            state[k] = (raw, rels, part)
        state["primed"] = True
        return changed

    probe()
    rd = Reader(plan)
    rd.probe = probe
    try:
        rd.read(prs)
    except Exception:
        pass
    return sorted(set(rd.blamed))


def run_case(case, rec=None, known=None):
    # recorded mutating accessors are excluded by construction (and counted) so that the search continues
    # behind them; a replay (known=None) calls everything
    skip = {k.split(":", 2)[2] for k in (known or {}) if k.startswith("C12:mutating-accessor:")}
    case = dict(case, _skip=sorted(skip))
    try:
        return _run_case(case, rec)
    except Violation as v:
        if v.key.startswith("C12:xml-changed") or v.key.startswith("C12:parts-") or v.key.startswith("C12:relationships"):
            who = blame(case["deck"], dict(case["plan"], _skip=case.get("_skip", [])))
            if who:
                raise Violation("C12:mutating-accessor:%s" % who[0], "%s; accessor(s) that changed the deck: %s" % (v.message, who))
        raise


def _run_case(case, rec=None):
    from pptx import Presentation
    deck, plan = case["deck"], dict(case["plan"], _skip=case.get("_skip", []))
    data = deck_bytes(deck)
    with sut("C12:open"):
        ref_prs = Presentation(io.BytesIO(data))
        buf = io.BytesIO()
        ref_prs.save(buf)
    ref = O.Pkg.read(buf.getvalue())
    with sut("C12:open"):
        prs = Presentation(io.BytesIO(data))
    saves = sorted(set(plan.get("saves") or []))
    reps = plan.get("reps", 1)
    if plan.get("save_first"):
        # "saving it any number of times": a save before anything was read
        b0 = io.BytesIO()
        with sut("C12:save"):
            prs.save(b0)
        compare_saves(ref, O.Pkg.read(b0.getvalue()), "save before reading")
    calls = 0
    classes = set()
    inter = 0
    for rep in range(reps):
        rd = Reader(plan)
        # the root: presentation, then (optionally) only some slides first
        with sut("C12:read"):
            rd.read(prs)
            try:
                from pptx.opc.constants import RELATIONSHIP_TYPE as RT
                prs.part.part_related_by(RT.NOTES_MASTER)
                has_nm = True
            except KeyError:
                has_nm = False
            if has_nm:
                rd.read(prs.notes_master)
            try:
                prs.part.package.part_related_by(RT.CORE_PROPERTIES)
                rd.read(prs.core_properties)
            except KeyError:
                pass
        calls += rd.calls
        classes |= rd.classes
        if rec is not None:
            for k, n in rd.skipped.items():
                rec.known["C12:mutating-accessor:" + k] += n
        if rep in saves:
            b = io.BytesIO()
            with sut("C12:save"):
                prs.save(b)
            inter += 1
            compare_saves(ref, O.Pkg.read(b.getvalue()), "intermediate save %d" % inter)
    b1, b2 = io.BytesIO(), io.BytesIO()
    with sut("C12:save"):
        prs.save(b1)
        prs.save(b2)
    g1, g2 = O.Pkg.read(b1.getvalue()), O.Pkg.read(b2.getvalue())
    compare_saves(ref, g1, "save after reading")
    if g1.members != g2.members:
        bad = [k for k in set(g1.members) | set(g2.members) if g1.members.get(k) != g2.members.get(k)]
        raise Violation("C12:successive-saves-differ", "members %s differ between two successive saves" % bad[:3])
    case = {k: v for k, v in case.items() if k != "_skip"}
    if rec is not None:
        names = " ".join(ref.members)
        rich = any(x in names for x in ("/charts/", "/notesSlides/")) or b"<a:tbl" in b"".join(
            v for k, v in ref.members.items() if k.startswith("/ppt/slides/slide")) or b"<p:grpSp>" in b"".join(
            v for k, v in ref.members.items() if k.startswith("/ppt/slides/slide"))
        rec.note(case, rich or inter > 0 or "|" in deck or bool(plan.get("save_first")), classes=["deck:" + ("generated" if deck == "generated" else "orphan-slide" if deck.endswith("|orphan") else "renamed-slides" if "|" in deck else "corpus"),
                                                   "intermediate-saves:%d" % inter, "reps:%d" % reps])
        rec.extra["property_reads"] = rec.extra.get("property_reads", 0) + calls
        rec.extra.setdefault("classes_traversed", [])
        for c in sorted(classes):
            if c not in rec.extra["classes_traversed"]:
                rec.extra["classes_traversed"].append(c)


def plan_strategy():
    from hypothesis import strategies as st
    return st.fixed_dictionaries({
        "rot": st.lists(st.integers(0, 30), min_size=1, max_size=5),
        "rev": st.lists(st.booleans(), min_size=1, max_size=4),
        "reps": st.integers(1, 3),
        "saves": st.lists(st.integers(0, 2), max_size=3),
        "budget": st.sampled_from([1500, 6000, 20000, 60000]),
        "save_first": st.booleans(),
    })


def jobs(tier):
    decks = corpus_decks()
    # slide parts out of presentation order / numbered with gaps (the slide collection renames them on access)
    multi = ["features/steps/test_files/sld-slides.pptx", "features/steps/test_files/shp-shapes.pptx",
             "features/steps/test_files/cht-charts.pptx", "tests/test_files/test.pptx"]
    decks += ["%s|%s" % (d, how) for d in multi for how in ("rotate", "gap", "orphan", "shift1")]
    n = 40 if tier == "thorough" else 14
    js = [{"decks": decks[i::16], "n": n} for i in range(16)]
    # the generated deck is the richest one: several jobs (= several seeds) of plans of its own
    js += [{"decks": ["generated"], "n": 40 if tier == "thorough" else 12} for _ in range(8 if tier == "thorough" else 4)]
    js += [{"decks": ["generated|nonm"], "n": 40 if tier == "thorough" else 12} for _ in range(2)]
    js += [{"decks": ["generated|jumpdel"], "n": 40 if tier == "thorough" else 12} for _ in range(2)]
    # the generated deck (hyperlinks, media, charts, notes) with its slide parts renamed
    js += [{"decks": ["generated|" + how], "n": 40 if tier == "thorough" else 10} for how in ("rotate", "shift1", "gap")]
    return js


def run_job(job, seed, tier, rec, known):
    from hypothesis import strategies as st
    fails = []
    for d in job["decks"]:
        strat = st.builds(lambda p, d=d: {"deck": d, "plan": p}, plan_strategy())
        fails += hyp_search(lambda c: run_case(c, rec, known), strat, seed=seed, max_examples=job["n"], rec=rec, known=known,
                            shrink_budget=40, max_rounds=3)
    return fails


def replay(case):
    return collect(run_case, case)
