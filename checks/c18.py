"""C18 — core document properties round-trip and stay valid.

Writing direction: Hypothesis-generated histories (1..10 assignments over the 15 properties, 0..3
save/re-open cycles in between, one at the end) on decks with and without a core-properties part.
A model (dict) holds the expected reading of every property; after every step all 15 getters are
compared with it, the package is saved, docProps/core.xml is located through own zip/rels reading,
validated against opc-coreProperties.xsd (+ the OPC prose rule on xsi:type) and read back with plain
lxml + an own W3CDTF parser.

Reading direction: core.xml variants with every W3CDTF granularity x offset are written into a copy
of a saved deck (zip rewrite), the deck is opened with the real loader and the three date getters are
compared with the own regex parser + timedelta.
"""
import datetime as dt
import io
import os

from vlib import c18_schema as S
from vlib import core
from vlib.core import Violation, collect, hyp_search, run_plain

PROPERTY = "C18"
LEVEL = "exploration"
EXHAUSTIVE = False

# Lowest year generated for assigned datetimes. DESIGN.md reads the quantifier "representable range
# (years below 1000, leap seconds excluded)" as *covering* years below 1000; set to 1000 for the
# reading that excludes them (then finding C18:write:year-lt-1000 cannot occur).
YEAR_MIN = 1

RULE = ("write: Hypothesis histories {deck in 6 decks (default template, no-core-props, 4 corpus), "
        "save after each step or not, 1..10 ops}; op = assign string (0..300 chars over the XML Char "
        "ranges, exact lengths 249..257 forced in ~1/3), naive datetime (year %d..9999, microseconds), "
        "revision (positive ints up to 10**30, bool), rejected values (len>255, non-datetime, "
        "non-positive / non-int revision) or a save/re-open cycle. Non-trivial: some assigned string has "
        "length>=250 or markup or edge/only whitespace or CR, or some datetime has year<1000 or "
        "microseconds, or the deck has no core-properties part. read: W3CDTF text per date property = "
        "granularity (year, month, day, minute, second, fraction) x TZD (none, Z, +/-hh:mm up to "
        "14:00); enumerated grid (every 60 min quick / every minute thorough) + Hypothesis. "
        "Non-trivial: some timestamp carries a numeric offset other than +/-00:00. Distinctness by "
        "hash of the whole case." % YEAR_MIN)
ASSUMPTIONS = [
    "validity = libxml2 XSD validation against /repo/spec/.../opc-coreProperties.xsd with local stubs "
    "for the Dublin Core imports, plus ISO/IEC 29500-2 prose rule [M4.5] (xsi:type=dcterms:W3CDTF "
    "required on dcterms:created/modified, forbidden elsewhere) and [M4.4] (no xml:lang)",
    "'to one-second resolution' is read leniently: |reading - assigned| < 1 s (truncation or rounding)",
    "strings are drawn from the XML 1.0 Char production; control characters and lone surrogates are "
    "outside the domain; non-str values for string properties are not generated",
    "a timestamp without TZD is expected to read as written; date-only granularities are expected to "
    "read as a datetime whose written fields match (remaining fields unconstrained)",
    "reading: years 0002..9998 so that applying the offset stays representable; seconds 00..59",
    "bool for revision: either ValueError or a reading equal to 1 (True == 1) is accepted",
    "aware datetimes get a lenient reading (wall-clock fields or UTC equivalent) (API is documented in naive UTC)",
]

DECKS = {
    "default": None,  # Presentation() default template
    "nocore": "tests/test_files/no-core-props.pptx",
    "embedded": "features/steps/test_files/shp-embedded-pptx.pptx",   # few elements
    "pretty": "features/steps/test_files/txt-font-props.pptx",        # pretty-printed core.xml
    "nocreated": "tests/test_files/test_slides.pptx",                 # no dcterms:created
    "minimal": "features/steps/test_files/minimal.pptx",
}
DECK_NAMES = sorted(DECKS)

_deck_cache = {}


def deck_bytes(name):
    if name not in _deck_cache:
        if DECKS[name] is None:
            import pptx

            path = os.path.join(os.path.dirname(pptx.__file__), "templates", "default.pptx")
        else:
            path = os.path.join(core.REPO, DECKS[name])
        with open(path, "rb") as f:
            _deck_cache[name] = f.read()
    return _deck_cache[name]


def open_deck(name):
    from pptx import Presentation

    with core.sut("C18:open"):
        if DECKS[name] is None:
            return Presentation()
        return Presentation(io.BytesIO(deck_bytes(name)))


# ------------------------------------------------------------------ classification

def str_classes(s):
    c = []
    n = len(s)
    c.append("len=0" if n == 0 else "len>256" if n > 256 else "len=256" if n == 256 else
             "len=250..255" if n >= 250 else "len=1..249")
    if s and not s.strip(" \t\n\r"):
        c.append("ws-only")
    elif s and (s[0] in " \t\n\r" or s[-1] in " \t\n\r"):
        c.append("ws-edge")
    if "\r" in s:
        c.append("cr")
    if any(ch in s for ch in "<>&"):
        c.append("markup")
    if any(ord(ch) > 0xFFFF for ch in s):
        c.append("astral")
    elif any(ord(ch) > 0x7F for ch in s):
        c.append("non-ascii")
    return c


def str_keyclass(s):
    """single input class for a finding key, most specific first"""
    c = str_classes(s)
    for k in ("len>256", "len=256", "len=0", "ws-only", "cr", "ws-edge", "markup", "astral", "non-ascii",
              "len=250..255"):
        if k in c:
            return k
    return "plain"


def str_nontrivial(s):
    c = str_classes(s)
    return len(s) >= 250 or any(k in c for k in ("ws-only", "ws-edge", "cr", "markup"))


def vkind(prop, v):
    """what the property text says about assigning v to prop: ('ok'|'reject'|'bool', class)"""
    kind = S.PROPS[prop][0]
    if kind == "str":
        return ("ok" if len(v) <= 255 else "reject", "str")
    if kind == "date":
        if isinstance(v, dt.datetime):
            return ("ok", "date")
        return ("reject", "date-wrongtype")
    if isinstance(v, bool):
        return ("bool" if v else "reject", "rev-bool")
    if isinstance(v, int):
        return ("ok" if v >= 1 else "reject", "rev-int")
    return ("reject", "rev-wrongtype")


# ------------------------------------------------------------------ oracle: write direction

def read_all(cp, where):
    out = {}
    for p in S.PROPS:
        with core.sut("C18:get:%s" % where):
            out[p] = getattr(cp, p)
    return out


def _same(kind, a, b):
    if type(a) is not type(b) and not (kind == "rev" and isinstance(a, int) and isinstance(b, int)):
        return False
    return a == b


def compare_model(model, got, where, touched=None):
    """every getter equals the model. `touched` = property just assigned (its mismatch is reported by
    the caller with a more precise key)."""
    for p in sorted(S.PROPS):
        if p == touched:
            continue
        kind = S.PROPS[p][0]
        if not _same(kind, model[p], got[p]):
            raise Violation("C18:%s:%s" % (where, kind),
                            "%s reads %r, expected %r (%s)" % (p, got[p], model[p], where))


def check_types(got, where):
    for p, v in got.items():
        kind = S.PROPS[p][0]
        ok = (isinstance(v, str) if kind == "str" else
              (v is None or (isinstance(v, dt.datetime) and v.tzinfo is None)) if kind == "date" else
              (isinstance(v, int) and not isinstance(v, bool) and v >= 0))
        if not ok:
            raise Violation("C18:getter-type:%s" % kind, "%s reads %r (%s)" % (p, v, where))


def xml_matches_model(xml, model, assigned, where):
    """independent reading of core.xml agrees with the model for every property assigned so far (and
    for the ones present in the original file)."""
    rd = S.read_core_xml(xml)
    for p in sorted(assigned):
        kind = S.PROPS[p][0]
        r = rd[p]
        exp = model[p]
        if r[0] == "dup":
            raise Violation("C18:xml:duplicate-element", "%d elements for %s (%s)" % (r[1], p, where))
        if r[0] == "absent":
            raise Violation("C18:xml:%s-element-missing" % kind, "no element for assigned %s (%s)" % (p, where))
        text = r[1]
        if kind == "str":
            if text != exp:
                raise Violation("C18:xml:str-text:%s" % str_keyclass(exp),
                                "%s element text %r, assigned %r (%s)" % (p, text, exp, where))
        elif kind == "rev":
            if text != str(int(exp)):
                raise Violation("C18:xml:rev-text", "revision element text %r, expected %r (%s)"
                                % (text, str(int(exp)), where))
        else:
            w = S.parse_w3cdtf(text)
            if w is None or abs(w["utc"] - exp) >= dt.timedelta(seconds=1):
                raise Violation("C18:xml:date-text", "%s element text %r does not denote UTC %s (%s)"
                                % (p, text, exp, where))


def validate_xml(xml, where):
    errs = S.xsd_errors(xml)
    if errs:
        raise Violation("C18:schema:%s" % errs[0][0], "core.xml invalid %s: %s" % (where, errs[0][1][:300]))
    errs = S.opc_rule_errors(xml)
    if errs:
        raise Violation("C18:opc-rule:%s" % errs[0][0], "core.xml %s: %s" % (where, errs[0][1]))


def save_and_check(prs, model, assigned, where):
    buf = io.BytesIO()
    with core.sut("C18:save"):
        prs.save(buf)
    data = buf.getvalue()
    try:
        member, xml = S.core_member(data)
    except S.PkgError as e:
        raise Violation("C18:package:%s" % e.code, "%s (%s)" % (e.msg, where))
    validate_xml(xml, where)
    xml_matches_model(xml, model, assigned, where)
    return data


def year_lt_1000_symptoms(cp, prop, v):
    """F13a root cause: strftime('%Y') does not pad. Gather every symptom under one key."""
    sym = []
    with core.sut("C18:get:after-set"):
        got = getattr(cp, prop)
    if not (isinstance(got, dt.datetime) and abs(got - v) < dt.timedelta(seconds=1)):
        sym.append("getter reads %r" % (got,))
    with core.sut("C18:blob"):
        xml = cp.blob
    text = S.read_core_xml(xml)[prop]
    w = S.parse_w3cdtf(text[1]) if text[0] == "text" else None
    if w is None or abs(w["utc"] - v) >= dt.timedelta(seconds=1):
        sym.append("element text %r is not a W3CDTF form of it" % (text[1:],))
    errs = S.xsd_errors(xml)
    if errs:
        sym.append("schema: %s" % errs[0][1][:160])
    return sym


def apply_set(cp, prop, v, model, assigned):
    """One assignment + the clauses that concern the assigned property. -> the ValueError or None"""
    kind = S.PROPS[prop][0]
    expect, vclass = vkind(prop, v)
    raised = None
    try:
        with core.sut("C18:set:%s" % vclass, allow=(ValueError,)):
            setattr(cp, prop, v)
    except ValueError as e:
        if core.origin_of(e)[0] != "sut":
            raise
        raised = e
    if expect == "reject":
        if raised is None:
            what = ("over-255-accepted" if kind == "str" else
                    "nonpositive-accepted" if vclass in ("rev-int", "rev-bool") else "wrong-type-accepted")
            raise Violation("C18:reject:%s:%s" % (kind, what),
                            "%s = %s value accepted, ValueError required"
                            % (prop, ("len-%d string" % len(v)) if kind == "str" else repr(v)))
    elif expect == "bool":
        if raised is None:
            with core.sut("C18:get:after-set"):
                g = getattr(cp, prop)
            if g != 1:
                raise Violation("C18:revision:bool-accepted-reads-%s" % ("0" if g == 0 else "other"),
                                "revision = True accepted without error but reads %r" % (g,))
            model[prop] = g
            assigned.add(prop)
    else:
        if raised is not None:
            cls = (str_keyclass(v) if kind == "str" else "year-lt-1000" if kind == "date" and v.year < 1000
                   else "in-domain")
            raise Violation("C18:accept:%s:%s" % (kind, cls), "%s = %s raised ValueError: %s"
                            % (prop, ("len-%d string" % len(v)) if kind == "str" else repr(v),
                               str(raised)[:120]))
        if kind == "date" and v.year < 1000:
            sym = year_lt_1000_symptoms(cp, prop, v)
            if sym:
                raise Violation("C18:write:year-lt-1000", "%s = %r: %s" % (prop, v, "; ".join(sym)))
        with core.sut("C18:get:after-set"):
            g = getattr(cp, prop)
        if kind == "str":
            if not (isinstance(g, str) and g == v):
                raise Violation("C18:set-get:str:%s" % str_keyclass(v),
                                "%s assigned %r reads %r" % (prop, v, g))
        elif kind == "rev":
            if not (isinstance(g, int) and not isinstance(g, bool) and g == v):
                raise Violation("C18:set-get:rev", "revision assigned %r reads %r" % (v, g))
        elif v.tzinfo is not None:
            # an aware datetime: the API is documented in naive UTC and the statement is silent on which
            # reading an aware value gets, so either its wall-clock fields or its UTC equivalent is accepted -
            # but it must be stored as a valid timestamp and read back as a naive datetime
            wall = v.replace(tzinfo=None)
            utc = (v - v.utcoffset()).replace(tzinfo=None)
            if not (isinstance(g, dt.datetime) and g.tzinfo is None
                    and (abs(g - wall) < dt.timedelta(seconds=1) or abs(g - utc) < dt.timedelta(seconds=1))):
                raise Violation("C18:set-get:date:aware", "%s assigned %r reads %r" % (prop, v, g))
        else:
            if not (isinstance(g, dt.datetime) and g.tzinfo is None
                    and abs(g - v) < dt.timedelta(seconds=1)):
                raise Violation("C18:set-get:date", "%s assigned %r reads %r" % (prop, v, g))
        model[prop] = g
        assigned.add(prop)
    return raised


REPAIRABLE = ("C18:write:year-lt-1000", "C18:revision:bool-accepted-reads-0")


_FIRST_DEFAULT = {}


def run_history(case, rec=None, known=None):
    """Execute one history; raises Violation. With `known` (search mode) the findings in REPAIRABLE
    do not end the history."""
    deck = case["deck"]
    ops = case["ops"]
    save_each = bool(case.get("save_each", True))
    orig = deck_bytes(deck)
    had_core = S.has_core_rel(orig)
    prs = open_deck(deck)
    with core.sut("C18:first-access"):
        cp = prs.core_properties
    # -- default part on first access
    from pptx.opc.constants import RELATIONSHIP_TYPE as RT
    from pptx.parts.coreprops import CorePropertiesPart

    if not isinstance(cp, CorePropertiesPart):
        raise Violation("C18:default-part:type", "core_properties is %r" % (cp,))
    with core.sut("C18:first-access"):
        again = prs.core_properties
        try:
            related = prs.part.package.part_related_by(RT.CORE_PROPERTIES)
        except KeyError:
            related = None
    if again is not cp:
        raise Violation("C18:default-part:second-access-differs", "second access returns another part")
    if related is not cp:
        raise Violation("C18:default-part:not-related",
                        "package relationship of type core-properties gives %r" % (related,))

    got = read_all(cp, "open")
    check_types(got, "open")
    if not had_core:
        # the default part must not depend on what happened to packages opened earlier in this process:
        # every first access on this deck reads the same (the creation time-stamp `modified` apart)
        ref = _FIRST_DEFAULT.setdefault(deck, {k: v for k, v in got.items() if k != "modified"})
        now = {k: v for k, v in got.items() if k != "modified"}
        if now != ref:
            diff = sorted(k for k in ref if ref[k] != now.get(k))
            raise Violation("C18:default-part:depends-on-earlier-packages",
                            "default core properties of a fresh package differ from those of the first one opened "
                            "in this process: %s" % [(k, ref[k], now.get(k)) for k in diff][:4])
    assigned = set()
    model = dict(got)
    if had_core:
        # getters at open agree with an independent reading of the original part
        _m, xml0 = S.core_member(orig)
        rd = S.read_core_xml(xml0)
        for p, r in rd.items():
            kind = S.PROPS[p][0]
            if r[0] != "text" or r[1] == "":
                continue
            if kind == "str":
                exp = r[1]
            elif kind == "rev":
                if not r[1].isdigit():
                    continue
                exp = int(r[1])
            else:
                w = S.parse_w3cdtf(r[1])
                if w is None or w["gran"] != "second":
                    continue
                exp = w["utc"]
            if got[p] != exp:
                raise Violation("C18:open-reading:%s" % kind, "%s reads %r, file says %r" % (p, got[p], r[1]))
            assigned.add(p)
    if save_each or not had_core:
        save_and_check(prs, model, assigned, "after first access")

    cycles = 0
    for i, op in enumerate(list(ops) + [["cycle"]]):
        if op[0] == "cycle":
            data = save_and_check(prs, model, assigned, "at save %d" % cycles)
            from pptx import Presentation

            with core.sut("C18:reopen"):
                prs = Presentation(io.BytesIO(data))
                cp = prs.core_properties
            got = read_all(cp, "reopen")
            check_types(got, "reopen")
            compare_model(model, got, "reopen")
            cycles += 1
            continue
        _set, prop, v = op
        where = "after step %d (%s)" % (i, prop)
        try:
            raised = apply_set(cp, prop, v, model, assigned)
        except Violation as vio:
            # listed findings that are confined to the assigned property: count, overwrite the
            # property with an ordinary value (a legal continuation of the history) and go on
            if known is None or vio.key not in known or vio.key not in REPAIRABLE:
                raise
            rec.known[vio.key] += 1
            raised = apply_set(cp, prop, 1 if prop == "revision" else dt.datetime(2000, 1, 1), model, assigned)
        # frame condition + rejected assignments change nothing
        got = read_all(cp, "after-set")
        check_types(got, where)
        compare_model(model, got, "frame-after-%s" % ("rejected-set" if raised is not None else "set"))
        if save_each:
            save_and_check(prs, model, assigned, where)
        else:
            with core.sut("C18:blob"):
                xml = cp.blob
            validate_xml(xml, where)


def history_profile(case):
    """-> (nontrivial, classes)"""
    classes = ["deck=" + case["deck"], "save_each=%s" % bool(case.get("save_each", True))]
    nt = case["deck"] == "nocore"
    ncyc = 0
    nset = 0
    for op in case["ops"]:
        if op[0] == "cycle":
            ncyc += 1
            continue
        nset += 1
        _s, prop, v = op
        kind = S.PROPS[prop][0]
        expect, vclass = vkind(prop, v)
        classes.append("op=%s/%s" % (vclass, expect))
        if kind == "str":
            classes += ["str:" + c for c in str_classes(v)]
            nt = nt or str_nontrivial(v)
        elif kind == "date" and isinstance(v, dt.datetime):
            if v.year < 1000:
                classes.append("date:year<1000")
                nt = True
            if v.microsecond:
                classes.append("date:microseconds")
                nt = True
        elif kind == "rev" and isinstance(v, int) and not isinstance(v, bool) and v >= 2 ** 31:
            classes.append("rev:>=2**31")
    classes.append("cycles=%d" % (ncyc + 1))
    classes.append("sets=%s" % ("1" if nset <= 1 else "2-4" if nset <= 4 else "5-10"))
    return nt, classes


# ------------------------------------------------------------------ oracle: read direction

_read_base = {}


def read_base(deck):
    """(zip bytes of a deck saved by python-pptx, without the core.xml member; member name)"""
    if deck not in _read_base:
        prs = open_deck(deck)
        buf = io.BytesIO()
        with core.sut("C18:save"):
            prs.save(buf)
        member, _xml = S.core_member(buf.getvalue())
        _read_base[deck] = (S.strip_member(buf.getvalue(), member), member)
    return _read_base[deck]


def make_core_xml(case):
    parts = ['<?xml version="1.0" encoding="UTF-8" standalone="yes"?>\n'
             '<cp:coreProperties xmlns:cp="%s" xmlns:dc="%s" xmlns:dcterms="%s" xmlns:xsi="%s">'
             "<dc:title>C18 read</dc:title>" % (S.NS["cp"], S.NS["dc"], S.NS["dcterms"], S.NS["xsi"])]
    if case.get("created") is not None:
        parts.append('<dcterms:created xsi:type="dcterms:W3CDTF">%s</dcterms:created>' % case["created"])
    if case.get("last_printed") is not None:
        parts.append("<cp:lastPrinted>%s</cp:lastPrinted>" % case["last_printed"])
    if case.get("modified") is not None:
        parts.append('<dcterms:modified xsi:type="dcterms:W3CDTF">%s</dcterms:modified>' % case["modified"])
    parts.append("<cp:revision>3</cp:revision></cp:coreProperties>")
    return "".join(parts).encode("utf-8")


def off_class(w):
    if w["off"] is None:
        return "none"
    if w["off"] == "Z":
        return "Z"
    if w["off"] == 0:
        return "zero"
    return "plus" if w["off"] > 0 else "minus"


def read_violations(case):
    """-> list[Violation] (one per date property at most)"""
    from pptx import Presentation

    deck = case.get("deck", "default")
    base, member = read_base(deck)
    xml = make_core_xml(case)
    parsed = {}
    for p in S.DATE_PROPS:
        if case.get(p) is None:
            continue
        w = S.parse_w3cdtf(case[p])
        if w is None:
            raise core.HarnessError("generated text %r is not W3CDTF" % (case[p],))
        parsed[p] = w
    # generator self-check: forms that are lexically valid for the schema type must validate
    if all(w["gran"] != "minute" for w in parsed.values()):
        errs = S.xsd_errors(xml)
        if errs:
            raise core.HarnessError("generated core.xml is invalid: %r" % (errs[:2],))
    data = S.replace_member(base, member, xml)
    with core.sut("C18:read:open"):
        prs = Presentation(io.BytesIO(data))
        cp = prs.core_properties
    out = []
    for p, w in sorted(parsed.items()):
        try:
            with core.sut("C18:read-w3cdtf:%s:getter" % w["gran"]):
                got = getattr(cp, p)
        except Violation as v:
            out.append(v)
            continue
        one = dt.timedelta(seconds=1)
        if w["gran"] in ("year", "month", "day"):
            n = w["naive"]
            ok = isinstance(got, dt.datetime) and got.year == n.year and (
                w["gran"] == "year" or got.month == n.month) and (w["gran"] != "day" or got.day == n.day)
        else:
            ok = isinstance(got, dt.datetime) and got.tzinfo is None and abs(got - w["utc"]) < one
        if ok:
            continue
        if got is None:
            sym = "unparsed"
        elif not isinstance(got, dt.datetime):
            sym = "wrong-type"
        elif isinstance(w["off"], int) and w["off"] and abs(got - w["naive"]) < one:
            sym = "offset-ignored"
        elif isinstance(w["off"], int) and w["off"] and abs(got - (w["naive"] + dt.timedelta(minutes=w["off"]))) < one:
            sym = "offset-sign"
        else:
            sym = "wrong-value"
        out.append(Violation("C18:read-w3cdtf:%s:%s" % (w["gran"], sym),
                             "%s text %r reads %r, UTC equivalent is %s" % (p, case[p], got, w["utc"])))
    return out


def check_read(case, known=()):
    vs = read_violations(case)
    for v in vs:
        if v.key not in known:
            raise v
    if vs:
        raise vs[0]


def read_profile(case):
    nt = False
    classes = []
    for p in S.DATE_PROPS:
        if case.get(p) is None:
            continue
        w = S.parse_w3cdtf(case[p])
        oc = off_class(w)
        classes.append("read:%s/%s" % (w["gran"], oc))
        if oc in ("plus", "minus"):
            nt = True
            if w["off"] % 60:
                classes.append("read:offset-with-minutes")
    return nt, classes


# ------------------------------------------------------------------ generators

def fmt_w3cdtf(d, gran, frac, tz):
    s = "%04d" % d.year
    if gran == "year":
        return s
    s += "-%02d" % d.month
    if gran == "month":
        return s
    s += "-%02d" % d.day
    if gran == "day":
        return s
    s += "T%02d:%02d" % (d.hour, d.minute)
    if gran != "minute":
        s += ":%02d" % d.second
        if gran == "fraction":
            s += "." + frac
    return s + (tz or "")


def fmt_off(minutes, negzero=False):
    sign = "-" if (minutes < 0 or (minutes == 0 and negzero)) else "+"
    m = abs(minutes)
    return "%s%02d:%02d" % (sign, m // 60, m % 60)


GRANS = ["year", "month", "day", "minute", "second", "fraction"]


def strategies():
    from hypothesis import strategies as st

    def weighted(*pairs):
        """one_of with integer weights (one_of itself ignores repeated branches)"""
        idx = [i for i, (w, _s) in enumerate(pairs) for _ in range(w)]
        return st.sampled_from(idx).flatmap(lambda i: pairs[i][1])

    # ---- strings over the XML Char production
    frag = st.one_of(
        st.sampled_from([" ", "\t", "\n", "\r", "\r\n", "  ", "<", ">", "&", '"', "'", "]]>", "&amp;",
                         "&#13;", "&lt;", "<!--", "<a>", "</dc:title>", "<?x?>", "\u00a0", "\u0085",
                         "\u2028", "\ufffd", "\ud7ff", "\ue000", "\ufdd0", "\U00010000", "\U0010ffff",
                         "\U0001f600", "\u00e9", "\u4e2d", "\u0301", "\u200f", "\ufeff"]),
        st.text(alphabet=st.characters(min_codepoint=0x20, max_codepoint=0x7E), min_size=1, max_size=12),
        st.characters(min_codepoint=0x80, max_codepoint=0xD7FF),
        st.characters(min_codepoint=0xE000, max_codepoint=0xFFFD),
        st.characters(min_codepoint=0x10000, max_codepoint=0x10FFFF),
    )
    ws = st.text(alphabet=" \t\n\r", min_size=1, max_size=6)
    inner = st.lists(frag, max_size=10).map("".join)
    body = weighted((8, inner), (1, ws), (1, st.tuples(ws, inner).map("".join)),
                    (1, st.tuples(inner, ws).map("".join)), (1, st.tuples(ws, inner, ws).map("".join)))

    def fit(b, n):
        if n is None:
            return b
        if not b:
            b = "x"
        return (b * (n // len(b) + 1))[:n]

    length = weighted((2, st.none()),
                      (1, st.sampled_from([0, 1, 249, 250, 254, 255, 255, 256, 256, 256, 257, 300])))
    text = st.builds(fit, body, length)

    # ---- datetimes
    hi = dt.datetime(9999, 12, 31, 23, 59, 59, 999999)
    main = st.datetimes(min_value=dt.datetime(1000, 1, 1), max_value=hi)
    recent = st.datetimes(min_value=dt.datetime(1990, 1, 1), max_value=dt.datetime(2040, 1, 1))
    micro = st.builds(lambda d, us: d.replace(microsecond=us), main,
                      st.sampled_from([0, 0, 1, 499999, 500000, 999999]))
    edges = [dt.datetime(1000, 1, 1), hi, hi.replace(microsecond=0), dt.datetime(1970, 1, 1),
             dt.datetime(2000, 2, 29, 23, 59, 59, 500000), dt.datetime(1900, 1, 1),
             dt.datetime(2038, 1, 19, 3, 14, 8), dt.datetime(1601, 1, 1), dt.datetime(1582, 10, 10)]
    aware = st.builds(lambda d, off: d.replace(tzinfo=dt.timezone(dt.timedelta(minutes=off))), recent,
                      st.sampled_from([0, 0, 0, 60, -300, 330, -720, 840]))
    alts = [(3, main), (3, recent), (4, micro), (1, st.sampled_from(edges)), (1, aware)]
    if YEAR_MIN < 1000:
        low = st.one_of(st.datetimes(min_value=dt.datetime(YEAR_MIN, 1, 1),
                                     max_value=dt.datetime(999, 12, 31, 23, 59, 59, 999999)),
                        st.sampled_from([dt.datetime(YEAR_MIN, 1, 1), dt.datetime(999, 12, 31, 23, 59, 59),
                                         dt.datetime(100, 6, 15, 12, 0, 0), dt.datetime(99, 1, 1)]))
        alts.append((1, low))   # 1/12 of the datetimes
    dates = weighted(*alts)

    rev_ok = st.one_of(st.integers(1, 10 ** 6), st.sampled_from([1, 1, 2, 2 ** 31 - 1, 2 ** 31, 2 ** 63, 10 ** 30]))
    rev_bad = st.sampled_from([0, 0, 0, -1, -2 ** 31, -10 ** 20, False, None, "1", "x", 2.5])
    date_bad = st.sampled_from([None, "2020-01-01T00:00:00Z", "", 1577836800, 1.5, dt.date(2020, 1, 1)])

    sprop = st.sampled_from(S.STRING_PROPS)
    dprop = st.sampled_from(S.DATE_PROPS)
    set_str = st.tuples(st.just("set"), sprop, text)
    set_date = st.tuples(st.just("set"), dprop, dates)
    set_rev = st.tuples(st.just("set"), st.just("revision"), rev_ok)
    set_true = st.tuples(st.just("set"), st.just("revision"), st.just(True))
    bad_rev = st.tuples(st.just("set"), st.just("revision"), rev_bad)
    bad_date = st.tuples(st.just("set"), dprop, date_bad)
    cycle = st.just(("cycle",))
    op = weighted((40, set_str), (20, set_date), (10, set_rev), (6, bad_rev), (5, bad_date), (14, cycle),
                  (1, set_true))

    def cap_cycles(ops):
        out, n = [], 0
        for o in ops:
            if o[0] == "cycle":
                n += 1
                if n > 3:
                    continue
            out.append(o)
        return out if any(o[0] == "set" for o in out) else out + [("set", "title", "t")]

    history = st.fixed_dictionaries({
        "deck": st.sampled_from(DECK_NAMES + ["default", "nocore"]),
        "save_each": st.sampled_from([True, True, False]),
        "ops": st.lists(op, min_size=1, max_size=10).map(cap_cycles),
    })

    # ---- W3CDTF texts
    rd = st.datetimes(min_value=dt.datetime(2, 1, 1), max_value=dt.datetime(9998, 12, 31, 23, 59, 59))
    rdates = st.one_of(rd, st.datetimes(min_value=dt.datetime(1000, 1, 1), max_value=dt.datetime(9998, 12, 31)),
                       recent, st.sampled_from([dt.datetime(2003, 12, 31, 23, 59, 59), dt.datetime(2000, 2, 29, 0, 0, 0),
                                                dt.datetime(2001, 1, 1, 0, 0, 0), dt.datetime(2, 1, 1),
                                                dt.datetime(9998, 12, 31, 23, 59, 59)]))
    offs = st.one_of(st.integers(-14 * 60, 14 * 60), st.integers(-14, 14).map(lambda h: h * 60),
                     st.sampled_from([-840, 840, 330, -570, 345, 1, -1, 59, -59]))
    tzd = weighted((2, st.just("Z")), (6, offs.map(fmt_off)), (1, st.sampled_from(["+00:00", "-00:00"])))
    fracs = st.one_of(st.sampled_from(["0", "5", "9", "50", "999", "000001", "999999", "1234567", "999999999"]),
                      st.from_regex(r"[0-9]{1,9}", fullmatch=True))

    def build(gran, d, frac, tz, notz):
        if gran in ("year", "month", "day"):
            tz = None
        elif notz and gran != "minute":
            tz = None
        return fmt_w3cdtf(d, gran, frac, tz)

    any_gran = st.builds(build, st.sampled_from(GRANS + ["minute", "second", "second", "fraction", "fraction"]), rdates,
                         fracs, tzd, st.sampled_from([False] * 7 + [True]))
    full = st.builds(build, st.sampled_from(["second", "fraction"]), rdates, fracs, tzd,
                     st.sampled_from([False] * 7 + [True]))
    readcase = st.fixed_dictionaries({
        "deck": st.sampled_from(["default", "default", "minimal"]),
        "created": any_gran, "modified": weighted((3, any_gran), (1, st.none())), "last_printed": weighted((3, full), (1, st.none())),
    })
    return history, readcase


def grid_cases(step):
    """enumeration: granularity x TZD grid; same TZD on created / modified / last_printed"""
    bases = [(dt.datetime(2003, 12, 31, 23, 30, 45), "678"), (dt.datetime(2000, 3, 1, 0, 10, 5), "5")]
    tzds = [None, "Z", "-00:00"] + [fmt_off(m) for m in range(-840, 841, step)]
    for bi, (d, frac) in enumerate(bases):
        for gran in GRANS:
            for tz in tzds:
                if gran in ("year", "month", "day") and tz is not None:
                    continue
                if gran == "minute" and tz is None:
                    continue
                g2 = gran if gran in ("second", "fraction") else "second"
                yield {"deck": "default", "created": fmt_w3cdtf(d, gran, frac, tz),
                       "modified": fmt_w3cdtf(bases[1 - bi][0], gran, bases[1 - bi][1], tz),
                       "last_printed": fmt_w3cdtf(d, g2, frac, tz)}


# ------------------------------------------------------------------ harness interface

NSEQ = 16
NREAD = 6
NGRID = 6


def jobs(tier):
    th = tier == "thorough"
    hist = [{"kind": "history", "shard": i, "n": 3000 if th else 200} for i in range(NSEQ)]
    read = [{"kind": "read", "shard": i, "n": 6000 if th else 400} for i in range(NREAD)]
    grid = [{"kind": "grid", "shard": i, "step": 1 if th else 60} for i in range(NGRID)]
    # "_i" only fixes the order in which results are merged (evidence samples then show all three
    # kinds); the long history jobs stay first in the list so that they are scheduled first
    for j, job in enumerate(hist):
        job["_i"] = "%02d" % (3 * j if j < NREAD else 2 * NREAD + j)
    for j, job in enumerate(read):
        job["_i"] = "%02d" % (3 * j + 1)
    for j, job in enumerate(grid):
        job["_i"] = "%02d" % (3 * j + 2)
    return hist + read + grid


def _norm_case(case):
    case = core.from_jsonable(case)
    if isinstance(case, dict) and "ops" in case:
        case = dict(case)
        case["ops"] = [list(o) for o in case["ops"]]
    return case


def run_job(job, seed, tier, rec, known):
    S.schema()
    history, readcase = strategies()
    rec.MAX_SAMPLES = 1
    k = job["kind"]
    if k == "history":
        def fn(case):
            nt, classes = history_profile(case)
            rec.note(case, nt, classes)
            run_history(case, rec, known)

        return hyp_search(fn, history, seed=seed, max_examples=job["n"], rec=rec, known=known)
    if k == "read":
        def fn2(case):
            nt, classes = read_profile(case)
            rec.note(case, nt, classes)
            check_read(case, known)

        return hyp_search(fn2, readcase, seed=seed, max_examples=job["n"], rec=rec, known=known)
    if k == "grid":
        cases = [c for i, c in enumerate(grid_cases(job["step"])) if i % NGRID == job["shard"]]

        def fn3(case):
            nt, classes = read_profile(case)
            rec.note(case, nt, classes)
            check_read(case, known)

        return run_plain(fn3, cases, rec=rec, known=known)
    raise ValueError(k)


def replay(case):
    S.schema()
    case = _norm_case(case)
    if "ops" in case:
        # run the history twice: state leaking between packages of one process (e.g. a shared default
        # core-properties element) only shows on the second package
        return collect(run_history, case) or collect(run_history, case)
    out = []
    for v in read_violations(case):
        out.append({"key": v.key, "message": v.message, "case": core.to_jsonable(case)})
    return out
