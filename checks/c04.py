"""C04 -- text assigned is the text read back, with only the documented translations.

Generated histories against a small reference model of a text body:

  host deck (text box, auto shape, title / body placeholder, picture placeholder that has no p:txBody yet, table
  cell, notes text frame, chart title, axis title, PowerPoint-authored text box with a field and a hyperlink
  from txt-text.pptx); in half of the cases text is also assigned to a sibling object of the same kind after
  each step and the host must read as before
    -> prior body state (generated a:p list: a:pPr variants, runs with a:rPr, a:br, a:fld, a:endParaRPr;
       or the host's own content), optionally taken through one save/re-open so it is "as loaded"
    -> 1..3 assignments, each at one level (TextFrame.text, Shape.text / _Cell.text, _Paragraph.text,
       _Run.text) with a string from vlib.c04_strategies.xml_text, each followed by 0..2 save/re-open
       cycles (io.BytesIO).

Oracle (written from the docstrings / the property text, no python-pptx code involved):
  esc(c) = "_x%04X_" for every C0 control except TAB and LF (VT never reaches esc at frame/paragraph
  level because it is a break there; in a run it is escaped);
  run:        run.text reads esc(s)
  paragraph:  s split at LF and VT; segments esc()'d; one a:br between neighbours; reads join(VT)
  frame/cell: s split at LF into paragraphs, each as a paragraph in which only VT can still occur
After every assignment and after every re-open the pptx getters at all four levels are compared with the
model, and the body XML (serialised and re-parsed with a plain lxml parser) must hold exactly one a:p per
frame-level segment, one a:br per break, and the escaped segment text between the breaks. For
paragraph-level assignment a:pPr and a:endParaRPr of that paragraph must be C14N-identical before/after
and all other paragraphs untouched; for run-level assignment every sibling item keeps its text. After a
re-open the item list (kind, text) of every paragraph must equal the one before saving.
"""
import io
import itertools
import os
from xml.sax.saxutils import escape as _xml_escape

from lxml import etree

from vlib import core
from vlib.core import Violation, hyp_search, run_plain, collect
from vlib import c04_strategies as S

PROPERTY = "C04"
LEVEL = "exploration"
EXHAUSTIVE = False
RULE = ("Hypothesis-generated histories (host x prior body state x 1..3 assignments x save/re-open cycles) plus a "
        "bounded enumeration (every C0 control / markup / blank character in 4 contexts and every string over "
        "{LF,VT,'a',' '} up to length 4 (thorough 5), at each level, on a rich prior body, one re-open). One "
        "evaluation = one assignment checked by the full oracle (immediately and after each following re-open). "
        "Non-trivial: the assigned string contains a break (LF/VT), any other C0 control character (CR included), "
        "leading, trailing or only whitespace, or one of & < > \" '. Distinct by (host-qualified level, string).")
ASSUMPTIONS = [
    "domain = str of XML 1.0 Char code points plus all C0 controls; surrogates, U+FFFE, U+FFFF never generated",
    "CR is a C0 control other than TAB/LF/VT, so the property text demands '_x000D_' at every level (this is also "
    "what keeps it alive across re-open; a literal CR would be normalised to LF by the XML parser)",
    "'_xHHHH_' look-alikes in the assigned string are ordinary characters for python-pptx (read back verbatim); "
    "PowerPoint's own un-escaping of them is outside the property",
    "how many a:r elements carry a segment is not pinned (only the concatenated a:t text between breaks); "
    "absence of empty a:r elements is not asserted (property text is silent)",
    "frame-level assignment: paragraph properties of the new paragraphs are not asserted; position of a:pPr / "
    "a:endParaRPr inside a:p is C10's business, here only presence and C14N equality",
    "prior states are schema-shaped (a:pPr?, (a:r|a:br|a:fld)*, a:endParaRPr?); prior run text contains no CR "
    "and no C0 control (cannot occur in a parsed file)",
    "hosts reached: p:txBody of sp (text box, auto shape, placeholders incl. a picture placeholder without a body, "
    "corpus text box), a:txBody of a:tc, "
    "notes body placeholder, c:rich of chart title and category-axis title; data-label text frames not reached",
]

NS_A = "http://schemas.openxmlformats.org/drawingml/2006/main"
NS_R = "http://schemas.openxmlformats.org/officeDocument/2006/relationships"
A = "{%s}" % NS_A
_PLAIN = etree.XMLParser(remove_blank_text=False, resolve_entities=False)

HOSTS = ["textbox", "autoshape", "title", "body", "cell", "notes", "chart_title", "axis_title", "corpus", "picph", "cellnobody"]
SHAPE_HOSTS = ("textbox", "autoshape", "title", "body", "corpus", "picph")
LEVELS = ["frame", "owner", "para", "run"]

PPRS = [
    None,
    '<a:pPr algn="ctr"/>',
    '<a:pPr marL="457200" indent="-228600" lvl="2"><a:lnSpc><a:spcPct val="90000"/></a:lnSpc>'
    '<a:buFont typeface="Arial"/><a:buChar char="&#8226;"/></a:pPr>',
    '<a:pPr algn="r"><a:spcBef><a:spcPts val="600"/></a:spcBef><a:defRPr sz="1800" b="1"/></a:pPr>',
    '<a:pPr/>',
]
RPRS = [
    None,
    '<a:rPr lang="en-US" dirty="0"/>',
    '<a:rPr lang="en-US" sz="2400" b="1" i="1"/>',
    '<a:rPr sz="1200"><a:solidFill><a:srgbClr val="FF0000"/></a:solidFill><a:latin typeface="Arial"/></a:rPr>',
]
ENDS = [
    None,
    '<a:endParaRPr lang="en-US" dirty="0"/>',
    '<a:endParaRPr lang="en-US" sz="1400" b="1"><a:solidFill><a:srgbClr val="00B050"/></a:solidFill></a:endParaRPr>',
]
CORPUS = os.path.join(core.REPO, "features", "steps", "test_files", "txt-text.pptx")


# ====================================================================== reference model (pure)

def esc(s):
    """every C0 control other than TAB and LF -> _xHHHH_ (callers never pass VT where VT is a break)"""
    out = []
    for ch in s:
        o = ord(ch)
        if o < 0x20 and o != 0x09 and o != 0x0A:
            out.append("_x%04X_" % o)
        else:
            out.append(ch)
    return "".join(out)


def split_on(s, seps):
    segs = [[]]
    for ch in s:
        if ch in seps:
            segs.append([])
        else:
            segs[-1].append(ch)
    return ["".join(x) for x in segs]


def model_run(s):
    return esc(s)


def model_para_items(s):
    items = []
    for i, seg in enumerate(split_on(s, "\n\v")):
        if i:
            items.append(["br"])
        if seg:
            items.append(["r", esc(seg)])
    return items


def model_frame(s):
    return [model_para_items(seg) for seg in split_on(s, "\n")]


def items_text(items):
    return "".join("\v" if it[0] == "br" else it[1] for it in items)


def items_segs(items):
    segs = [""]
    for it in items:
        if it[0] == "br":
            segs.append("")
        else:
            segs[-1] += it[1]
    return segs


def frame_text(model):
    return "\n".join(items_text(p) for p in model)


def diffclass(exp, got):
    """names the kind of character at the first difference (stable part of a finding key)"""
    if isinstance(exp, list) or isinstance(got, list):
        exp, got = list(exp), list(got)
        for e, g in zip(exp, got):
            if e != g:
                return diffclass(e, g)
        return "missing-item" if len(got) < len(exp) else "extra-item"
    n = min(len(exp), len(got))
    i = 0
    while i < n and exp[i] == got[i]:
        i += 1
    if i < len(exp):
        ch, kind = exp[i], ("differs" if i < len(got) else "missing")
    elif i < len(got):
        ch, kind = got[i], "extra"
    else:
        return "same"
    o = ord(ch)
    if ch == "\n":
        c = "lf"
    elif ch == "\v":
        c = "vt"
    elif ch == "_":
        c = "escape"
    elif ch in " \t":
        c = "blank"
    elif o < 0x20:
        c = "c0"
    elif ch in "&<>\"'":
        c = "markup"
    elif o > 0xFFFF:
        c = "astral"
    else:
        c = "char"
    return "%s-%s" % (kind, c)


# ====================================================================== independent body reader

def read_body(txBody):
    """plain-lxml view of a text body: list of {xml, ppr, end, items} (C14N bytes, [kind, text] items)"""
    root = etree.fromstring(etree.tostring(txBody), _PLAIN)
    out = []
    for p in root.findall(A + "p"):
        items = []
        for ch in p:
            if ch.tag == A + "r":
                items.append(["r", "".join((t.text or "") for t in ch.findall(A + "t"))])
            elif ch.tag == A + "br":
                items.append(["br"])
            elif ch.tag == A + "fld":
                items.append(["fld", "".join((t.text or "") for t in ch.findall(A + "t"))])
        ppr = p.find(A + "pPr")
        end = p.find(A + "endParaRPr")
        out.append({
            "xml": etree.tostring(p, method="c14n"),
            "ppr": None if ppr is None else etree.tostring(ppr, method="c14n"),
            "end": None if end is None else etree.tostring(end, method="c14n"),
            "items": items,
        })
    return out


# ====================================================================== hosts

_BASE = {}


def _base_bytes(host):
    key = {"axis_title": "chart_title"}.get(host, host)
    if key == "cellnobody" and key not in _BASE:
        # a table cell without a:txBody (the schema allows it; other producers write it): the text frame creates one
        from pptx import Presentation as _P

        prs = _P(io.BytesIO(_base_bytes("cell")))
        tc = prs.slides[0].shapes[0].table.cell(1, 0)._tc
        tc.remove(tc.txBody)
        buf = io.BytesIO()
        prs.save(buf)
        _BASE[key] = buf.getvalue()
    if key in _BASE:
        return _BASE[key]
    from pptx import Presentation
    from pptx.util import Inches

    if key == "corpus":
        with open(CORPUS, "rb") as fh:
            data = fh.read()
        _BASE[key] = data
        return data
    prs = Presentation()
    if key in ("title", "body"):
        slide = prs.slides.add_slide(prs.slide_layouts[1])
    elif key == "picph":
        # picture placeholders start without a p:txBody: the text frame creates one on first access
        slide = prs.slides.add_slide(prs.slide_layouts[8])
        prs.slides.add_slide(prs.slide_layouts[8])
    else:
        slide = prs.slides.add_slide(prs.slide_layouts[6])
    if key == "textbox":
        slide.shapes.add_textbox(Inches(1), Inches(1), Inches(3), Inches(1))
        slide.shapes.add_textbox(Inches(1), Inches(3), Inches(3), Inches(1))
    elif key == "autoshape":
        from pptx.enum.shapes import MSO_SHAPE

        slide.shapes.add_shape(MSO_SHAPE.ROUNDED_RECTANGLE, Inches(1), Inches(1), Inches(3), Inches(1))
        slide.shapes.add_shape(MSO_SHAPE.ROUNDED_RECTANGLE, Inches(1), Inches(3), Inches(3), Inches(1))
    elif key == "cell":
        slide.shapes.add_table(2, 2, Inches(1), Inches(1), Inches(4), Inches(2))
    elif key == "notes":
        if slide.notes_slide.notes_text_frame is None:
            raise core.HarnessError("default notes slide has no body placeholder")
    elif key == "chart_title":
        from pptx.chart.data import CategoryChartData
        from pptx.enum.chart import XL_CHART_TYPE

        cd = CategoryChartData()
        cd.categories = ["a", "b"]
        cd.add_series("s", (1, 2))
        gf = slide.shapes.add_chart(XL_CHART_TYPE.COLUMN_CLUSTERED, Inches(1), Inches(1), Inches(5), Inches(3), cd)
        gf.chart.chart_title.text_frame.text = "t"
        gf.chart.category_axis.axis_title.text_frame.text = "x"
    buf = io.BytesIO()
    prs.save(buf)
    _BASE[key] = buf.getvalue()
    return _BASE[key]


def locate(prs, host):
    """-> (owner with a .text property or None, TextFrame)"""
    slide = prs.slides[0]
    if host in ("textbox", "autoshape", "corpus"):
        sh = slide.shapes[0]
        return sh, sh.text_frame
    if host == "picph":
        sh = slide.placeholders[1]
        return sh, sh.text_frame
    if host == "title":
        sh = slide.shapes.title
        return sh, sh.text_frame
    if host == "body":
        sh = slide.placeholders[1]
        return sh, sh.text_frame
    if host in ("cell", "cellnobody"):
        cell = slide.shapes[0].table.cell(1, 0)
        return cell, cell.text_frame
    if host == "notes":
        return None, slide.notes_slide.notes_text_frame
    if host == "chart_title":
        return None, slide.shapes[0].chart.chart_title.text_frame
    if host == "axis_title":
        return None, slide.shapes[0].chart.category_axis.axis_title.text_frame
    raise ValueError(host)


def sibling_frame(prs, host):
    """text frame of another object of the host's kind in the same deck (None when the host has none)"""
    slide = prs.slides[0]
    if host in ("textbox", "autoshape"):
        return slide.shapes[1].text_frame
    if host == "picph":
        return prs.slides[1].placeholders[1].text_frame
    if host == "title":
        return slide.placeholders[1].text_frame
    if host == "body":
        return slide.shapes.title.text_frame
    if host in ("cell", "cellnobody"):
        return slide.shapes[0].table.cell(0, 1).text_frame
    if host == "chart_title":
        return slide.shapes[0].chart.category_axis.axis_title.text_frame
    if host == "axis_title":
        return slide.shapes[0].chart.chart_title.text_frame
    return None


def base_level(host, level):
    """call site: frame (TextFrame.text), shape (Shape.text), cell (_Cell.text), para, run"""
    if level == "owner":
        level = "shape" if host in SHAPE_HOSTS else "cell" if host in ("cell", "cellnobody") else "frame"
    return level


def level_label(host, level):
    """host-qualified level used for coverage accounting (notes / chart hosts are counted apart)"""
    level = base_level(host, level)
    if host in ("notes", "chart_title", "axis_title"):
        return "%s-%s" % (host.replace("_", "-"), level)
    return level


def prior_xml(prior):
    parts = []
    for p in prior:
        parts.append("<a:p>")
        if PPRS[p["ppr"]]:
            parts.append(PPRS[p["ppr"]])
        for it in p["items"]:
            if it[0] == "r":
                parts.append("<a:r>%s<a:t>%s</a:t></a:r>" % (RPRS[it[2]] or "", _xml_escape(it[1])))
            elif it[0] == "br":
                parts.append("<a:br>%s</a:br>" % (RPRS[it[1]] or ""))
            elif it[0] == "fld":
                t = "" if it[1] is None else "<a:t>%s</a:t>" % _xml_escape(it[1])
                parts.append('<a:fld id="{4ACDC551-8A53-AE47-95A7-4A2F0C1FFF1B}" type="slidenum">%s%s</a:fld>'
                             % (RPRS[it[2]] or "", t))
            else:
                raise ValueError(it)
        if ENDS[p["end"]]:
            parts.append(ENDS[p["end"]])
        parts.append("</a:p>")
    return '<a:txBody xmlns:a="%s" xmlns:r="%s">%s</a:txBody>' % (NS_A, NS_R, "".join(parts))


def inject(txBody, prior):
    """replace the a:p children of txBody (set-up of a prior state; plain lxml tree surgery)"""
    from pptx.oxml import parse_xml

    wrapper = parse_xml(prior_xml(prior))
    for p in txBody.findall(A + "p"):
        txBody.remove(p)
    for p in list(wrapper):
        txBody.append(p)


def cycle(prs, what):
    from pptx import Presentation

    with core.sut("C04:save:%s" % what):
        buf = io.BytesIO()
        prs.save(buf)
    with core.sut("C04:reopen:%s" % what):
        return Presentation(io.BytesIO(buf.getvalue()))


# ====================================================================== oracle

def _clip(x, n=160):
    r = repr(x)
    return r if len(r) <= n else r[:n] + "..."


def observe(owner, tf, model, phase, lvl, ctx):
    """compare XML structure and all getters of a body with the model (list of item lists)"""
    pre = "C04:%s:%s-assign" % (phase, lvl)
    body = read_body(tf._txBody)
    if len(body) != len(model):
        raise Violation(pre + ":xml-p-count", "%s: %d a:p elements, %d frame-level segments"
                        % (ctx, len(body), len(model)))
    for i, (b, m) in enumerate(zip(body, model)):
        exp, got = items_segs(m), items_segs(b["items"])
        if len(exp) != len(got):
            raise Violation(pre + ":xml-br-count", "%s: paragraph %d holds %d a:br, %d breaks assigned"
                            % (ctx, i, len(got) - 1, len(exp) - 1))
        if exp != got:
            raise Violation(pre + ":xml-segment-text:" + diffclass(exp, got),
                            "%s: paragraph %d a:t text between breaks is %s, expected %s"
                            % (ctx, i, _clip(got), _clip(exp)))
    # ---- getters
    exp = frame_text(model)
    with core.sut(pre + ":frame-getter"):
        got = tf.text
    if got != exp:
        raise Violation(pre + ":frame-getter:" + diffclass(exp, got),
                        "%s: TextFrame.text reads %s, expected %s" % (ctx, _clip(got), _clip(exp)))
    if owner is not None:
        with core.sut(pre + ":owner-getter"):
            got = owner.text
        if got != exp:
            raise Violation(pre + ":owner-getter:" + diffclass(exp, got),
                            "%s: %s.text reads %s, expected %s" % (ctx, type(owner).__name__, _clip(got), _clip(exp)))
    with core.sut(pre + ":para-getter"):
        paras = tf.paragraphs
        ptexts = [p.text for p in paras]
        rtexts = [[r.text for r in p.runs] for p in paras]
    exp_p = [items_text(m) for m in model]
    if ptexts != exp_p:
        raise Violation(pre + ":para-getter:" + diffclass(exp_p, ptexts),
                        "%s: paragraph texts read %s, expected %s" % (ctx, _clip(ptexts), _clip(exp_p)))
    # run getter must agree with what is stored in a:r/a:t (already tied to the model by segments above)
    exp_r = [[it[1] for it in b["items"] if it[0] == "r"] for b in body]
    if rtexts != exp_r:
        raise Violation(pre + ":run-getter:" + diffclass(sum(exp_r, []), sum(rtexts, [])),
                        "%s: run texts read %s, a:r/a:t hold %s" % (ctx, _clip(rtexts), _clip(exp_r)))
    return body


def apply_op(owner, tf, host, model, op, rec):
    """one assignment; steps `model` (list of item lists) and checks level-specific clauses"""
    level, pi, ri, text = op[0], op[1], op[2], op[3]
    lvl = base_level(host, level)
    ctx = "host=%s level=%s text=%s" % (host, lvl, _clip(text, 120))
    before = read_body(tf._txBody)
    if level in ("frame", "owner"):
        target = owner if (level == "owner" and owner is not None) else tf
        with core.sut("C04:assign:%s" % lvl):
            target.text = text
        model[:] = model_frame(text)
        return lvl, ctx
    if level == "para":
        pi %= len(model)
        with core.sut("C04:assign:%s" % lvl):
            tf.paragraphs[pi].text = text
        model[pi] = model_para_items(text)
        after = read_body(tf._txBody)
        pre = "C04:live:%s-assign" % lvl
        if len(after) != len(before):
            raise Violation(pre + ":xml-p-count", "%s: paragraph count %d -> %d" % (ctx, len(before), len(after)))
        for j, (b, a) in enumerate(zip(before, after)):
            if j != pi and a["xml"] != b["xml"]:
                raise Violation(pre + ":other-paragraph-touched", "%s: paragraph %d changed by assignment to %d"
                                % (ctx, j, pi))
        for name, k in (("pPr", "ppr"), ("endParaRPr", "end")):
            if after[pi][k] != before[pi][k]:
                what = "lost" if after[pi][k] is None else "added" if before[pi][k] is None else "changed"
                raise Violation("%s:%s-%s" % (pre, name, what), "%s: a:%s of paragraph %d %s: %s -> %s"
                                % (ctx, name, pi, what, _clip(before[pi][k]), _clip(after[pi][k])))
        return lvl, ctx
    if level == "run":
        with_runs = [i for i, m in enumerate(model) if any(it[0] == "r" for it in m)]
        if not with_runs:
            pi %= len(model)
            with core.sut("C04:add_run"):
                tf.paragraphs[pi].add_run()
            model[pi].append(["r", ""])
            before = read_body(tf._txBody)
            if rec is not None:
                rec.cls("run-op:add_run-first")
        else:
            pi = with_runs[pi % len(with_runs)]
        ridx = [k for k, it in enumerate(model[pi]) if it[0] == "r"]
        ri %= len(ridx)
        with core.sut("C04:assign:%s" % lvl):
            tf.paragraphs[pi].runs[ri].text = text
        model[pi][ridx[ri]] = ["r", model_run(text)]
        after = read_body(tf._txBody)
        pre = "C04:live:%s-assign" % lvl
        if len(after) != len(before):
            raise Violation(pre + ":xml-p-count", "%s: paragraph count %d -> %d" % (ctx, len(before), len(after)))
        exp_items = [list(it) for it in before[pi]["items"]]
        exp_items[ridx[ri]] = ["r", model_run(text)]
        if after[pi]["items"] != exp_items:
            got_t = [it[-1] if len(it) > 1 else "\v" for it in after[pi]["items"]]
            exp_t = [it[-1] if len(it) > 1 else "\v" for it in exp_items]
            raise Violation(pre + ":run-content:" + diffclass(exp_t, got_t),
                            "%s: items of paragraph %d are %s, expected %s"
                            % (ctx, pi, _clip(after[pi]["items"]), _clip(exp_items)))
        for j, (b, a) in enumerate(zip(before, after)):
            if j != pi and a["xml"] != b["xml"]:
                raise Violation(pre + ":other-paragraph-touched", "%s: paragraph %d changed by run assignment in %d"
                                % (ctx, j, pi))
        return lvl, ctx
    raise ValueError(level)


def prior_classes(case, body):
    out = ["host:" + case["host"], "prior:" + ("host-own" if case["prior"] is None else "generated")]
    if case["pre"]:
        out.append("prior:as-loaded")
    if len(body) > 1:
        out.append("prior:multi-paragraph")
    kinds = set(it[0] for b in body for it in b["items"])
    for k in sorted(kinds):
        out.append("prior:has-" + k)
    if any(b["ppr"] for b in body):
        out.append("prior:has-pPr")
    if any(b["end"] for b in body):
        out.append("prior:has-endParaRPr")
    if any(it[0] != "br" and it[1] != "" and it[1].strip(" \t\n") == "" for b in body for it in b["items"]):
        out.append("prior:ws-only-run")
    return out


def run_case(case, rec=None):
    from pptx import Presentation

    host = case["host"]
    with core.sut("C04:open-base"):
        prs = Presentation(io.BytesIO(_base_bytes(host)))
        owner, tf = locate(prs, host)
    if case["prior"] is not None:
        inject(tf._txBody, case["prior"])
    if case["pre"]:
        prs = cycle(prs, "prior-state")
        owner, tf = locate(prs, host)
    body = read_body(tf._txBody)
    model = [[list(it) for it in b["items"]] for b in body]
    if rec is not None:
        rec.cls(*prior_classes(case, body))
    total_cycles = 0
    for op in case["ops"]:
        text = op[3]
        if not S.in_domain(text):
            raise core.HarnessError("out-of-domain text generated: %r" % (text,))
        lvl, ctx = apply_op(owner, tf, host, model, op, rec)
        body = observe(owner, tf, model, "live", lvl, ctx)
        # re-base the model on the verified actual item structure (run count per segment is not pinned)
        model[:] = [[list(it) for it in b["items"]] for b in body]
        if case.get("sibling"):
            # text given to another object of the same kind is that object's: the host reads as before
            with core.sut("C04:sibling-assign"):
                stf = sibling_frame(prs, host)
                if stf is not None:
                    stf.text = "sibling\ntext"
                    owner, tf = locate(prs, host)
            if stf is not None:
                if rec is not None:
                    rec.cls("sibling-assigned")
                observe(owner, tf, model, "live", lvl, ctx + " [after text was assigned to a sibling object]")
        ncyc = 0
        for _ in range(op[4]):
            if total_cycles >= 3:
                break
            total_cycles += 1
            ncyc += 1
            prs = cycle(prs, "%s-assign" % lvl)
            owner, tf = locate(prs, host)
            ctx2 = ctx + " re-open#%d" % ncyc
            body2 = observe(owner, tf, model, "reopen", lvl, ctx2)
            for i, (b, a) in enumerate(zip(body, body2)):
                if a["items"] != b["items"]:
                    et = [it[-1] if len(it) > 1 else "\v" for it in b["items"]]
                    gt = [it[-1] if len(it) > 1 else "\v" for it in a["items"]]
                    raise Violation("C04:reopen:%s-assign:item-text:%s" % (lvl, diffclass(et, gt)),
                                    "%s: paragraph %d items before save %s, after re-open %s"
                                    % (ctx2, i, _clip(b["items"]), _clip(a["items"])))
                for name, k in (("pPr", "ppr"), ("endParaRPr", "end")):
                    if (a[k] is None) != (b[k] is None):
                        raise Violation("C04:reopen:%s-assign:%s-presence" % (lvl, name),
                                        "%s: a:%s of paragraph %d %s across re-open"
                                        % (ctx2, name, i, "lost" if a[k] is None else "appeared"))
            body = body2
        if rec is not None:
            lab = level_label(host, op[0])
            rec.note([lab, text], S.nontrivial_text(text),
                     classes=["level:" + lab, "cycles-after-op:%d" % ncyc] + ["txt:" + c for c in S.classes_of(text)])


# ====================================================================== generation

def case_strategy(max_len):
    from hypothesis import strategies as st

    text = S.xml_text(max_len)
    ptext = S.xml_safe_text()
    r_item = st.tuples(st.just("r"), ptext, st.integers(0, len(RPRS) - 1))
    br_item = st.tuples(st.just("br"), st.integers(0, 1))
    fld_item = st.tuples(st.just("fld"), st.one_of(st.none(), ptext), st.integers(0, 1))
    item = st.one_of(r_item, r_item, r_item, br_item, br_item, fld_item)
    para = st.fixed_dictionaries({
        "ppr": st.sampled_from([0, 0, 1, 2, 3, 4]),
        "end": st.sampled_from([0, 0, 1, 2]),
        "items": st.lists(item, min_size=0, max_size=5),
    })
    prior = st.one_of(st.none(), st.lists(para, min_size=1, max_size=4), st.lists(para, min_size=1, max_size=4))
    op = st.tuples(st.sampled_from(LEVELS), st.integers(0, 7), st.integers(0, 7), text,
                   st.sampled_from([0, 0, 1, 1, 1, 1, 2]))
    return st.fixed_dictionaries({
        "host": st.sampled_from(HOSTS),
        "prior": prior,
        "pre": st.booleans(),
        "sibling": st.booleans(),
        "ops": st.lists(op, min_size=1, max_size=3),
    })


RICH_PRIOR = [
    {"ppr": 1, "end": 0, "items": [["r", "first", 1]]},
    {"ppr": 2, "end": 2, "items": [["r", " Foo ", 2], ["br", 1], ["r", " ", 0], ["fld", "1", 1], ["r", "tail", 3]]},
    {"ppr": 0, "end": 1, "items": []},
]
ENUM_HOSTS = ["textbox", "cell", "body", "chart_title", "picph"]


def enum_strings(tier):
    """deterministic list: single interesting characters in 4 contexts, then all strings over a break alphabet"""
    out = []
    singles = [chr(c) for c in range(0x20)] + [" ", "&", "<", ">", '"', "'", "_", "\x7f", "\x85", "\u00a0",
                                                  "\u2028", "\U0001f600"]
    for ch in singles:
        out += [ch, "a" + ch, ch + "a", "a" + ch + "b"]
    out += ["", "_x000A_", "_x000D_a", "]]>", "&amp;", "&#10;", "\r\n", "a\r\nb", "<a:br/>"]
    alpha = ["\n", "\v", "a", " "]
    for n in range(1, (5 if tier == "thorough" else 4) + 1):
        for t in itertools.product(alpha, repeat=n):
            out.append("".join(t))
    seen, uniq = set(), []
    for s in out:
        if s not in seen:
            seen.add(s)
            uniq.append(s)
    return uniq


def enum_cases(tier):
    strings = enum_strings(tier)
    k = 0
    for s in strings:
        for level in LEVELS:
            host = ENUM_HOSTS[(k // len(LEVELS) + k) % len(ENUM_HOSTS)]
            k += 1
            yield {"host": host, "prior": RICH_PRIOR, "pre": bool(k % 3 == 0), "sibling": bool(k % 2),
                   "ops": [[level, 1, 1, s, 1]]}


NENUM = 4


def jobs(tier):
    n = 18000 if tier == "thorough" else 800
    js = [{"kind": "hyp", "shard": i, "n": n, "max_len": 400 if (tier == "thorough" and i % 4 == 3) else 40}
          for i in range(16)]
    js += [{"kind": "enum", "shard": i} for i in range(NENUM)]
    return js


def run_job(job, seed, tier, rec, known):
    if job["kind"] == "hyp":
        return hyp_search(lambda case: run_case(case, rec), case_strategy(job["max_len"]), seed=seed,
                          max_examples=job["n"], rec=rec, known=known)
    if job["kind"] == "enum":
        cases = list(enum_cases(tier))[job["shard"]::NENUM]
        return run_plain(lambda case: run_case(case, rec), cases, rec=rec, known=known)
    raise ValueError(job["kind"])


def replay(case):
    return collect(run_case, case)
