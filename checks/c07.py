"""C07 — a chart's XML is valid and reports exactly the data it was given.

Generated-input search: (chart type, chart data, 0-4 replacement data sets) histories on charts made
by `shapes.add_chart` / `ChartPlaceholder.insert_chart`, and replacement histories on the
PowerPoint-authored charts of the cht-*.pptx corpus decks.

Oracle (independent of the library): ISO XSD validation of the chart part (vlib.xsdoracle); a
reference model of the supplied data (vlib.c07_chartdata: leaf labels, levels, flattened labels,
Excel day serials) compared with what `chart.plots[i].categories / .series[j].name / .values`
report, on the live chart and on a chart re-parsed from `ChartPart.blob`; own lxml reading of
c:xVal / c:bubbleSize caches, c:idx / c:order; structural before/after comparison for replace_data.
"""
import copy
import io
import os
import re

from lxml import etree

from vlib import c07_chartdata as cdm
from vlib import core, xsdoracle
from vlib.core import Violation, hyp_search

PROPERTY = "C07"
LEVEL = "exploration"
EXHAUSTIVE = False
RULE = ("Hypothesis-generated histories: one of the 29 writable chart types x chart data of the matching kind "
        "(category data with 1-4 category levels and ragged branching, str/int/float/date/datetime labels, "
        "0-50 series, 0-300 points, None gaps; XY / bubble data with unequal series lengths and None "
        "coordinates; number formats at chart/series/category level) added through shapes.add_chart or "
        "ChartPlaceholder.insert_chart, then 0-4 replace_data calls with independently generated data of the "
        "same kind (>=1 series); plus the 92 charts of the cht-*.pptx corpus decks as start states for 1-3 "
        "replace_data calls. A case is non-trivial when some data set in it has >=2 category levels, a None, "
        "date or numeric categories, 0 or >=27 series, or a replace_data changes the series count. Distinct "
        "= distinct hash of the whole case (type, route, every data set).")
ASSUMPTIONS = [
    "number-format strings are drawn without the characters < > & \" (escaping of caller text in chart XML is "
    "property C05); labels and names contain no C0 control characters other than TAB and LF",
    "category labels of one chart are of one type; multi-level labels are strings (documented precondition)",
    "dates are 1900-01-01 .. 9999-12-31 (no Excel serial exists before 1900); for datetime labels both the "
    "day serial and day serial + day fraction are accepted",
    "numeric category text is accepted when it parses to the same number (not necessarily str(label))",
    "replace_data is given >=1 series; a chart kind is the kind of its first plot; corpus charts that mix "
    "category and XY/bubble plots, or whose first plot type the library documents as unsupported, are skipped",
    "plots of a type whose series the read API documents as unsupported (area3DChart) are validated and "
    "compared structurally only",
    "surplus series are the last ones in (plot document order, c:order) order; new series come last in that "
    "order (docstrings of replace_series_data / _adjust_ser_count); already empty plots may stay or go",
    "chart.chart_type is only required to equal the requested type when the chart has >=1 series",
]

NS_C = "http://schemas.openxmlformats.org/drawingml/2006/chart"
C = "{%s}" % NS_C
DATA_TAGS = {C + t for t in ("tx", "cat", "val", "xVal", "yVal", "bubbleSize")}
API_PLOT_TAGS = {"areaChart", "area3DChart", "barChart", "bubbleChart", "doughnutChart", "lineChart",
                 "pieChart", "radarChart", "scatterChart"}
API_SERIES_TAGS = API_PLOT_TAGS - {"area3DChart"}
PH_DECK = "features/steps/test_files/ph-unpopulated-placeholders.pptx"

_INT_RE = re.compile(r"^-?\d+$")


# ------------------------------------------------------------------ own XML reading

def x_xcharts(root):
    pa = root.find("%schart/%splotArea" % (C, C))
    if pa is None:
        return []
    return [el for el in pa if isinstance(el.tag, str) and el.tag.startswith(C) and el.tag.endswith("Chart")]


def x_sers(xchart):
    sers = xchart.findall(C + "ser")

    def order(s):
        o = s.find(C + "order")
        try:
            return int(o.get("val"))
        except Exception:
            return 0
    return sorted(sers, key=order)  # stable: document order among equal c:order


def x_all_sers(root):
    out = []
    for xc in x_xcharts(root):
        out.extend(x_sers(xc))
    return out


def x_local(el):
    return etree.QName(el).localname


def x_kind(root):
    tags = [x_local(xc) for xc in x_xcharts(root)]
    if not tags:
        return None, tags

    def k(t):
        return "xy" if t == "scatterChart" else "bubble" if t == "bubbleChart" else "category"
    kinds = {k(t) for t in tags}
    if len(kinds) != 1:
        return "mixed", tags
    return kinds.pop(), tags


def x_date1904(root):
    el = root.find(C + "date1904")
    if el is None:
        return False
    return el.get("val", "1") in ("1", "true", "on")


def x_num_cache(ser, tag):
    """-> (ptCount | None, {idx: text}) of c:ser/c:<tag>/c:numRef/c:numCache (or c:numLit)."""
    el = ser.find(C + tag)
    if el is None:
        return None, {}
    cache = el.find("%snumRef/%snumCache" % (C, C))
    if cache is None:
        cache = el.find(C + "numLit")
    if cache is None:
        return None, {}
    pc = cache.find(C + "ptCount")
    n = int(pc.get("val")) if pc is not None else None
    pts = {}
    for pt in cache.findall(C + "pt"):
        v = pt.find(C + "v")
        pts[int(pt.get("idx"))] = None if v is None else (v.text or "")
    return n, pts


# ------------------------------------------------------------------ structural comparison

def _norm_text(el, t):
    if t is None:
        return ""
    if len(el) and not t.strip():
        return ""
    return t


def tree_diff(a, b, path):
    """First difference between two element trees (ignorable whitespace, prefixes, comments aside)."""
    here = path + "/" + (x_local(a) if isinstance(a.tag, str) else "?")
    if a.tag != b.tag:
        return "%s: element %s became %s" % (path, a.tag, b.tag), path
    if dict(a.attrib) != dict(b.attrib):
        return "%s: attributes %r became %r" % (here, dict(a.attrib), dict(b.attrib)), here
    if _norm_text(a, a.text) != _norm_text(b, b.text):
        return "%s: text %r became %r" % (here, a.text, b.text), here
    ka = [c for c in a if isinstance(c.tag, str)]
    kb = [c for c in b if isinstance(c.tag, str)]
    for ca, cb in zip(ka, kb):
        d = tree_diff(ca, cb, here)
        if d:
            return d
    if len(ka) != len(kb):
        extra = kb[len(ka)] if len(kb) > len(ka) else ka[len(kb)]
        what = "gained" if len(kb) > len(ka) else "lost"
        return "%s: %s child %s" % (here, what, x_local(extra)), here + "/" + x_local(extra)
    return None


def frame_diff(before, after, n_new):
    """Compare everything replace_data must leave alone. -> (message, where) or None."""
    B = copy.deepcopy(before)
    A = copy.deepcopy(after)
    old = x_all_sers(B)
    new = x_all_sers(A)
    k = min(len(old), n_new)
    for s in old[k:]:
        s.getparent().remove(s)
    for s in new[len(old):]:
        s.getparent().remove(s)
    for root in (B, A):
        for xc in x_xcharts(root):
            if xc.find(C + "ser") is None:
                xc.getparent().remove(xc)
        for s in x_all_sers(root):
            for ch in list(s):
                if ch.tag in DATA_TAGS:
                    s.remove(ch)
    return tree_diff(B, A, "")


# ------------------------------------------------------------------ reporting

class Reporter:
    """Search mode: known keys are counted and the case goes on; an unknown key aborts the case.
    Replay mode (known=None): every violation is collected."""

    def __init__(self, rec=None, known=None, collect=False):
        self.rec = rec
        self.known = known or {}
        self.collect = collect
        self.found = []
        self.seen = set()

    def __call__(self, key, message):
        if self.collect:
            if key not in self.seen:
                self.seen.add(key)
                self.found.append({"key": key, "message": message})
            return
        if key in self.known:
            if key not in self.seen:      # count a finding once per case
                self.seen.add(key)
                if self.rec is not None:
                    self.rec.known[key] += 1
            return
        raise Violation(key, message)


# ------------------------------------------------------------------ oracle: validity

def xsd_records(blob):
    """-> {(message, location class)}; location class = last three steps of the element path without
    positional predicates (xsdoracle appends it as ' @a/b/c')."""
    errs = xsdoracle.errors(blob) or set()
    out = set()
    for e in errs:
        if " @" in e:
            msg, _, loc = e.rpartition(" @")
        else:
            msg, loc = e, ""
        loc = re.sub(r"\s*\[.*$", "", loc)
        loc = re.sub(r"[^A-Za-z0-9_/]", "", loc)
        out.add((msg, loc))
    return out


def xsd_key(msg, path, root):
    segs = [s for s in path.split("/") if s]
    tail = "/".join(segs[-3:])
    if segs and segs[-1] in ("axId", "crossAx") and "xs:unsignedInt" in msg and "attribute 'val'" in msg:
        neg = [el.get("val") for el in root.iter(C + "axId", C + "crossAx") if (el.get("val") or "").startswith("-")]
        if neg:
            return "C07:axId-negative"
    if "This element is not expected" in msg or "Missing child" in msg:
        kind = "order"
    elif "attribute" in msg:
        kind = "attr"
    elif "not a valid value" in msg or "facet" in msg:
        kind = "value"
    else:
        kind = "other"
    return "C07:xsd:%s:at=%s" % (kind, tail)


def check_valid(blob, root, baseline, op, report):
    recs = xsd_records(blob)
    for msg, path in sorted(recs - baseline):
        report(xsd_key(msg, path, root), "after %s the chart part is schema-invalid: %s at %s" % (op, msg[:220], path))
    return recs


# ------------------------------------------------------------------ oracle: data read-back

def _num_label_ok(got, label):
    got = str(got)
    if got != got.strip():
        return False
    try:
        if isinstance(label, int) and _INT_RE.match(got):
            return int(got) == label
        return float(got) == float(label)
    except ValueError:
        return False


def _date_label_ok(got, label, date1904):
    import datetime as dt

    try:
        g = float(str(got))
    except ValueError:
        return False
    serial = cdm.excel_serial(label, date1904)
    if g == float(serial):
        return True
    if isinstance(label, dt.datetime):
        frac = (label.hour * 3600 + label.minute * 60 + label.second + label.microsecond / 1e6) / 86400.0
        return abs(g - (serial + frac)) < 1e-6
    return False


def _str_label(report, got, exp, what, op):
    """Verbatim string clause; the '' -> 'None' read-back has its own key."""
    got = str(got)
    if got == exp:
        return
    if exp == "" and got == "None":
        report("C07:empty-category-label", "%s: the empty-string label was supplied, the read API reports 'None'" % what)
        return
    report("C07:categories:label:str:%s" % op, "%s: label %r was supplied, %r is reported" % (what, exp[:60], got[:60]))


def check_categories(plot, desc, date1904, op, view, report):
    forest = desc["categories"]
    kind = desc["label_kind"]
    leaves = cdm.leaf_labels(forest)
    d = cdm.depth(forest)
    with core.sut("C07:read:categories"):
        cats = plot.categories
        n = len(cats)
        got = [c for c in cats]
        got_depth = cats.depth
        flat = [tuple(str(x) for x in t) for t in cats.flattened_labels]
        lvls = [[(c.idx, str(c)) for c in lvl] for lvl in cats.levels]
    sfx = "%s%s" % (op, view)
    if n != len(leaves):
        report("C07:categories:len:%s" % sfx, "len(plot.categories) is %d, %d leaf categories were supplied" % (n, len(leaves)))
    if len(got) != len(leaves):
        report("C07:categories:count:%s" % sfx, "plot.categories yields %d labels, %d were supplied" % (len(got), len(leaves)))
        return
    if got_depth != d:
        report("C07:categories:depth:%s" % sfx, "categories.depth is %r, the data has %d level(s)" % (got_depth, d))
    for i, (g, e) in enumerate(zip(got, leaves)):
        if kind in ("str", "tree"):
            _str_label(report, g, e, "category %d" % i, sfx)
        elif kind in ("int", "float"):
            if not _num_label_ok(g, e):
                report("C07:categories:label:%s:%s" % (kind, sfx), "category %d: label %r was supplied, %r is reported" % (i, e, str(g)))
        else:
            if not _date_label_ok(g, e, date1904):
                report("C07:categories:label:%s:%s" % (kind, sfx), "category %d: %r (serial %d, date1904=%s) reported as %r"
                       % (i, e, cdm.excel_serial(e, date1904), date1904, str(g)))
        if g.idx != i:
            report("C07:categories:idx:%s" % sfx, "category %d reports idx %r" % (i, g.idx))
    if kind == "tree":
        exp_flat = cdm.flattened(forest)
        if len(flat) != len(exp_flat):
            report("C07:categories:flattened:%s" % sfx, "flattened_labels has %d entries, expected %d" % (len(flat), len(exp_flat)))
        else:
            for i, (g, e) in enumerate(zip(flat, exp_flat)):
                if len(g) != len(e):
                    report("C07:categories:flattened:%s" % sfx, "flattened_labels[%d] is %r, expected %r" % (i, g, e))
                    break
                for gg, ee in zip(g, e):
                    if gg != ee:
                        if ee == "" and gg == "None":
                            report("C07:empty-category-label", "flattened_labels[%d]: '' reported as 'None'" % i)
                        else:
                            report("C07:categories:flattened:%s" % sfx, "flattened_labels[%d] is %r, expected %r" % (i, g, e))
        exp_lv = cdm.levels(forest)
        if len(lvls) != len(exp_lv):
            report("C07:categories:levels:%s" % sfx, "categories.levels has %d levels, expected %d" % (len(lvls), len(exp_lv)))
        else:
            for li, (gl, el) in enumerate(zip(lvls, exp_lv)):
                if [i for i, _ in gl] != [i for i, _ in el] or len(gl) != len(el):
                    report("C07:categories:levels:idx:%s" % sfx, "level %d (leaf level = 0) has (idx) %r, expected %r"
                           % (li, [i for i, _ in gl][:12], [i for i, _ in el][:12]))
                    continue
                for (gi, gg), (ei, ee) in zip(gl, el):
                    if gg != ee:
                        if ee == "" and gg == "None":
                            report("C07:empty-category-label", "levels[%d] idx %d: '' reported as 'None'" % (li, gi))
                        else:
                            report("C07:categories:levels:label:%s" % sfx, "level %d idx %d is %r, expected %r" % (li, gi, gg[:60], ee[:60]))
    else:
        if lvls:
            report("C07:categories:levels:%s" % sfx, "single-level categories report %d levels" % len(lvls))
        if flat != [(str(g),) for g in got]:
            report("C07:categories:flattened:%s" % sfx, "flattened_labels differs from the labels of a single-level collection")


def _cmp_values(report, got, exp, what, clause, sfx):
    if len(got) != len(exp):
        report("C07:%s:length:%s" % (clause, sfx), "%s: %d values reported, %d supplied" % (what, len(got), len(exp)))
        return
    for i, (g, e) in enumerate(zip(got, exp)):
        if e is None or g is None:
            if not (e is None and g is None):
                report("C07:%s:none:%s" % (clause, sfx), "%s point %d: %r supplied, %r reported" % (what, i, e, g))
                return
            continue
        if not (isinstance(g, float) and g == float(e)):
            report("C07:%s:number:%s" % (clause, sfx), "%s point %d: %r supplied, %r reported" % (what, i, e, g))
            return


def check_read(chart, root, desc, op, view, report):
    """Read API of `chart` (live or re-parsed) against the data description."""
    sfx = "%s%s" % (op, view)
    xcs = x_xcharts(root)
    sizes = [len(x_sers(xc)) for xc in xcs]
    data = desc["series"]
    if sum(sizes) != len(data):
        report("C07:series-count:%s" % sfx, "%d series supplied, the chart XML holds %d c:ser" % (len(data), sum(sizes)))
        return
    with core.sut("C07:read:plots"):
        plots = list(chart.plots)
    if len(plots) != len(xcs):
        report("C07:plot-count:%s" % sfx, "chart.plots has %d plots, the XML %d" % (len(plots), len(xcs)))
        return
    date1904 = x_date1904(root)
    pos = 0
    for plot, xc, size in zip(plots, xcs, sizes):
        mine = data[pos:pos + size]
        pos += size
        tag = x_local(xc)
        if tag not in API_SERIES_TAGS:
            continue
        with core.sut("C07:read:series"):
            sers = list(plot.series)
            names = [s.name for s in sers]
            values = [tuple(s.values) for s in sers]
        if len(sers) != size:
            report("C07:series-count:%s" % sfx, "plot %s reports %d series, expected %d" % (tag, len(sers), size))
            continue
        for j, sd in enumerate(mine):
            if names[j] != sd["name"]:
                report("C07:series-name:%s" % sfx, "series %d: name %r supplied, %r reported" % (j, sd["name"][:60], names[j][:60]))
            if desc["kind"] == "category":
                exp = sd["values"]
            else:
                exp = [p[1] for p in sd["points"]]
            _cmp_values(report, values[j], exp, "series %d" % j, "values", sfx)
        if desc["kind"] == "category" and size > 0:
            check_categories(plot, desc, date1904, op, view, report)


def check_xml_data(root, desc, op, report):
    """X values and bubble sizes are not exposed by the read API: read the caches directly.
    Also c:idx / c:order uniqueness."""
    sers = x_all_sers(root)
    if desc["kind"] in ("xy", "bubble") and len(sers) == len(desc["series"]):
        cols = [("xVal", 0)] + ([("bubbleSize", 2)] if desc["kind"] == "bubble" else [])
        for j, (ser, sd) in enumerate(zip(sers, desc["series"])):
            for tag, col in cols:
                n, pts = x_num_cache(ser, tag)
                exp = [p[col] for p in sd["points"]]
                if n is None:
                    report("C07:xml:%s:missing:%s" % (tag, op), "series %d has no c:%s number cache" % (j, tag))
                    continue
                got = []
                bad = False
                for i in range(n):
                    if i in pts:
                        try:
                            got.append(float(pts[i]))
                        except ValueError:
                            report("C07:xml:%s:number:%s" % (tag, op), "series %d c:%s pt %d holds %r" % (j, tag, i, pts[i]))
                            bad = True
                            break
                    else:
                        got.append(None)
                if bad:
                    continue
                if any(i >= n for i in pts):
                    report("C07:xml:%s:length:%s" % (tag, op), "series %d c:%s has a c:pt beyond c:ptCount %d" % (j, tag, n))
                    continue
                _cmp_values(report, got, exp, "series %d c:%s" % (j, tag), "xml:" + tag, op)


def check_idx_order(root, baseline_ok, op, report):
    sers = x_all_sers(root)
    out = {}
    for tag in ("idx", "order"):
        vals = []
        for s in sers:
            el = s.find(C + tag)
            vals.append(None if el is None else el.get("val"))
        dup = len(set(vals)) != len(vals)
        out[tag] = not dup
        if dup and baseline_ok.get(tag, True):
            report("C07:%s-duplicate:%s" % (tag, op), "c:%s values of the chart's series are %r" % (tag, vals[:60]))
    return out


# ------------------------------------------------------------------ case execution

_cache = {}


def _ph_deck_bytes():
    if "ph" not in _cache:
        with open(os.path.join(core.REPO, PH_DECK), "rb") as f:
            _cache["ph"] = f.read()
    return _cache["ph"]


def _deck_bytes(rel):
    key = ("deck", rel)
    if key not in _cache:
        with open(os.path.join(core.REPO, rel), "rb") as f:
            _cache[key] = f.read()
    return _cache[key]


def corpus_charts():
    """[(deck rel path, slide index, shape index, kind, first-plot tag, n series)] of every chart in cht-*.pptx."""
    if "corpus" in _cache:
        return _cache["corpus"]
    import glob

    from pptx import Presentation

    out = []
    decks = sorted(glob.glob(os.path.join(core.REPO, "features/steps/test_files/cht-*.pptx")))
    if not decks:
        raise core.HarnessError("no cht-*.pptx corpus decks under %s" % core.REPO)
    for path in decks:
        rel = os.path.relpath(path, core.REPO)
        prs = Presentation(io.BytesIO(_deck_bytes(rel)))
        for si, slide in enumerate(prs.slides):
            for hi, sh in enumerate(slide.shapes):
                if not getattr(sh, "has_chart", False):
                    continue
                root = etree.fromstring(sh.chart.part.blob)
                kind, tags = x_kind(root)
                out.append([rel, si, hi, kind, tags, len(x_all_sers(root)), [len(x_sers(xc)) for xc in x_xcharts(root)]])
    _cache["corpus"] = out
    return out


_LAST_CD = [None]   # the chart-data object of the chart created last (for the reuse-and-grow step)


def _new_chart(case):
    from pptx import Presentation
    from pptx.enum.chart import XL_CHART_TYPE
    from pptx.shapes.placeholder import ChartPlaceholder
    from pptx.util import Emu

    ct = getattr(XL_CHART_TYPE, case["type"])
    cd = cdm.build(case["data"])
    _LAST_CD[0] = cd
    if case.get("via") == "placeholder":
        prs = Presentation(io.BytesIO(_ph_deck_bytes()))
        ph = None
        for slide in prs.slides:
            for p in slide.placeholders:
                if isinstance(p, ChartPlaceholder):
                    ph = p
                    break
            if ph is not None:
                break
        if ph is None:
            raise core.HarnessError("no chart placeholder in %s" % PH_DECK)
        with core.sut("C07:insert_chart"):
            gf = ph.insert_chart(ct, cd)
            chart = gf.chart
        return prs, chart, ct, "add"      # same writer as add_chart: one call-site class in finding keys
    prs = Presentation()
    slide = prs.slides.add_slide(prs.slide_layouts[6])
    with core.sut("C07:add_chart"):
        gf = slide.shapes.add_chart(ct, Emu(914400), Emu(914400), Emu(4572000), Emu(3429000), cd)
        chart = gf.chart
    return prs, chart, ct, "add"


def _reparsed(blob):
    from pptx.chart.chart import Chart
    from pptx.oxml import parse_xml

    return Chart(parse_xml(blob), None)


def _observe(chart, desc, baseline, idx_ok, op, report, requested_type=None):
    with core.sut("C07:blob"):
        blob = chart.part.blob
    root = etree.fromstring(blob)
    recs = check_valid(blob, root, baseline, op, report)
    if (desc is not None and requested_type is not None and requested_type.name in ("PIE", "PIE_EXPLODED")
            and op == "add" and len(desc["series"]) > 1 and len(x_all_sers(root)) == 1):
        report("C07:pie-extra-series-dropped", "%d series supplied to a new %s chart, only the first is written"
               % (len(desc["series"]), requested_type.name))
        desc = dict(desc, series=desc["series"][:1])     # go on with what a one-series pie must report
    if desc is not None:
        live = Reporter(collect=True)
        check_read(chart, root, desc, op, "", live)
        for f in live.found:
            report(f["key"], f["message"])
        with core.sut("C07:reparse"):
            again = _reparsed(blob)
        second = Reporter(collect=True)
        check_read(again, root, desc, op, ":reparsed", second)
        live_keys = {f["key"] for f in live.found}
        for f in second.found:
            # same clause already reported on the live chart -> one root cause
            if f["key"].replace(":reparsed", "") in live_keys or f["key"] in live_keys:
                continue
            report(f["key"], f["message"] + " (chart re-parsed from ChartPart.blob)")
        check_xml_data(root, desc, op, report)
    idx_ok = check_idx_order(root, idx_ok, op, report)
    if requested_type is not None and desc is not None and len(desc["series"]) > 0:
        with core.sut("C07:chart_type"):
            got = chart.chart_type
        if got != requested_type:
            report("C07:chart-type:%s:%s" % (requested_type.name, op), "chart_type of a chart requested as %s is %s after %s"
                   % (requested_type.name, getattr(got, "name", got), op))
    return root, recs, idx_ok


def _decorate(chart, how):
    """Non-data content inside the series that replace_data must leave alone (custom point label text,
    point and series formatting, series-level data labels); `how` is a bit mask. Failures of the decoration
    itself are not this property's concern (formatting setters are C09's)."""
    try:
        for plot in list(chart.plots)[:2]:
            for si, ser in enumerate(list(plot.series)[:3]):
                pts = ser.points
                n = len(pts)
                if how & 1 and n:
                    pts[(si + how) % n].data_label.text_frame.text = "label %d" % si
                if how & 2 and n:
                    pts[0].format.fill.solid()
                if how & 4:
                    ser.format.line.width = 12700 * (1 + si)
                if how & 8 and hasattr(type(ser), "data_labels"):
                    ser.data_labels.show_value = True
                    ser.data_labels.number_format = "0.0"
    except Exception:
        pass


def _plot_reading(plot):
    out = {"series": [], "cats": None}
    for srs in plot.series:
        try:
            vals = list(srs.values)
        except Exception as e:
            vals = "!" + type(e).__name__
        out["series"].append([srs.name, vals])
    try:
        out["cats"] = [str(c) for c in plot.categories]
    except Exception as e:
        out["cats"] = "!" + type(e).__name__
    return out


def _check_held_plot(chart, held_plot, report):
    """The first plot survives every replace_data that supplies >= 1 series; a proxy for it obtained before
    the call must report the new data exactly like one obtained after the call."""
    try:
        fresh = _plot_reading(chart.plots[0])
        held = _plot_reading(held_plot)
    except Exception:
        return
    if fresh != held:
        report("C07:held-plot-stale:replace",
               "a plot object obtained before replace_data reports %s, chart.plots[0] obtained afterwards reports %s"
               % (str(held)[:200], str(fresh)[:200]))


def _replace(chart, before_root, desc, report):
    """-> True when the chart was rewritten."""
    n_old = len(x_all_sers(before_root))
    cd = cdm.build(desc)
    try:
        with core.sut("C07:replace_data"):
            chart.replace_data(cd)
    except Violation as v:
        if n_old == 0:
            report("C07:replace-data-on-seriesless-chart",
                   "replace_data on a chart whose plots hold no series: %s" % v.message)
        else:
            report(v.key, v.message)
        return False
    return True


def execute(case, report):
    """Run one history; every oracle failure goes through report(key, message)."""
    if case["mode"] == "gen":
        prs, chart, ct, op = _new_chart(case)
        root, recs, idx_ok = _observe(chart, case["data"], set(), {}, op, report, requested_type=ct)
        baseline = set()          # generated charts: validity is absolute
    else:
        from pptx import Presentation

        prs = Presentation(io.BytesIO(_deck_bytes(case["deck"])))
        chart = prs.slides[case["slide"]].shapes[case["shape"]].chart
        ct = None
        blob = chart.part.blob
        baseline = xsd_records(blob)          # corpus charts: no new errors
        root = etree.fromstring(blob)
        idx_ok = check_idx_order(root, {"idx": False, "order": False}, "corpus", report)
    # the SAME chart-data object, grown by categories / points, written again ("rolling report" idiom)
    if case["mode"] == "gen" and case.get("grow"):
        import copy as _copy
        cur = _copy.deepcopy(case["data"])
        cd = _LAST_CD[0]
        flat = (cur["kind"] == "category" and cur["categories"] and cur["series"]
                and all(not kids for _lb, kids in cur["categories"]))
        for gi, k in enumerate(case["grow"]):
            if cur["kind"] == "category":
                if not flat:
                    break
                for j in range(k):
                    first = cur["categories"][0][0] if cur["categories"] else "x"
                    import datetime as _dt
                    n = 10 * gi + j
                    if isinstance(first, _dt.datetime):
                        label = _dt.datetime(2031, 1, 1) + _dt.timedelta(days=n)
                    elif isinstance(first, _dt.date):
                        label = _dt.date(2031, 1, 1) + _dt.timedelta(days=n)
                    elif isinstance(first, bool) or not isinstance(first, (int, float)):
                        label = "grown %d.%d" % (gi, j)
                    elif isinstance(first, int):
                        label = 900000 + n
                    else:
                        label = 900000.5 + n
                    cd.add_category(label)
                    cur["categories"].append([label, []])
                    for si, srs in enumerate(cd):
                        v = float(100 * gi + 10 * j + si)
                        srs.add_data_point(v)
                        cur["series"][si]["values"].append(v)
            else:
                if not cur["series"]:
                    break
                si = gi % len(cur["series"])
                for j in range(k):
                    p = [1000.0 * (gi + 1) + j, -(2.5 + j)] + ([j + 1.0] if cur["kind"] == "bubble" else [])
                    cd[si].add_data_point(*p)
                    cur["series"][si]["points"].append(p)
            try:
                with core.sut("C07:replace_data"):
                    chart.replace_data(cd)
            except Violation as v:
                report(v.key, v.message)
                break
            root, recs, idx_ok = _observe(chart, cur, baseline, idx_ok, "replace", report, requested_type=ct)
    if case["mode"] == "gen" and case.get("date1904") and case["replacements"]:
        # the chart as PowerPoint for Mac stores it: dates count from 1904 (c:date1904 is the first child of
        # c:chartSpace); what replace_data writes afterwards must use that date system
        from pptx.oxml import parse_xml
        cs = chart._chartSpace
        if cs.find(C + "date1904") is None:
            cs.insert(0, parse_xml('<c:date1904 xmlns:c="%s" val="1"/>' % C[1:-1]))
        root = etree.fromstring(chart.part.blob)
    for desc in case["replacements"]:
        if case.get("decorate"):
            _decorate(chart, case["decorate"])
            root = etree.fromstring(chart.part.blob)
        n_old = len(x_all_sers(root))
        # a plot proxy obtained BEFORE the replacement (user code holding `plot = chart.plots[0]`)
        held_plot = None
        if n_old:
            try:
                held_plot = chart.plots[0]
            except Exception:
                held_plot = None
        if not _replace(chart, root, desc, report):
            break
        if held_plot is not None:
            _check_held_plot(chart, held_plot, report)
        before = root
        root, recs, idx_ok = _observe(chart, desc, baseline, idx_ok, "replace", report, requested_type=ct)
        d = frame_diff(before, root, len(desc["series"]))
        if d:
            msg, where = d
            where = "/".join(where.split("/")[-2:])      # element + parent: one key per kind of damage
            grow = "grow" if len(desc["series"]) > n_old else "shrink" if len(desc["series"]) < n_old else "same"
            report("C07:replace:frame:%s:at=%s" % (grow, where),
                   "replace_data (%d -> %d series) changed chart content it must leave alone: %s"
                   % (n_old, len(desc["series"]), msg[:300]))
        if case["mode"] == "gen":
            baseline = set()


# ------------------------------------------------------------------ coverage bookkeeping

def _nontrivial_desc(desc):
    ns = len(desc["series"])
    if ns == 0 or ns >= 27:
        return True
    if desc["kind"] == "category":
        if cdm.depth(desc["categories"]) >= 2 or desc["label_kind"] in ("int", "float", "date", "datetime"):
            return True
        return any(v is None for s in desc["series"] for v in s["values"])
    return any(v is None for s in desc["series"] for p in s["points"] for v in p)


def _classes(case):
    out = []
    descs = ([case["data"]] if case["mode"] == "gen" else []) + list(case["replacements"])
    if case["mode"] == "gen":
        out += ["type=" + case["type"], "via=" + case.get("via", "add_chart")]
        counts = [len(case["data"]["series"])]
    else:
        out += ["corpus", "corpus-kind=" + case["kind"]]
        counts = [case["n_series"]]
    out.append("replacements=%d" % len(case["replacements"]))
    for d in case["replacements"]:
        n = len(d["series"])
        out.append("replace:" + ("grow" if n > counts[-1] else "shrink" if n < counts[-1] else "same-count"))
        if counts[-1] == 0:
            out.append("replace:on-seriesless")
        counts.append(n)
    for d in descs:
        sm = cdm.shape_summary(d)
        n = sm["n_series"]
        out.append("series=" + ("0" if n == 0 else "1" if n == 1 else "2-6" if n <= 6 else "7-26" if n <= 26 else "27-50"))
        p = sm["max_points"]
        out.append("points=" + ("0" if p == 0 else "1" if p == 1 else "2-30" if p <= 30 else "31-99" if p < 100 else "100-300"))
        if sm["none"]:
            out.append("has-None")
        if sm["unequal"]:
            out.append("unequal-lengths")
        if d["kind"] == "category":
            out.append("labels=" + d["label_kind"])
            out.append("levels=%d" % cdm.depth(d["categories"]))
            if any(lb == "" for lb in _all_labels(d["categories"])):
                out.append("empty-string-label")
        else:
            out.append("kind=" + d["kind"])
    return out


def _all_labels(forest):
    for lb, kids in forest:
        yield lb
        for x in _all_labels(kids):
            yield x


def _nontrivial(case):
    descs = ([case["data"]] if case["mode"] == "gen" else []) + list(case["replacements"])
    if any(_nontrivial_desc(d) for d in descs):
        return True
    counts = [len(case["data"]["series"])] if case["mode"] == "gen" else [case["n_series"]]
    for d in case["replacements"]:
        if len(d["series"]) != counts[-1]:
            return True
        counts.append(len(d["series"]))
    return False


# ------------------------------------------------------------------ harness interface

N_SHARDS = 2


def jobs(tier):
    thorough = tier == "thorough"
    per = 900 if thorough else 40
    js = []
    for t in cdm.WRITABLE_TYPES:
        for sh in range(N_SHARDS):
            js.append({"kind": "gen", "type": t, "shard": sh, "n": per})
    for kind, n in (("category", 4), ("xy", 2), ("bubble", 2)):
        for sh in range(n):
            js.append({"kind": "corpus", "data_kind": kind, "shard": sh, "n": 600 if thorough else 40})
    # the corpus charts that have more than one plot get cases of their own
    js.append({"kind": "corpus", "data_kind": "category", "shard": 99, "n": 300 if thorough else 30, "multiplot": True})
    js.append({"kind": "types"})
    return js


def _gen_strategy(type_name):
    from hypothesis import strategies as st

    kind = cdm.KIND_OF_TYPE[type_name]
    min_series = 1 if type_name in cdm.PIE_TYPES else 0
    return st.fixed_dictionaries({
        "mode": st.just("gen"),
        "type": st.just(type_name),
        "via": st.sampled_from(["add_chart", "add_chart", "add_chart", "placeholder"]),
        "data": cdm.chart_data(kind, min_series=min_series),
        "replacements": st.lists(cdm.chart_data(kind, min_series=1), min_size=0, max_size=4),
        "decorate": st.sampled_from([0, 0, 1, 3, 5, 9, 15]),
        "grow": st.one_of(st.just([]), st.just([]), st.lists(st.sampled_from([1, 2, 3]), min_size=1, max_size=2)),
        "date1904": st.sampled_from([False, False, True]),
    })


def _corpus_strategy(kind, multiplot=False):
    from hypothesis import strategies as st

    charts = [c for c in corpus_charts() if c[3] == kind and c[4] and c[4][0] in API_PLOT_TAGS
              and (not multiplot or len(c[6]) > 1)]
    if not charts:
        return None
    def repl(c):
        free = st.lists(cdm.chart_data(kind, min_series=1, max_points=120), min_size=1, max_size=3)
        per_plot = c[6]
        if len(per_plot) < 2:
            return free
        # a chart with several plots: half of the time the first replacement has exactly as many series as the
        # first k plots hold (the cut between surplus and surviving series falls on a plot boundary)
        bounds = sorted({sum(per_plot[:k]) for k in range(1, len(per_plot))} | {sum(per_plot), sum(per_plot) + 1})
        def exactly(t):
            n, desc = t
            desc = dict(desc)
            ser = [dict(x) for x in desc["series"]]
            while len(ser) < n:
                extra = dict(ser[len(ser) % max(1, len(desc["series"]))])
                extra["name"] = "%s #%d" % (extra.get("name"), len(ser))
                ser.append(extra)
            desc["series"] = ser[:n]
            return desc

        first = st.tuples(st.sampled_from(bounds), cdm.chart_data(kind, min_series=1, max_points=40)).map(exactly)
        return st.one_of(free, st.tuples(first, st.lists(cdm.chart_data(kind, min_series=1, max_points=60), max_size=2)).map(
            lambda t: [t[0]] + t[1]))

    return st.sampled_from(charts).flatmap(lambda c: st.tuples(st.just(c), repl(c))).map(
        lambda t: {"mode": "corpus", "deck": t[0][0], "slide": t[0][1], "shape": t[0][2], "kind": t[0][3],
                   "n_series": t[0][5], "replacements": t[1], "decorate": [0, 1, 5, 15][(len(t[1]) + t[0][1] + t[0][2]) % 4]})


def run_job(job, seed, tier, rec, known):
    if job["kind"] == "types":
        got = cdm.probe_writable_types()
        rec.extra["writable_types"] = len(got)
        rec.note_enum(1, 0)
        if got != sorted(cdm.WRITABLE_TYPES):
            # a chart type that stopped (or started) being writable on the tree under test: the property quantifies
            # over the 29 writable types, so a missing one is a violation rather than a fault of this harness
            lostt = sorted(set(cdm.WRITABLE_TYPES) - set(got))
            if lostt:
                return [{"key": "C07:chart-type-no-longer-writable", "case": ["types", lostt],
                         "message": "add_chart no longer accepts chart type(s) %r" % (lostt,)}]
            raise core.HarnessError("chart types became writable that the model does not know: %r"
                                    % sorted(set(got) - set(cdm.WRITABLE_TYPES)))
        cc = corpus_charts()
        rec.extra["corpus_charts"] = len(cc)
        rec.extra["corpus_charts_skipped"] = sum(1 for c in cc if c[3] in (None, "mixed") or not c[4]
                                                 or c[4][0] not in API_PLOT_TAGS)
        return []
    if job["kind"] == "gen":
        strat = _gen_strategy(job["type"])
    else:
        strat = _corpus_strategy(job["data_kind"], job.get("multiplot", False))
        if strat is None:
            return []

    def fn(case):
        execute(case, Reporter(rec=rec, known=known))
        rec.note(case, _nontrivial(case), classes=_classes(case))

    return hyp_search(fn, strat, seed=seed, max_examples=job["n"], rec=rec, known=known)


def replay(case):
    if isinstance(case, list) and case and case[0] == "types":
        lostt = sorted(set(cdm.WRITABLE_TYPES) - set(cdm.probe_writable_types()))
        return [{"key": "C07:chart-type-no-longer-writable", "case": ["types", lostt],
                 "message": "add_chart no longer accepts chart type(s) %r" % (lostt,)}] if lostt else []
    r = Reporter(collect=True)
    try:
        execute(case, r)
    except Violation as v:
        r(v.key, v.message)
    jc = core.to_jsonable(case)
    return [{"key": f["key"], "message": f["message"], "case": jc} for f in r.found]
