"""C15 — images are stored once, byte-exact, with the type and size of the actual image.

Generated op sequences (add_picture / placeholder insert_picture / add_movie poster frame /
add_ole_object icon / add_slide / save / save+re-open) over a pool of generated images
(vlib/c15_images.py) are applied to a real Presentation.  At every save point the written zip is
read back with vlib.opcmodel.Pkg (no python-pptx) and compared with a model that only knows the
byte strings that were handed to the library:

  stored-once   the members under ppt/media are exactly: the start deck's members + one member per
                distinct new byte string (+ the movie file); no duplicate zip names
  stored-bytes  every handed-in byte string is a member's content
  ref           the blip of every shape made by an op resolves (slide rels, RT image) to the member
                holding exactly the bytes given to that op; picture.image.blob / movie.poster_frame
                .blob equal the input directly after the op and after every re-open
  type          extension and resolved content type of every *new* member are those of the real
                format (magic number; generator's intent; Pillow's decode must agree)
  native-size   no size given: cx, cy == 914400*px/dpi (+-1) with dpi from an own reader of pHYs /
                JFIF / BMP header / TIFF tags: absent -> 72, value outside [1, 2048] -> 72, a
                fractional value may be used as is or rounded either way
  aspect        one size given: it is kept, the other is native_other*given/native within the
                rounding of the native EMU sizes; both given: both kept
  crop          placeholder picture: srcRect == centred crop to the layout placeholder's aspect
"""
import io
import math
import os
import shutil
import tempfile

from lxml import etree

from vlib import c15_images as IMG
from vlib.core import REPO, HarnessError, Violation, from_jsonable, hyp_search, sut
from vlib.opcmodel import Pkg

PROPERTY = "C15"
LEVEL = "exploration"
EXHAUSTIVE = False
RULE = ("Hypothesis-generated op sequences (1-20 ops: add_picture with no/width/height/both sizes from "
        "path|stream|open file under honest/misleading/missing/upper-case/unrelated file names, "
        "placeholder insert_picture, add_movie poster frame, add_ole_object icon, add_slide, save, "
        "save+re-open) over a pool of 1-5 generated PNG/JPEG/GIF/BMP/TIFF images (1..64 px, several "
        "pixel modes, resolution absent/0/fractional/1/72/300/2048/2049/huge/non-square written by Pillow "
        "or hand-edited pHYs/JFIF/BMP fields) or images already in the start deck; start deck = default "
        "template or one of 6 corpus decks that contain pictures. 'grid' jobs enumerate every pixel size "
        "(quick: 12x12 sizes, thorough: all 64x64) x 5 formats with rotating resolution variants, each "
        "added with no size, width only, height only. A case is non-trivial when the same bytes are "
        "added again after a re-open, or a file name with a misleading extension is used, or an added "
        "image has a resolution outside [1,2048] or non-square resolution; distinct = distinct case hash.")
ASSUMPTIONS = [
    "Pillow's encoders produce valid files of the requested format (the generator is cross-checked by "
    "magic numbers and own header readers; Pillow's decoder is only used as a second opinion)",
    "resolution semantics: PNG pHYs unit 1 = px/m, JFIF units 1 = dpi / 2 = dpcm / 0 = aspect only, "
    "BMP pels per metre, TIFF 6.0 X/YResolution with ResolutionUnit default inch and no default "
    "resolution; anything else counts as 'absent' -> 72 dpi",
    "a fractional resolution may be used exactly, floored or ceiled before the [1,2048] plausibility "
    "test (the property does not say how it is rounded)",
    "placeholder crop is computed on the pixel aspect ratio (DESIGN O); srcRect precision 1/100000",
    "EMF/WMF (the default OLE icons) are outside the quantifier: counted for stored-once only",
    "streams are handed over positioned at offset 0; zero sizes are not passed",
]

MOVIE = os.path.join(REPO, "tests/test_files/dummy.mp4")
XLSX = os.path.join(REPO, "features/steps/test_files/shp-embedded-xlsx.xlsx")
STARTS = ["default",
          "features/steps/test_files/shp-picture.pptx",
          "features/steps/test_files/shp-shapes.pptx",
          "features/steps/test_files/ph-populated-placeholders.pptx",
          "features/steps/test_files/shp-movie-props.pptx",
          "features/steps/test_files/shp-common-props.pptx",
          "tests/test_files/test_slides.pptx",
          "features/steps/test_files/test-image-jpg-mime.pptx"]

NS = {"p": "http://schemas.openxmlformats.org/presentationml/2006/main",
      "a": "http://schemas.openxmlformats.org/drawingml/2006/main",
      "r": "http://schemas.openxmlformats.org/officeDocument/2006/relationships"}
RT_IMAGE = "http://schemas.openxmlformats.org/officeDocument/2006/relationships/image"
RT_SLIDE = "http://schemas.openxmlformats.org/officeDocument/2006/relationships/slide"
RT_LAYOUT = "http://schemas.openxmlformats.org/officeDocument/2006/relationships/slideLayout"
EMU = 914400
_plain = etree.XMLParser(resolve_entities=False)


# --------------------------------------------------------------------------- oracle arithmetic

def eff_dpis(v):
    """acceptable effective dpi values for a stored resolution v (float | None=absent)"""
    if v is None or v != v or v in (float("inf"), float("-inf")):
        return {72.0}
    out = set()
    for c in (math.floor(v), math.ceil(v)):
        out.add(float(c) if 1 <= c <= 2048 else 72.0)
    if 1 <= v <= 2048:
        out.add(float(v))
    return out


def dpi_class1(v):
    if v is None:
        return "absent"
    if v == 0:
        return "zero"
    if v < 0.5:
        return "lt0.5"
    if v < 1:
        return "lt1"
    if v <= 2048:
        return "inrange-frac" if abs(v - round(v)) > 0.05 else "inrange"
    if v < 2049:
        return "2048-2049"
    return "gt2048"


def dpi_class(d):
    if d is None:
        return "absent"
    a, b = dpi_class1(d[0]), dpi_class1(d[1])
    if a == b:
        return a + ("-nonsquare" if abs(d[0] - d[1]) > 0.5 else "")
    return a + "/" + b


def dpi_keyclass(d):
    """coarse class used in finding keys"""
    if d is None:
        return "absent"
    if not (1 <= d[0] <= 2048 and 1 <= d[1] <= 2048):
        return "out-of-range"
    return "nonsquare" if abs(d[0] - d[1]) > 0.5 else "plain"


def dpi_odd(d):
    """NT rule: resolution outside [1,2048] or non-square"""
    if d is None:
        return False
    return not (1 <= d[0] <= 2048 and 1 <= d[1] <= 2048) or abs(d[0] - d[1]) > 0.5


class ImgInfo:
    """what the model knows about one byte string"""

    def __init__(self, blob, params=None):
        self.blob = blob
        self.params = params
        self.fmt = IMG.sniff(blob)          # None for EMF/WMF/others
        self.px = None
        self.dpi = "unknown"
        if params is not None:
            if self.fmt != params["fmt"]:
                raise HarnessError("generator wrote %r for %r" % (self.fmt, params))
            self.px = (int(params["w"]), int(params["h"]))
            own = IMG.own_size(blob)
            if own is not None and tuple(own) != self.px:
                raise HarnessError("generator size mismatch %r %r" % (own, params))
            self.dpi = IMG.own_dpi(blob)
            if self.dpi == "unknown":
                raise HarnessError("own reader cannot tell the resolution of %r" % (params,))

    def native_candidates(self):
        dx = eff_dpis(None if self.dpi is None else self.dpi[0])
        dy = eff_dpis(None if self.dpi is None else self.dpi[1])
        pairs = [(x, y) for x in sorted(dx) for y in sorted(dy)]
        # one axis implausible: the property does not say whether the other axis is still used
        if (72.0, 72.0) not in pairs and self.dpi is not None and not (
                1 <= self.dpi[0] <= 2048 and 1 <= self.dpi[1] <= 2048):
            pairs.append((72.0, 72.0))
        return [(EMU * self.px[0] / x, EMU * self.px[1] / y) for x, y in pairs]


def check_size(info, sizev, gw, gh, cx, cy, where):
    """cx, cy: what the library produced"""
    if info.px is None:
        return
    tag = "%s:dpi=%s" % (info.fmt, dpi_keyclass(info.dpi))
    cands = info.native_candidates()
    if sizev == "none":
        for nw, nh in cands:
            if abs(cx - nw) <= 1.0 and abs(cy - nh) <= 1.0:
                return
        raise Violation("C15:native-size:%s" % tag,
                        "%s: %dx%d px image with stored resolution %r got native size (%r, %r) EMU; "
                        "expected one of %r" % (where, info.px[0], info.px[1], info.dpi, cx, cy,
                                                [(int(a), int(b)) for a, b in cands]))
    if sizev == "both":
        if (cx, cy) != (gw, gh):
            raise Violation("C15:aspect:both-given-not-kept", "%s: given (%r,%r) got (%r,%r)"
                            % (where, gw, gh, cx, cy))
        return
    if sizev == "w":
        if cx != gw:
            raise Violation("C15:aspect:given-width-not-kept", "%s: given width %r got %r" % (where, gw, cx))
        for nw, nh in cands:
            lo = gw * (nh - 1) / (nw + 1) - 1
            hi = gw * (nh + 1) / (nw - 1) + 1
            if lo <= cy <= hi:
                return
        raise Violation("C15:aspect:width-given:%s" % tag,
                        "%s: %dx%d px, resolution %r, width %r given: height %r, expected about %r"
                        % (where, info.px[0], info.px[1], info.dpi, gw, cy,
                           [round(gw * nh / nw) for nw, nh in cands]))
    if sizev == "h":
        if cy != gh:
            raise Violation("C15:aspect:given-height-not-kept", "%s: given height %r got %r" % (where, gh, cy))
        for nw, nh in cands:
            lo = gh * (nw - 1) / (nh + 1) - 1
            hi = gh * (nw + 1) / (nh - 1) + 1
            if lo <= cx <= hi:
                return
        raise Violation("C15:aspect:height-given:%s" % tag,
                        "%s: %dx%d px, resolution %r, height %r given: width %r, expected about %r"
                        % (where, info.px[0], info.px[1], info.dpi, gh, cx,
                           [round(gh * nw / nh) for nw, nh in cands]))


def expected_crop(px, view):
    """-> (l, t, r, b) fractions for a centred crop of a px=(w,h) image filling view=(W,H)"""
    w, h = px
    W, H = view
    if W * h == w * H:
        return (0.0, 0.0, 0.0, 0.0)
    if W * h < w * H:  # image relatively wider than the view: cut left/right
        vis = (W * h) / (w * H)
        c = (1.0 - vis) / 2.0
        return (c, 0.0, c, 0.0)
    vis = (w * H) / (W * h)
    c = (1.0 - vis) / 2.0
    return (0.0, c, 0.0, c)


# --------------------------------------------------------------------------- package reader (no pptx)

def _xml(blob):
    return etree.fromstring(blob, _plain)


def slide_members(pk):
    """slide part names in presentation order"""
    main = [r.resolved for r in pk.rels("/") if r.type.endswith("/officeDocument")][0]
    rels = {r.id: r for r in pk.rels(main)}
    root = _xml(pk.members[main])
    out = []
    for el in root.findall("p:sldIdLst/p:sldId", NS):
        rid = el.get("{%s}id" % NS["r"])
        out.append(rels[rid].resolved)
    return out


def find_shape(sld_root, shape_id):
    tree = sld_root.find("p:cSld/p:spTree", NS)
    hits = []
    for el in tree.iter():
        if not isinstance(el.tag, str):
            continue
        ln = etree.QName(el).localname
        if ln in ("pic", "graphicFrame", "sp"):
            c = el.find("*/p:cNvPr", NS)
            if c is not None and c.get("id") == str(shape_id):
                hits.append(el)
    return hits


def media_members(pk):
    return {n: b for n, b in pk.members.items() if n.startswith("/ppt/media/")}


# --------------------------------------------------------------------------- interpreter

HONEST = {"PNG": "png", "JPEG": "jpg", "GIF": "gif", "BMP": "bmp", "TIFF": "tiff"}
ALT = {"PNG": "PNG", "JPEG": "jpeg", "GIF": "GIF", "BMP": "BMP", "TIFF": "tif"}
MISLEAD = {"PNG": "jpg", "JPEG": "png", "GIF": "bmp", "BMP": "tiff", "TIFF": "gif"}
OTHER = ["txt", "pptx", "emf", "bin", "wmf"]


def file_name(fmt, namev, i):
    """-> (file name, misleading: bool)"""
    namev %= 5
    if fmt not in HONEST:  # start-deck image of another kind
        return ("picture%d" % i, False)
    if namev == 0:
        return ("img%d.%s" % (i, HONEST[fmt]), False)
    if namev == 1:
        return ("img%d.%s" % (i, MISLEAD[fmt]), True)
    if namev == 2:
        return ("img%d" % i, False)
    if namev == 3:
        return ("IMG%d.%s" % (i, ALT[fmt]), False)
    return ("img%d.%s" % (i, OTHER[i % len(OTHER)]), True)


class Run:
    def __init__(self, case):
        from pptx import Presentation

        self.case = case
        self.viol = []          # Violations, first per key
        self._keys = set()
        self.classes = []
        self.tmp = tempfile.mkdtemp(prefix="c15-")
        self.nop = 0
        start = case.get("start", "default")
        if start == "default":
            with sut("C15:open-default"):
                self.prs = Presentation()
            buf = io.BytesIO()
            self.prs.save(buf)
            self.start_media = media_members(Pkg.read(buf.getvalue()))
        elif start.endswith("|arrays"):
            # the deck with its media (and chart / notes / embedding) parts numbered from 2: image1 is free, image2 taken
            from checks.c02 import renamed
            with open(os.path.join(REPO, start[:-7]), "rb") as fh:
                data = fh.read()
            data = renamed(data, "arrays") or data
            self.start_media = media_members(Pkg.read(data))
            with sut("C15:open-start"):
                self.prs = Presentation(io.BytesIO(data))
        else:
            path = os.path.join(REPO, start)
            self.start_media = media_members(Pkg.read(path))
            with sut("C15:open-start"):
                self.prs = Presentation(path)
        self.start_imgs = [self.start_media[n] for n in sorted(self.start_media)
                           if IMG.sniff(self.start_media[n]) is not None]
        # model
        self.infos = {}          # bytes -> ImgInfo (everything handed in)
        self.new_order = []      # distinct new byte strings in order of first addition
        self.movie_added = False
        self.shapes = []         # records
        self.epoch = 0           # number of re-opens so far
        self.first_epoch = {}    # bytes -> epoch of first addition
        self.nt = False
        self.maybe = set()       # bytes handed to a rejected call: may be stored, need not be
        self.pool = []
        for p in case["pool"]:
            if "start" in p:
                if self.start_imgs:
                    b = self.start_imgs[p["start"] % len(self.start_imgs)]
                    self.pool.append(ImgInfo(b, None))
                    continue
                p = {"fmt": "PNG", "w": 2 + p["start"] % 7, "h": 3, "seed": p["start"]}
            self.pool.append(ImgInfo(IMG.make(p), p))

    # ---- bookkeeping
    def fail(self, v):
        if v.key not in self._keys:
            self._keys.add(v.key)
            self.viol.append(v)

    def guard(self, fn, *a):
        try:
            return fn(*a)
        except Violation as v:
            self.fail(v)
            return None

    def close(self):
        shutil.rmtree(self.tmp, ignore_errors=True)

    # ---- handing an image to the library
    def give(self, info, how, namev):
        """-> (argument for the library, closer)"""
        self.nop += 1
        name, mis = file_name(info.fmt, namev, self.nop)
        if how == "stream":
            return io.BytesIO(info.blob), (lambda: None), False
        if how == "stream-reused":
            # one stream object per image, handed to the library again and again (the library rewinds it; it is the
            # caller's object and stays open)
            if not hasattr(self, "_streams"):
                self._streams = {}
            st_ = self._streams.setdefault(info.blob, io.BytesIO(info.blob))
            return st_, (lambda: None), False
        if how == "stream-peeked":
            # the caller looked at the stream first (read the signature, asked an imaging library for the size):
            # the cursor is not at the start; the library rewinds a stream before reading it
            st_ = io.BytesIO(info.blob)
            st_.read([8, 1, len(info.blob) // 2, len(info.blob)][self.nop % 4])
            return st_, (lambda: None), False
        if how == "samepath":
            # the caller re-writes one file (e.g. a plotting library saving to the same temp file) and
            # adds it again: the path is the same, the bytes are not
            path = os.path.join(self.tmp, "figure.png")
            with open(path, "wb") as fh:
                fh.write(info.blob)
            return path, (lambda: None), info.fmt != "PNG"
        d = os.path.join(self.tmp, "op%d" % self.nop)
        os.makedirs(d)
        path = os.path.join(d, name)
        with open(path, "wb") as fh:
            fh.write(info.blob)
        if how == "file":
            fh = open(path, "rb")
            return fh, fh.close, mis
        return path, (lambda: None), mis

    def note_added(self, info, mis):
        b = info.blob
        if b not in self.infos:
            self.infos[b] = info
            self.first_epoch[b] = self.epoch
            if b not in self.start_media.values():
                self.new_order.append(b)
            else:
                self.first_epoch[b] = -1
                self.classes.append("readd-start-image")
        else:
            self.classes.append("dup-add")
            if self.first_epoch[b] < self.epoch:
                self.nt = True
                self.classes.append("dup-add-across-reopen")
        if mis:
            self.nt = True
            self.classes.append("misleading-ext")
        if info.params is not None and dpi_odd(info.dpi):
            self.nt = True
        if info.params is not None:
            self.classes.append("fmt=" + info.fmt)
            self.classes.append("dpi=" + dpi_class(info.dpi))

    def slide(self, i):
        from pptx.util import Emu  # noqa: F401

        slides = self.prs.slides
        if len(slides) == 0:
            with sut("C15:add_slide"):
                slides.add_slide(self.prs.slide_layouts[min(6, len(self.prs.slide_layouts) - 1)])
        n = len(slides)
        return i % n, slides[i % n]

    # ---- ops
    def op_slide(self, layout_i):
        lays = self.prs.slide_layouts
        with sut("C15:add_slide"):
            self.prs.slides.add_slide(lays[layout_i % len(lays)])

    def op_pic(self, img_i, slide_i, how, namev, sizev, gw, gh):
        info = self.pool[img_i % len(self.pool)]
        si, slide = self.slide(slide_i)
        arg, closer, mis = self.give(info, how, namev)
        w = gw if sizev in ("w", "both") else None
        h = gh if sizev in ("h", "both") else None
        try:
            with sut("C15:add_picture"):
                pic = slide.shapes.add_picture(arg, 12700 * (self.nop % 50), 12700 * (self.nop % 37), w, h)
        finally:
            closer()
        self.note_added(info, mis)
        self.classes += ["op=pic", "how=" + how, "size=" + sizev]
        where = "add_picture(%s, size=%s) #%d" % (how, sizev, self.nop)
        with sut("C15:picture-read"):
            cx, cy, sid = pic.width, pic.height, pic.shape_id
            blob = pic.image.blob
            ext, ct = pic.image.ext, pic.image.content_type
        rec = {"kind": "pic", "slide": si, "id": sid, "blob": info.blob, "cx": cx, "cy": cy, "where": where}
        self.shapes.append(rec)
        if blob != info.blob:
            self.fail(Violation("C15:blob:add_picture", "%s: picture.image.blob differs from the input" % where))
        self.guard(check_size, info, sizev, gw, gh, cx, cy, where)
        if info.fmt in IMG.EXTS and info.params is not None:
            if ext not in IMG.EXTS[info.fmt] or ct != IMG.CTYPES[info.fmt]:
                self.fail(Violation("C15:type:image-object:%s" % info.fmt,
                                    "%s: image.ext=%r content_type=%r for a %s" % (where, ext, ct, info.fmt)))

    BAD_ARGS = {"left-none": (None, 0, None, None), "top-none": (0, None, None, None),
                "width-str": (0, 0, "a", None), "height-object": (0, 0, None, object)}

    def op_badpic(self, img_i, slide_i, how, which):
        """an add_picture() call the library rejects (caught by the caller, who carries on): whatever it leaves
        behind, the pictures already there still show their image; the rejected image may or may not be stored"""
        info = self.pool[img_i % len(self.pool)]
        si, slide = self.slide(slide_i)
        arg, closer, _mis = self.give(info, how, 0)
        left, top, w, h = self.BAD_ARGS[which]
        if h is object:
            h = object()
        try:
            try:
                with sut("C15:add_picture", allow=(TypeError, ValueError)):
                    slide.shapes.add_picture(arg, left, top, w, h)
            except (TypeError, ValueError):
                pass
            else:
                # the tree under test accepts it: not this property's business; the picture is unknown to the model
                self.classes.append("badpic-accepted")
        finally:
            closer()
        self.maybe.add(info.blob)
        self.classes += ["op=badpic", "bad=" + which]
        if any(r["blob"] == info.blob and r["slide"] == si for r in self.shapes):
            self.nt = True
            self.classes.append("rejected-add-of-image-shown-on-that-slide")

    def _pic_layouts(self):
        from pptx.enum.shapes import PP_PLACEHOLDER

        out = []
        for i, lay in enumerate(self.prs.slide_layouts):
            if any(p.placeholder_format.type == PP_PLACEHOLDER.PICTURE for p in lay.placeholders):
                out.append(i)
        return out

    def op_ph(self, img_i, slide_i, how, namev):
        from pptx.shapes.placeholder import PicturePlaceholder

        info = self.pool[img_i % len(self.pool)]
        target = None
        n = len(self.prs.slides)
        with sut("C15:find-placeholder"):
            for k in range(n):
                si = (slide_i + k) % n
                for ph in self.prs.slides[si].placeholders:
                    if type(ph) is PicturePlaceholder:
                        target = (si, ph)
                        break
                if target:
                    break
            if target is None:
                lays = self._pic_layouts()
                if not lays:
                    return self.op_pic(img_i, slide_i, how, namev, "none", 0, 0)
                s = self.prs.slides.add_slide(self.prs.slide_layouts[lays[slide_i % len(lays)]])
                si = len(self.prs.slides) - 1
                target = (si, [p for p in s.placeholders if type(p) is PicturePlaceholder][0])
        si, ph = target
        arg, closer, mis = self.give(info, how, namev)
        try:
            with sut("C15:insert_picture"):
                pp = ph.insert_picture(arg)
        finally:
            closer()
        self.note_added(info, mis)
        self.classes += ["op=ph", "how=" + how]
        where = "insert_picture(%s) #%d" % (how, self.nop)
        with sut("C15:placeholder-picture-read"):
            sid = pp.shape_id
            blob = pp.image.blob
            crops = (pp.crop_left, pp.crop_top, pp.crop_right, pp.crop_bottom)
        if blob != info.blob:
            self.fail(Violation("C15:blob:insert_picture", "%s: image.blob differs from the input" % where))
        self.shapes.append({"kind": "ph", "slide": si, "id": sid, "blob": info.blob, "where": where,
                            "px": info.px, "api_crops": crops})

    def op_movie(self, img_i, slide_i, how, namev):
        si, slide = self.slide(slide_i)
        where = "add_movie #%d" % (self.nop + 1)
        if img_i is None:
            from pptx.shapes.shapetree import SPEAKER_IMAGE_BYTES  # data constant, not logic

            info = ImgInfo(SPEAKER_IMAGE_BYTES, None)
            self.nop += 1
            with sut("C15:add_movie"):
                m = slide.shapes.add_movie(MOVIE, 0, 0, 500000, 400000, mime_type="video/mp4")
            self.note_added(info, False)
            self.classes += ["op=movie-default-poster"]
        else:
            info = self.pool[img_i % len(self.pool)]
            arg, closer, mis = self.give(info, how, namev)
            try:
                with sut("C15:add_movie"):
                    m = slide.shapes.add_movie(MOVIE, 0, 0, 500000, 400000, poster_frame_image=arg,
                                               mime_type="video/mp4")
            finally:
                closer()
            self.note_added(info, mis)
            self.classes += ["op=movie", "how=" + how]
        self.movie_added = True
        with sut("C15:movie-read"):
            sid = m.shape_id
            blob = m.poster_frame.blob
        if blob != info.blob:
            self.fail(Violation("C15:blob:add_movie", "%s: poster_frame.blob differs from the input" % where))
        self.shapes.append({"kind": "movie", "slide": si, "id": sid, "blob": info.blob, "where": where})

    def op_ole(self, img_i, slide_i, how, namev):
        from pptx.enum.shapes import PROG_ID

        si, slide = self.slide(slide_i)
        where = "add_ole_object #%d" % (self.nop + 1)
        if img_i is None:
            with open(os.path.join(REPO, "src/pptx/templates/xlsx-icon.emf"), "rb") as fh:
                info = ImgInfo(fh.read(), None)
            self.nop += 1
            with sut("C15:add_ole_object"):
                o = slide.shapes.add_ole_object(XLSX, PROG_ID.XLSX, 0, 0)
            self.note_added(info, False)
            self.classes += ["op=ole-default-icon"]
        else:
            info = self.pool[img_i % len(self.pool)]
            arg, closer, mis = self.give(info, how, namev)
            try:
                with sut("C15:add_ole_object"):
                    o = slide.shapes.add_ole_object(XLSX, PROG_ID.XLSX, 0, 0, icon_file=arg)
            finally:
                closer()
            self.note_added(info, mis)
            self.classes += ["op=ole", "how=" + how]
        with sut("C15:ole-read"):
            sid = o.shape_id
        self.shapes.append({"kind": "ole", "slide": si, "id": sid, "blob": info.blob, "where": where})

    # ---- checkpoints
    def save_bytes(self):
        buf = io.BytesIO()
        with sut("C15:save"):
            self.prs.save(buf)
        return buf.getvalue()

    def checkpoint(self, what, reopen):
        from pptx import Presentation

        data = self.save_bytes()
        self.guard(self.check_package, data, what)
        if reopen:
            with sut("C15:reopen"):
                self.prs = Presentation(io.BytesIO(data))
            self.epoch += 1
            self.guard(self.check_api_after_reopen, what)

    def check_api_after_reopen(self, what):
        by_slide = {}
        for r in self.shapes:
            if r["slide"] not in by_slide:
                with sut("C15:read-after-reopen"):
                    m = {}
                    for s in self.prs.slides[r["slide"]].shapes:
                        m.setdefault(s.shape_id, []).append(s)
                by_slide[r["slide"]] = m
            hit = by_slide[r["slide"]].get(r["id"], [])
            if len(hit) != 1:
                raise Violation("C15:ref:shape-lost-after-reopen",
                                "%s: %d shapes with id %r on slide %d after %s" % (r["where"], len(hit), r["id"], r["slide"], what))
            s = hit[0]
            if r["kind"] in ("pic", "ph"):
                with sut("C15:read-after-reopen"):
                    blob = s.image.blob
                if blob != r["blob"]:
                    self.fail(Violation("C15:blob:after-reopen:%s" % r["kind"],
                                        "%s: image.blob after %s differs from the input" % (r["where"], what)))
                if r["kind"] == "pic":
                    with sut("C15:read-after-reopen"):
                        sz = (s.width, s.height)
                    if sz != (r["cx"], r["cy"]):
                        self.fail(Violation("C15:native-size:changed-by-reopen",
                                            "%s: size %r became %r" % (r["where"], (r["cx"], r["cy"]), sz)))
            elif r["kind"] == "movie":
                with sut("C15:read-after-reopen"):
                    blob = s.poster_frame.blob
                if blob != r["blob"]:
                    self.fail(Violation("C15:blob:after-reopen:movie",
                                        "%s: poster_frame.blob after %s differs from the input" % (r["where"], what)))

    def check_package(self, data, what):
        pk = Pkg.read(data)
        if pk.dups:
            self.fail(Violation("C15:stored-once:duplicate-zip-member", "%s: members %r written twice" % (what, pk.dups)))
        media = media_members(pk)
        movie_bytes = None
        if self.movie_added or any(IMG.sniff(b) is None for b in self.start_media.values()):
            with open(MOVIE, "rb") as fh:
                movie_bytes = fh.read()
        # -- expected content of ppt/media
        exp_new = list(self.new_order)
        by_bytes = {}
        for n in sorted(media):
            by_bytes.setdefault(media[n], []).append(n)
        # the start deck's media bytes are still there (under whatever name)
        for n, b in sorted(self.start_media.items()):
            nstart = sum(1 for x in self.start_media.values() if x == b)
            if len(by_bytes.get(b, [])) < nstart:
                self.fail(Violation("C15:stored-bytes:start-member-lost", "%s: the bytes of %s of the start "
                                    "deck are no longer stored (members %r)" % (what, n, sorted(media))))
        for b in exp_new:
            names = by_bytes.get(b, [])
            info = self.infos[b]
            desc = "%s %r" % (info.fmt, info.params) if info.params else (info.fmt or "default icon")
            if not names:
                self.fail(Violation("C15:stored-bytes:missing",
                                    "%s: no member of ppt/media holds the bytes of %s (members %r)"
                                    % (what, desc, sorted(media))))
            elif len(names) > 1:
                self.fail(Violation("C15:stored-once:same-bytes-stored-twice",
                                    "%s: %s is stored %d times: %r (added in session %d, now in session %d)"
                                    % (what, desc, len(names), names, self.first_epoch[b], self.epoch)))
        for b in self.infos:
            if b in self.start_media.values():
                names = by_bytes.get(b, [])
                nstart = sum(1 for x in self.start_media.values() if x == b)
                if len(names) > nstart:
                    self.fail(Violation("C15:stored-once:start-image-stored-again",
                                        "%s: an image of the start deck was added again and is now stored as %r"
                                        % (what, names)))
        known = set(exp_new) | set(self.start_media.values()) | self.maybe
        for b in self.maybe:
            if len(by_bytes.get(b, [])) > 1 and b not in self.start_media.values():
                self.fail(Violation("C15:stored-once:same-bytes-stored-twice",
                                    "%s: an image handed to a rejected add_picture() is stored %d times: %r"
                                    % (what, len(by_bytes[b]), by_bytes[b])))
        if movie_bytes is not None:
            known.add(movie_bytes)
        for n in sorted(media):
            if media[n] not in known:
                self.fail(Violation("C15:stored-bytes:unexpected-member",
                                    "%s: %s (%d bytes, %s) holds bytes that were never added"
                                    % (what, n, len(media[n]), IMG.sniff(media[n]))))
        # -- type of new members
        for b in exp_new:
            info = self.infos[b]
            if info.params is None or info.fmt not in IMG.EXTS:
                continue
            for n in by_bytes.get(b, []):
                ext = n.rsplit("/", 1)[-1].rsplit(".", 1)[-1] if "." in n.rsplit("/", 1)[-1] else ""
                if ext not in IMG.EXTS[info.fmt]:
                    self.fail(Violation("C15:type:ext:%s" % info.fmt,
                                        "%s: a %s image is stored as %s" % (what, info.fmt, n)))
                ct = pk.ctype(n)
                if ct != IMG.CTYPES[info.fmt]:
                    self.fail(Violation("C15:type:content-type:%s" % info.fmt,
                                        "%s: %s (a %s image) has content type %r" % (what, n, info.fmt, ct)))
        # -- every shape shows its image
        slides = slide_members(pk)
        roots = {}
        for r in self.shapes:
            if r["slide"] >= len(slides):
                self.fail(Violation("C15:ref:slide-missing", "%s: slide %d not in package" % (what, r["slide"])))
                continue
            sn = slides[r["slide"]]
            if sn not in roots:
                roots[sn] = (_xml(pk.members[sn]), {x.id: x for x in pk.rels(sn)})
            root, rels = roots[sn]
            hits = find_shape(root, r["id"])
            if not hits:
                self.fail(Violation("C15:ref:shape-missing:%s" % r["kind"], "%s: %s: no element with id %r in %s"
                                    % (what, r["where"], r["id"], sn)))
                continue
            if len(hits) > 1:   # duplicate shape ids are C06's subject; cannot tell which one is ours
                self.classes.append("ref-unchecked-duplicate-id")
                continue
            el = hits[0]
            blip = el.find(".//a:blip", NS)
            rid = None if blip is None else blip.get("{%s}embed" % NS["r"])
            rel = rels.get(rid)
            if rel is None or rel.type != RT_IMAGE or rel.mode != "Internal" or rel.resolved not in pk.members:
                self.fail(Violation("C15:ref:no-image-relationship:%s" % r["kind"],
                                    "%s: %s: blip %r of shape %r does not resolve to an image part" % (what, r["where"], rid, r["id"])))
                continue
            if pk.members[rel.resolved] != r["blob"]:
                self.fail(Violation("C15:ref:wrong-bytes:%s" % r["kind"],
                                    "%s: %s: shape %r shows %s whose bytes differ from the input"
                                    % (what, r["where"], r["id"], rel.resolved)))
            if r["kind"] == "pic":
                ext = el.find("p:spPr/a:xfrm/a:ext", NS)
                got = None if ext is None else (int(ext.get("cx")), int(ext.get("cy")))
                if got != (r["cx"], r["cy"]):
                    self.fail(Violation("C15:native-size:xml-differs-from-api",
                                        "%s: %s: a:ext %r, picture.width/height (%r, %r)" % (what, r["where"], got, r["cx"], r["cy"])))
            if r["kind"] == "ph" and r["px"] is not None:
                self.guard(self.check_crop, pk, sn, rels, el, r, what)

    def check_crop(self, pk, sn, rels, el, r, what):
        ph = el.find("p:nvPicPr/p:nvPr/p:ph", NS)
        if ph is None:
            raise Violation("C15:crop:not-a-placeholder", "%s: %s: no p:ph in the picture" % (what, r["where"]))
        idx = ph.get("idx", "0")
        lay = [x.resolved for x in rels.values() if x.type == RT_LAYOUT]
        view = None
        if lay and lay[0] in pk.members:
            lroot = _xml(pk.members[lay[0]])
            for sp in lroot.iterfind("p:cSld/p:spTree/p:sp", NS):
                lph = sp.find("p:nvSpPr/p:nvPr/p:ph", NS)
                if lph is not None and lph.get("idx", "0") == idx:
                    e = sp.find("p:spPr/a:xfrm/a:ext", NS)
                    if e is not None:
                        view = (int(e.get("cx")), int(e.get("cy")))
        if view is None or el.find("p:spPr/a:xfrm", NS) is not None:
            self.classes.append("crop-unchecked")
            return
        src = el.find("p:blipFill/a:srcRect", NS)
        got = tuple((int(src.get(k, "0")) if src is not None else 0) / 100000.0 for k in ("l", "t", "r", "b"))
        exp = expected_crop(r["px"], view)
        kind = "none" if exp == (0.0, 0.0, 0.0, 0.0) else ("left-right" if exp[0] else "top-bottom")
        self.classes.append("crop=" + kind)
        for g, e2, a in zip(got, exp, r["api_crops"]):
            if abs(g - e2) > 1.001e-5 or abs(a - e2) > 1.001e-5 or not (0.0 <= g < 1.0):
                raise Violation("C15:crop:%s" % kind,
                                "%s: %s: %dx%d px image in a %dx%d placeholder: srcRect l,t,r,b = %r (API %r), "
                                "expected %r" % (what, r["where"], r["px"][0], r["px"][1], view[0], view[1], got,
                                                 tuple(r["api_crops"]), exp))

    # ---- driver
    def run(self):
        ops = self.case["ops"]
        nsave = 0
        for op in ops:
            k = op[0]
            if k == "slide":
                self.op_slide(op[1])
                self.classes.append("op=slide")
            elif k == "pic":
                self.op_pic(*op[1:])
            elif k == "badpic":
                self.op_badpic(*op[1:])
            elif k == "ph":
                self.op_ph(*op[1:])
            elif k == "movie":
                self.op_movie(*op[1:])
            elif k == "ole":
                self.op_ole(*op[1:])
            elif k == "save":
                nsave += 1
                self.classes.append("op=save")
                self.checkpoint("save #%d" % nsave, reopen=False)
            elif k == "reopen":
                nsave += 1
                self.classes.append("op=reopen")
                self.checkpoint("save+reopen #%d" % nsave, reopen=True)
            else:
                raise HarnessError("unknown op %r" % (op,))
        self.checkpoint("final save", reopen=True)


def run_case(case):
    """-> (list of Violations (first per key, in order of discovery), nontrivial, classes)"""
    r = Run(case)
    try:
        try:
            r.run()
        except Violation as v:   # from core.sut: the sequence cannot continue
            r.fail(v)
        return r.viol, r.nt, r.classes + ["start=" + os.path.basename(case.get("start", "default"))]
    finally:
        r.close()


def check_case(case):
    viol, _nt, _cls = run_case(case)
    if viol:
        raise viol[0]


# --------------------------------------------------------------------------- generation

DPI_V = [0, 0.4, 0.5, 1, 72, 96, 96.5, 150, 300, 2047, 2048, 2048.4, 2049, 1e6]
PPM_V = [0, 1, 19, 20, 39, 40, 2835, 3780, 11811, 5905, 80630, 80631, 80650, 80670, 4294967295]
JD_V = [0, 1, 72, 96, 300, 150, 806, 807, 2048, 2049, 65535]


def dpi_variants(fmt):
    """curated resolution variants per format (used by the grid; the strategies add random ones)"""
    out = [["none"]]
    if fmt == "GIF":
        return out
    for x in DPI_V:
        out.append(["pil", x, x])
    out += [["pil", 300, 150], ["pil", 72, 2049], ["pil", 0, 96], ["pil", 96.5, 200.25], ["pil", 2048, 1]]
    if fmt == "PNG":
        for x in PPM_V:
            out.append(["phys", x, x, 1])
        out += [["phys", 11811, 5905, 1], ["phys", 3, 4, 0], ["phys", 2835, 2835, 0], ["phys", 80670, 39, 1],
                ["phys", 0, 2835, 1]]
    if fmt == "JPEG":
        for x in JD_V:
            out.append(["jfif", 1, x, x])
        out += [["jfif", 2, 118, 118], ["jfif", 2, 65535, 1], ["jfif", 0, 300, 300], ["jfif", 0, 1, 1],
                ["jfif", 1, 300, 150], ["jfif", 2, 28, 806], ["jfif", 3, 300, 300], ["nojfif"]]
    if fmt == "BMP":
        for x in PPM_V[:-1] + [2147483647]:
            out.append(["bmpppm", x, x])
        out += [["bmpppm", 11811, 5905], ["bmpppm", 2147483647, 1]]
    if fmt == "TIFF":
        out += [["tiffcm", 118.11, 118.11], ["tiffcm", 28.35, 50], ["tiffcm", 0, 0], ["tiffcm", 1000, 0.3],
                ["tiffnounit", 300, 300], ["tiffnounit", 1, 2]]
    return out


def strategies():
    from hypothesis import strategies as st

    dim = st.one_of(st.integers(1, 64), st.sampled_from([1, 2, 3, 63, 64]))
    dv = st.one_of(st.sampled_from(DPI_V), st.integers(1, 3000),
                   st.floats(0.1, 5000, allow_nan=False).map(lambda f: round(f, 3)))
    ppm = st.one_of(st.sampled_from(PPM_V), st.integers(0, 120000))
    jd = st.one_of(st.sampled_from(JD_V), st.integers(0, 65535))

    def pair(s):
        return st.one_of(s.map(lambda x: (x, x)), st.tuples(s, s))

    def dpi_for(fmt):
        alts = [st.just(["none"]), st.sampled_from(dpi_variants(fmt))]
        if fmt != "GIF":
            alts.append(pair(dv).map(lambda p: ["pil", p[0], p[1]]))
        if fmt == "PNG":
            alts.append(st.tuples(pair(ppm), st.sampled_from([1, 1, 1, 0])).map(
                lambda t: ["phys", t[0][0], t[0][1], t[1]]))
        if fmt == "JPEG":
            alts.append(st.tuples(st.sampled_from([1, 1, 2, 0]), pair(jd)).map(
                lambda t: ["jfif", t[0], t[1][0], t[1][1]]))
        if fmt == "BMP":
            alts.append(pair(ppm).map(lambda p: ["bmpppm", min(p[0], 2147483647), min(p[1], 2147483647)]))
        if fmt == "TIFF":
            alts.append(st.tuples(st.sampled_from(["tiffcm", "tiffnounit"]), pair(dv)).map(
                lambda t: [t[0], t[1][0], t[1][1]]))
        return st.one_of(*alts)

    def img_for(fmt):
        return st.fixed_dictionaries({
            "fmt": st.just(fmt), "w": dim, "h": dim, "mode": st.sampled_from(IMG.MODES[fmt]),
            "seed": st.integers(0, 2), "dpi": dpi_for(fmt)})

    img = st.one_of(st.sampled_from(IMG.FORMATS).flatmap(img_for),
                    st.sampled_from(IMG.FORMATS).flatmap(img_for),
                    st.sampled_from(IMG.FORMATS).flatmap(img_for),
                    st.fixed_dictionaries({"start": st.integers(0, 3)}))
    how = st.sampled_from(["path", "stream", "file", "samepath", "samepath", "stream-peeked", "stream-reused",
                           "stream-reused"])
    namev = st.integers(0, 4)
    emu = st.one_of(st.sampled_from([1, 2, 7, 12700, 914400, 1000000, 9144000, 51206400]),
                    st.integers(1, 20000000))
    img_i = st.integers(0, 4)
    slide_i = st.integers(0, 5)
    op = st.one_of(
        st.tuples(st.just("pic"), img_i, slide_i, how, namev, st.sampled_from(["none", "none", "w", "h", "both"]), emu, emu),
        st.tuples(st.just("pic"), img_i, slide_i, how, namev, st.sampled_from(["none", "w", "h"]), emu, emu),
        st.tuples(st.just("ph"), img_i, slide_i, how, namev),
        st.tuples(st.just("badpic"), img_i, slide_i, how,
                  st.sampled_from(["left-none", "top-none", "width-str", "height-object"])),
        st.tuples(st.just("movie"), st.one_of(img_i, img_i, img_i, st.none()), slide_i, how, namev),
        st.tuples(st.just("ole"), st.one_of(img_i, img_i, img_i, st.none()), slide_i, how, namev),
        st.tuples(st.just("slide"), st.sampled_from([6, 8, 8, 1, 0, 5, 3])),
        st.tuples(st.just("save")),
        st.tuples(st.just("reopen")),
        st.tuples(st.just("reopen")),
    )
    case = st.fixed_dictionaries({
        "start": st.sampled_from(["default"] * 6 + STARTS[1:] + [STARTS[1] + "|arrays", STARTS[3] + "|arrays",
                                                                 STARTS[5] + "|arrays"]),
        "pool": st.lists(img, min_size=1, max_size=5),
        "ops": st.lists(op, min_size=1, max_size=20),
    })
    return case


# ---- grid

QUICK_DIMS = [1, 2, 3, 4, 5, 7, 8, 15, 16, 33, 63, 64]


def grid_cases(tier, shard, nshard):
    dims = list(range(1, 65)) if tier == "thorough" else QUICK_DIMS
    cases = []
    k = 0
    batch = []
    for fmt in IMG.FORMATS:
        variants = dpi_variants(fmt)
        modes = IMG.MODES[fmt]
        for w in dims:
            for h in dims:
                k += 1
                batch.append({"fmt": fmt, "w": w, "h": h, "mode": modes[k % len(modes)], "seed": k % 5,
                              "dpi": variants[k % len(variants)]})
                if len(batch) == 5:
                    cases.append(batch)
                    batch = []
        if batch:
            cases.append(batch)
            batch = []
    out = []
    for i, pool in enumerate(cases):
        if i % nshard != shard:
            continue
        ops = []
        for j in range(len(pool)):
            how = ["stream", "path", "file"][(i + j) % 3]
            ops.append(["pic", j, 0, how, (i + j) % 5, "none", 0, 0])
            ops.append(["pic", j, j % 2, "stream", 0, "w", [914400, 1, 9144000, 123457][(i + j) % 4], 0])
            ops.append(["pic", j, 0, "stream", 0, "h", 0, [1000000, 3, 20000000, 77777][(i + j) % 4]])
            if (i + j) % 7 == 0:
                ops.append(["reopen"])
        out.append({"start": "default", "pool": pool, "ops": ops})
    return out


# --------------------------------------------------------------------------- harness interface

NGRID = 8


def jobs(tier):
    n = 1200 if tier == "thorough" else 130
    js = [{"kind": "seq", "shard": i, "n": n} for i in range(32)]
    js += [{"kind": "grid", "shard": i, "nshard": NGRID} for i in range(NGRID)]
    js.append({"kind": "variants"})
    # decks holding many distinct images (two-digit image part numbers: image10 sorts before image2 as text)
    js += [{"kind": "many", "shard": i, "n": 60 if tier == "thorough" else 5} for i in range(8)]
    return js


def _make_fn(rec, known, skip):
    def fn(case):
        viol, nt, classes = run_case(case)
        rec.note(case, nt, classes=classes)
        first = None
        for v in viol:
            if v.key in known:
                rec.known[v.key] += 1
            elif v.key not in skip and first is None:
                first = v
        if first is not None:
            raise first
    return fn


def run_job(job, seed, tier, rec, known):
    kind = job["kind"]
    if kind == "seq":
        strat = strategies()
        fails = []
        skip = set()
        for rnd in range(3):
            f = hyp_search(_make_fn(rec, known, skip), strat, seed=seed * 7 + rnd,
                           max_examples=job["n"] if rnd == 0 else max(10, job["n"] // 3),
                           rec=rec, known={}, max_rounds=1, shrink_budget=60)
            if not f:
                break
            for x in f:
                # every other unknown key the shrunk case shows is reported with it (same round)
                viol, _nt, _cls = run_case(from_jsonable(x["case"]))
                for v in viol:
                    if v.key not in known and v.key not in skip:
                        skip.add(v.key)
                        fails.append({"key": v.key, "message": v.message, "case": x["case"]})
                if x["key"] not in skip:
                    skip.add(x["key"])
                    fails.append(x)
        return fails
    if kind == "many":
        from hypothesis import strategies as st
        base = strategies()
        # reuse the image and op strategies of the sequence search through the case strategy itself
        def widen(cs):
            pool = []
            seen = set()
            for c in cs:
                for p in c["pool"]:
                    k = repr(sorted(p.items()))
                    if "start" not in p and k not in seen:
                        seen.add(k)
                        pool.append(p)
            pool = pool[:16]
            ops = [["pic", j, j % 3, ["stream", "path", "file"][j % 3], j % 5, "none", 0, 0] for j in range(len(pool))]
            extra = [o for c in cs for o in c["ops"] if o[0] in ("pic", "reopen", "save", "slide")][:8]
            mid = len(ops) // 2
            return {"start": "default", "pool": pool or cs[0]["pool"], "ops": ops[:mid] + extra[:3] + ops[mid:] + extra[3:]}
        strat = st.lists(base, min_size=5, max_size=8).map(widen)
        return hyp_search(_make_fn(rec, known, set()), strat, seed=seed, max_examples=job["n"], rec=rec, known={},
                          max_rounds=2, shrink_budget=30)
    if kind == "grid":
        cases = grid_cases(tier, job["shard"], job["nshard"])
        return _plain_all(cases, rec, known)
    if kind == "variants":
        # every curated resolution variant of every format once, at a non-square size
        cases = []
        for fmt in IMG.FORMATS:
            vs = dpi_variants(fmt)
            for i in range(0, len(vs), 5):
                pool = [{"fmt": fmt, "w": 7 + (i + j) % 3, "h": 3 + j, "seed": j, "dpi": v,
                         "mode": IMG.MODES[fmt][(i + j) % len(IMG.MODES[fmt])]}
                        for j, v in enumerate(vs[i:i + 5])]
                ops = []
                for j in range(len(pool)):
                    ops += [["pic", j, 0, "path", 1, "none", 0, 0], ["pic", j, 0, "stream", 0, "w", 914400, 0],
                            ["pic", j, 1, "file", 3, "h", 0, 914400]]
                ops += [["reopen"]] + [["pic", j, 1, "stream", 0, "none", 0, 0] for j in range(len(pool))]
                cases.append({"start": "default", "pool": pool, "ops": ops})
        return _plain_all(cases, rec, known)
    raise ValueError(kind)


def _plain_all(cases, rec, known):
    """run_plain, but collecting every unknown key of a case (not only the first)"""
    fails = {}
    for case in cases:
        viol, nt, classes = run_case(case)
        rec.note(case, nt, classes=classes)
        for v in viol:
            if v.key in known:
                rec.known[v.key] += 1
            elif v.key not in fails:
                fails[v.key] = {"key": v.key, "message": v.message, "case": case}
    return list(fails.values())


def replay(case):
    if isinstance(case, dict) and "ops" in case:
        case = dict(case)
        case["ops"] = [list(o) for o in case["ops"]]
        viol, _nt, _cls = run_case(case)
        return [{"key": v.key, "message": v.message, "case": case} for v in viol]
    raise ValueError("not a C15 case")
