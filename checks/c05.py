"""C05 - caller-supplied strings are stored as data, never interpreted as markup.

A table of *string sinks* (entry points of the public API that store a caller string in an XML part):
each sink is a function that builds a fresh deck, performs the call with the string `s` and names the
readers paired with the setter. Oracle per case (sink, variant, s):
  (i)   the call returns;
  (ii)  every reader returns the expected string at once and after save + re-open;
  (iii) structure differential: the tag / attribute-name skeleton of every XML part of the saved package
        equals the skeleton produced by the same call with the benign string "x" (and the part-name
        sets are equal);
  (iv)  every saved XML part parses with a plain lxml parser.
A failing case is attributed to an input class by re-execution with all other classes neutralised
(markup characters -> 'm', CR -> 'r', TAB/LF -> 'w'), giving the finding keys
  C05:sink=<sink>:amp|lt|quot|gt|apos   that markup character alone makes the case fail
  C05:sink=<sink>:cr       carriage return alone makes it fail
  C05:sink=<sink>:ws       TAB / LF alone makes it fail (attribute-value normalisation)
  C05:sink=<sink>:combo    only a combination of classes fails
  C05:sink=<sink>:blank    a blank-only string fails
  C05:sink=<sink>:other    it still fails with all of these neutralised
"""
import hashlib
import io
import json
import os
import shutil
import tempfile
import zipfile

from lxml import etree

from vlib import c05_text as T
from vlib import core
from vlib.core import HarnessError, Violation, collect, hyp_search, run_plain

PROPERTY = "C05"
LEVEL = "exploration"
EXHAUSTIVE = False
RULE = ("20 string sinks (`sinks` in evidence) x 373 variants (shape kind / placeholder kind / chart type x add_chart "
        "vs replace_data x series index / category depth 1-4 x level / date vs numeric categories ...); every sink "
        "gets 192 (quick) / 4800 (thorough) strings spread over 32 shards, at least 4 / 30 per variant. Hypothesis "
        "draws non-empty strings over the XML Char production, token-built and biased to & < > \" ' , attribute "
        "breakers, element/comment/CDATA/PI fragments, entity look-alikes, %/{} format directives, CR/LF/TAB, "
        "blank edges; the empty string is run once per variant of the 11 sinks where it is a value like any other; "
        "shards use 1, 2 or 3 tokens at least; file-name sinks get real files with the generated "
        "base name (no '/'). Every case runs on a fresh deck: call, readers, save, plain-lxml parse of every XML "
        "member, re-open, readers, skeleton comparison with the benign twin ('x'). Non-trivial: the string holds "
        "at least one of & < > \" ' or CR; distinct by (sink, variant, string); a string repeated by Hypothesis "
        "within one (sink, variant) search is executed once (`discarded` counts the repeats). Plus the "
        "enumeration of all MSO_SHAPE members through add_shape (library base names with markup characters "
        "substituted into the p:sp template).")
ASSUMPTIONS = [
    "strings are non-empty (the empty string is a documented 'remove' value at several sinks) and at most "
    "255 code points (core properties) / 200 UTF-8 bytes (file names)",
    "file names never contain '/' or NUL (file system); movie files keep a '.mp4' suffix because the media "
    "part extension is taken from the file name",
    "the embedded Excel workbook written by xlsxwriter is not inspected (a series name starting with '=' "
    "becomes a formula there; not an XML-markup matter)",
    "readers with no public API (picture description, c:formatCode text) are read from the element tree",
]

NS = {
    "p": "http://schemas.openxmlformats.org/presentationml/2006/main",
    "a": "http://schemas.openxmlformats.org/drawingml/2006/main",
    "c": "http://schemas.openxmlformats.org/drawingml/2006/chart",
    "r": "http://schemas.openxmlformats.org/officeDocument/2006/relationships",
}

def xp(el, expr):
    """plain lxml XPath with prefixes (pptx element classes override .xpath())"""
    return etree.XPath(expr, namespaces=NS)(el)


# ------------------------------------------------------------------ environment (temp files)

class Env:
    def __init__(self):
        self.root = tempfile.mkdtemp(prefix="c05-")
        self.n = 0
        self._png = None
        self._jpg = None

    def close(self):
        shutil.rmtree(self.root, ignore_errors=True)

    def reset(self):
        for d in os.listdir(self.root):
            shutil.rmtree(os.path.join(self.root, d), ignore_errors=True)

    def file(self, basename, data):
        self.n += 1
        d = os.path.join(self.root, "d%d" % self.n)
        os.mkdir(d)
        path = os.path.join(d, basename)
        with open(path, "wb") as f:
            f.write(data)
        return path

    def _salt(self, basename):
        return hashlib.sha1(basename.encode("utf-8", "surrogatepass")).digest()

    def image(self, basename, kind="png"):
        """real image file named `basename`; bytes vary with the name (no image de-duplication)."""
        if kind == "png":
            if self._png is None:
                from PIL import Image

                b = io.BytesIO()
                Image.new("RGB", (8, 6), (200, 30, 30)).save(b, "PNG")
                self._png = b.getvalue()
            data = self._png + self._salt(basename)  # trailing bytes after IEND
        else:
            if self._jpg is None:
                self._jpg = open(os.path.join(core.REPO, "tests/test_files/python-icon.jpeg"), "rb").read()
            data = self._jpg + self._salt(basename)  # trailing bytes after EOI
        return self.file(basename, data)

    def movie(self, basename):
        return self.file(basename, b"\x00\x00\x00\x18ftypmp42" + self._salt(basename))


def _xlsx_bytes():
    return open(os.path.join(core.REPO, "features/steps/test_files/shp-embedded-xlsx.xlsx"), "rb").read()


# ------------------------------------------------------------------ sink table

SINKS = {}


class Sink:
    def __init__(self, name, fn, variants, fname, max_len):
        self.name, self.fn, self.variants, self.fname, self.max_len = name, fn, variants, fname, max_len


def sink(name, variants=(None,), fname=False, max_len=80):
    def deco(fn):
        SINKS[name] = Sink(name, fn, list(variants), fname, max_len)
        return fn
    return deco


def _prs(layout=6):
    from pptx import Presentation

    prs = Presentation()
    slide = prs.slides.add_slide(prs.slide_layouts[layout])
    return prs, slide


def _ph_deck(kind):
    from pptx import Presentation

    prs = Presentation(os.path.join(core.REPO, "features/steps/test_files/ph-unpopulated-placeholders.pptx"))
    idx = {"chart": 3, "table": 4, "picture": 8, "clipart": 7}[kind]
    return prs, prs.slides[idx], idx


def _cat_data(names=("S1", "S2"), cats=("c1", "c2", "c3"), number_format="General", ser_nf=None):
    from pptx.chart.data import CategoryChartData

    cd = CategoryChartData(number_format=number_format)
    cd.categories = list(cats)
    for i, n in enumerate(names):
        cd.add_series(n, [1.5 + i, 2.5, 3.5][: len(cats)], number_format=ser_nf if i == 0 else None)
    return cd


def _xy_data(kind, names=("S1", "S2"), number_format="General", ser_nf=None):
    from pptx.chart.data import BubbleChartData, XyChartData

    cd = (BubbleChartData if kind == "bubble" else XyChartData)(number_format=number_format)
    for i, n in enumerate(names):
        ser = cd.add_series(n, number_format=ser_nf if i == 0 else None)
        for j in range(2):
            if kind == "bubble":
                ser.add_data_point(1.0 + j, 2.0 + i, 3.0)
            else:
                ser.add_data_point(1.0 + j, 2.0 + i)
    return cd


CAT_TYPES = ["BAR_CLUSTERED", "COLUMN_STACKED", "BAR_STACKED_100", "COLUMN_CLUSTERED", "LINE", "LINE_MARKERS_STACKED",
             "LINE_STACKED_100", "PIE", "PIE_EXPLODED", "AREA", "AREA_STACKED_100", "AREA_STACKED",
             "DOUGHNUT", "DOUGHNUT_EXPLODED", "RADAR", "RADAR_FILLED", "RADAR_MARKERS"]
XY_TYPES = ["XY_SCATTER", "XY_SCATTER_LINES", "XY_SCATTER_SMOOTH_NO_MARKERS", "BUBBLE", "BUBBLE_THREE_D_EFFECT"]
DATE_AX_TYPES = ["BAR_CLUSTERED", "COLUMN_CLUSTERED", "LINE", "LINE_MARKERS", "AREA", "AREA_STACKED",
                 "PIE", "RADAR", "DOUGHNUT"]


def _ct(name):
    from pptx.enum.chart import XL_CHART_TYPE

    return getattr(XL_CHART_TYPE, name)


def _data_for(t, **kw):
    if t.startswith("BUBBLE"):
        return _xy_data("bubble", **{k: v for k, v in kw.items() if k != "cats"})
    if t.startswith("XY_"):
        return _xy_data("xy", **{k: v for k, v in kw.items() if k != "cats"})
    return _cat_data(**kw)


def _chart0(prs):
    for sh in prs.slides[0].shapes:
        if getattr(sh, "has_chart", False) and sh.has_chart:
            return sh.chart
    raise HarnessError("no chart on slide 0")


def _descr(shape):
    v = xp(shape._element, "./p:nvPicPr/p:cNvPr/@descr")
    return v[0] if v else None


# ---- names set through the property (lxml attribute assignment)

@sink("shape.name", variants=["autoshape", "textbox", "picture", "connector", "group", "freeform", "table", "chart",
                              "ole", "movie", "placeholder", "group-child"])
def _shape_name(env, v, s):
    from pptx.enum.shapes import MSO_CONNECTOR, MSO_SHAPE

    prs, slide = _prs(0 if v == "placeholder" else 6)
    sp = slide.shapes
    if v == "autoshape":
        sh = sp.add_shape(MSO_SHAPE.RECTANGLE, 0, 0, 100, 100)
    elif v == "textbox":
        sh = sp.add_textbox(0, 0, 100, 100)
    elif v == "picture":
        sh = sp.add_picture(env.image("p.png"), 0, 0)
    elif v == "connector":
        sh = sp.add_connector(MSO_CONNECTOR.STRAIGHT, 0, 0, 10, 10)
    elif v == "group":
        sh = sp.add_group_shape()
    elif v == "group-child":
        sh = sp.add_group_shape().shapes.add_textbox(0, 0, 10, 10)
    elif v == "freeform":
        fb = sp.build_freeform(0, 0)
        fb.add_line_segments([(10, 10), (20, 0)])
        sh = fb.convert_to_shape()
    elif v == "table":
        sh = sp.add_table(2, 2, 0, 0, 1000, 1000)
    elif v == "chart":
        sh = sp.add_chart(_ct("PIE"), 0, 0, 1000, 1000, _cat_data())
    elif v == "ole":
        sh = sp.add_ole_object(io.BytesIO(_xlsx_bytes()), "Excel.Sheet.12", 0, 0, 1000, 1000)
    elif v == "movie":
        sh = sp.add_movie(env.movie("m.mp4"), 0, 0, 1000, 1000, mime_type="video/mp4")
    else:
        sh = slide.shapes[0]
    sh.name = s
    if v == "group-child":
        return prs, [("name", lambda p: p.slides[0].shapes[0].shapes[0].name, s)]
    return prs, [("name", lambda p: p.slides[0].shapes[0].name, s)]


@sink("slide.name", variants=["slide", "layout", "master", "notes"])
def _slide_name(env, v, s):
    prs, slide = _prs()
    get = {
        "slide": lambda p: p.slides[0],
        "layout": lambda p: p.slide_layouts[6],
        "master": lambda p: p.slide_master,
        "notes": lambda p: p.slides[0].notes_slide,
    }[v]
    get(prs).name = s
    return prs, [("name", lambda p: get(p).name, s)]


# ---- file names

@sink("new_pic.descr", variants=[["slide", ".png"], ["slide", ".jpg"], ["slide", ""], ["group", ".png"]], fname=True)
def _pic_descr(env, v, s):
    where, suffix = v
    prs, slide = _prs()
    path = env.image(s + suffix, "jpg" if suffix == ".jpg" else "png")
    if where == "group":
        slide.shapes.add_group_shape().shapes.add_picture(path, 0, 0)
        get = lambda p: p.slides[0].shapes[0].shapes[0]
    else:
        slide.shapes.add_picture(path, 0, 0)
        get = lambda p: p.slides[0].shapes[0]
    return prs, [("descr", lambda p: _descr(get(p)), s + suffix)]


@sink("new_ph_pic.descr", variants=["picture", "clipart"], fname=True)
def _ph_pic_descr(env, v, s):
    prs, slide, idx = _ph_deck(v)
    slide.shapes[0].insert_picture(env.image(s + ".png"))
    return prs, [("descr", lambda p: _descr(p.slides[idx].shapes[0]), s + ".png")]


@sink("new_ph_pic.name", variants=["picture", "clipart"])
def _ph_pic_name(env, v, s):
    prs, slide, idx = _ph_deck(v)
    ph = slide.shapes[0]
    ph.name = s
    ph.insert_picture(env.image("pic.png"))
    return prs, [("name", lambda p: p.slides[idx].shapes[0].name, s),
                 ("descr", lambda p: _descr(p.slides[idx].shapes[0]), "pic.png")]


@sink("new_graphicFrame.name", variants=["table", "chart"])
def _ph_gf_name(env, v, s):
    prs, slide, idx = _ph_deck(v)
    ph = slide.shapes[0]
    ph.name = s
    if v == "table":
        ph.insert_table(2, 2)
    else:
        ph.insert_chart(_ct("PIE"), _cat_data())
    return prs, [("name", lambda p: p.slides[idx].shapes[0].name, s)]


@sink("new_video_pic.name", variants=["default-poster", "poster"], fname=True)
def _movie_name(env, v, s):
    prs, slide = _prs()
    poster = env.image("poster.png") if v == "poster" else None
    # the media part takes its extension from the file name: a stem of dots only ("..mp4") has none
    fn = (s if s.strip(".") else "v" + s) + ".mp4"
    slide.shapes.add_movie(env.movie(fn), 0, 0, 1000, 1000, poster_frame_image=poster, mime_type="video/mp4")
    return prs, [("name", lambda p: p.slides[0].shapes[0].name, fn)]


@sink("add_movie.poster_file", variants=[".png", ".jpg"], fname=True)
def _movie_poster(env, v, s):
    prs, slide = _prs()
    poster = env.image(s + v, "jpg" if v == ".jpg" else "png")
    slide.shapes.add_movie(env.movie("m.mp4"), 0, 0, 1000, 1000, poster_frame_image=poster, mime_type="video/mp4")
    return prs, [("name", lambda p: p.slides[0].shapes[0].name, "m.mp4")]


@sink("add_ole_object.icon_file", variants=[".png"], fname=True)
def _ole_icon(env, v, s):
    prs, slide = _prs()
    slide.shapes.add_ole_object(io.BytesIO(_xlsx_bytes()), "Excel.Sheet.12", 0, 0, 1000, 1000,
                                icon_file=env.image(s + v))
    return prs, [("prog_id", lambda p: p.slides[0].shapes[0].ole_format.prog_id, "Excel.Sheet.12")]


@sink("oleObj.progId", variants=["default-icon", "icon", "object-path"])
def _ole_progid(env, v, s):
    prs, slide = _prs()
    icon = env.image("icon.png") if v == "icon" else None
    obj = env.file("book.xlsx", _xlsx_bytes()) if v == "object-path" else io.BytesIO(_xlsx_bytes())
    slide.shapes.add_ole_object(obj, s, 0, 0, 1000, 1000, icon_file=icon)
    return prs, [("prog_id", lambda p: p.slides[0].shapes[0].ole_format.prog_id, s)]


# ---- hyperlinks

@sink("hyperlink.address", variants=["shape", "picture", "run", "run-replace", "run-shared", "run-shared-clear", "reuse-after-free"],
      max_len=120)
def _hlink(env, v, s):
    from pptx.enum.shapes import MSO_SHAPE

    prs, slide = _prs()
    if v == "shape":
        sh = slide.shapes.add_shape(MSO_SHAPE.RECTANGLE, 0, 0, 100, 100)
        sh.click_action.hyperlink.address = s
        return prs, [("address", lambda p: p.slides[0].shapes[0].click_action.hyperlink.address, s)]
    if v == "picture":
        sh = slide.shapes.add_picture(env.image("p.png"), 0, 0)
        sh.click_action.hyperlink.address = s
        return prs, [("address", lambda p: p.slides[0].shapes[0].click_action.hyperlink.address, s)]
    if v == "reuse-after-free":
        # the address is given to one shape, replaced there (its relationship is released), another relationship is
        # added (it may take the freed id), and then the same address is given to a second shape
        a = slide.shapes.add_shape(MSO_SHAPE.RECTANGLE, 0, 0, 100, 100)
        b = slide.shapes.add_shape(MSO_SHAPE.RECTANGLE, 0, 200, 100, 100)
        a.click_action.hyperlink.address = s
        a.click_action.hyperlink.address = "http://other.example/"
        slide.shapes.add_picture(env.image("p.png"), 0, 400)
        b.click_action.hyperlink.address = s
        return prs, [("address", lambda p: p.slides[0].shapes[1].click_action.hyperlink.address, s),
                     ("other-address", lambda p: p.slides[0].shapes[0].click_action.hyperlink.address,
                      "http://other.example/")]
    tb = slide.shapes.add_textbox(0, 0, 100, 100)
    if v in ("run-shared", "run-shared-clear"):
        # two runs link to the same address (one shared relationship); one of them is then changed or cleared
        # and another relationship is added: the untouched run must still read the caller's string
        p = tb.text_frame.paragraphs[0]
        r0, r1 = p.add_run(), p.add_run()
        r0.text, r1.text = "first", "second"
        r0.hyperlink.address = s
        r1.hyperlink.address = s
        r1.hyperlink.address = "http://other.example/" if v == "run-shared" else None
        slide.shapes.add_picture(env.image("p.png"), 0, 0)
        rd = [("address", lambda p_: p_.slides[0].shapes[0].text_frame.paragraphs[0].runs[0].hyperlink.address, s)]
        if v == "run-shared":
            rd.append(("other-address",
                       lambda p_: p_.slides[0].shapes[0].text_frame.paragraphs[0].runs[1].hyperlink.address,
                       "http://other.example/"))
        return prs, rd
    r = tb.text_frame.paragraphs[0].add_run()
    r.text = "link"
    if v == "run-replace":
        r.hyperlink.address = "http://example.com/"
    r.hyperlink.address = s
    return prs, [("address",
                  lambda p: p.slides[0].shapes[0].text_frame.paragraphs[0].runs[0].hyperlink.address, s)]


# ---- fonts

@sink("font.name", variants=["run", "paragraph", "textframe", "chart", "tick_labels", "legend", "data_labels"])
def _font_name(env, v, s):
    prs, slide = _prs()
    if v in ("run", "paragraph", "textframe"):
        tb = slide.shapes.add_textbox(0, 0, 100, 100)
        r = tb.text_frame.paragraphs[0].add_run()
        r.text = "t"
        get = {
            "run": lambda p: p.slides[0].shapes[0].text_frame.paragraphs[0].runs[0].font,
            "paragraph": lambda p: p.slides[0].shapes[0].text_frame.paragraphs[0].font,
            "textframe": lambda p: p.slides[0].shapes[0].text_frame.paragraphs[0].font,
        }[v]
    else:
        ch = slide.shapes.add_chart(_ct("BAR_CLUSTERED"), 0, 0, 1000, 1000, _cat_data()).chart
        if v == "legend":
            ch.has_legend = True
        if v == "data_labels":
            ch.plots[0].has_data_labels = True
        get = {
            "chart": lambda p: _chart0(p).font,
            "tick_labels": lambda p: _chart0(p).category_axis.tick_labels.font,
            "legend": lambda p: _chart0(p).legend.font,
            "data_labels": lambda p: _chart0(p).plots[0].data_labels.font,
        }[v]
    get(prs).name = s
    return prs, [("font.name", lambda p: get(p).name, s)]


# ---- core properties

CORE_PROPS = ["author", "category", "comments", "content_status", "identifier", "keywords", "language",
              "last_modified_by", "subject", "title", "version"]


@sink("core_properties", variants=CORE_PROPS, max_len=255)
def _core(env, v, s):
    prs, slide = _prs()
    setattr(prs.core_properties, v, s)
    return prs, [(v, lambda p: getattr(p.core_properties, v), s)]


# ---- media content type

@sink("add_movie.mime_type", variants=[None])
def _mime(env, v, s):
    prs, slide = _prs()
    slide.shapes.add_movie(env.movie("m.mp4"), 0, 0, 1000, 1000, mime_type=s)

    def rd(p):
        pic = p.slides[0].shapes[0]
        return pic.part.related_part(xp(pic._element, ".//a:videoFile/@r:link")[0]).content_type

    return prs, [("content_type", rd, s)]


# ---- charts

def _add_chart(slide, t, data):
    return slide.shapes.add_chart(_ct(t), 0, 0, 1000, 1000, data).chart


@sink("series.name", variants=[[t, m, k] for t in CAT_TYPES + XY_TYPES for m in ("add", "replace") for k in (0, 1)
                               # (a new pie chart stores its first series only)
                               if not (t.startswith("PIE") and m == "add" and k == 1)]
      # the 12th of 13 series (two-digit c:idx / c:order)
      + [[t, m, 11] for t in [x for x in CAT_TYPES if not x.startswith("PIE")][::4] + XY_TYPES[:1]
         for m in ("add", "replace")])
def _ser_name(env, v, s):
    t, mode, k = v
    prs, slide = _prs()
    names = ["S1", "S2"] if k < 2 else ["S%d" % (i + 1) for i in range(13)]
    names[k] = s
    if mode == "add":
        _add_chart(slide, t, _data_for(t, names=names))
    else:
        ch = _add_chart(slide, t, _data_for(t))
        ch.replace_data(_data_for(t, names=names))
    exp = [s] if t.startswith("PIE") and mode == "add" else names
    return prs, [("series names", lambda p: [x.name for x in _chart0(p).plots[0].series], exp)]


def _tree_data(depth, level, s):
    """Category tree of `depth` levels, two branches per node at the top, one below; `s` is the label of the
    first node at `level` (1 = leaf level). -> chart data, expected levels (leaf level first)"""
    from pptx.chart.data import CategoryChartData

    cd = CategoryChartData()
    exp = [[] for _ in range(depth)]
    counter = [0]

    def lab(lv):
        counter[0] += 1
        if lv == level and not exp[lv - 1]:
            return s
        return "L%d-%d" % (lv, counter[0])

    def grow(node, lv):
        # children of `node` are at level lv
        n = 2 if lv == depth - 1 or lv == 1 else 1
        for _ in range(n):
            l = lab(lv)
            exp[lv - 1].append(l)
            child = node.add_sub_category(l)
            if lv > 1:
                grow(child, lv - 1)

    for _ in range(2):
        l = lab(depth)
        exp[depth - 1].append(l)
        top = cd.add_category(l)
        if depth > 1:
            grow(top, depth - 1)
    nleaf = len(exp[0])
    cd.add_series("S1", [float(i) for i in range(nleaf)])
    return cd, exp


CAT_LABEL_TYPES = ["BAR_CLUSTERED", "LINE", "PIE", "AREA", "DOUGHNUT", "RADAR", "COLUMN_STACKED"]


@sink("category.label", variants=[[t, m, d, l] for t in CAT_LABEL_TYPES for m in ("add", "replace")
                                  for d in (1, 2, 3, 4) for l in range(1, d + 1)])
def _cat_label(env, v, s):
    t, mode, depth, level = v
    prs, slide = _prs()
    data, exp = _tree_data(depth, level, s)
    if mode == "add":
        _add_chart(slide, t, data)
    else:
        ch = _add_chart(slide, t, _cat_data())
        ch.replace_data(data)

    def levels(p):
        cats = _chart0(p).plots[0].categories
        if depth == 1:
            return [[str(c) for c in cats]]
        return [[str(c) for c in lvl] for lvl in cats.levels]

    def labels(p):
        return [c.label for c in _chart0(p).plots[0].categories]

    return prs, [("levels", levels, exp), ("leaf labels", labels, exp[0])]


def _format_codes(p, under):
    return [e.text or "" for e in xp(_chart0(p)._chartSpace, "//c:ser/%s//c:formatCode" % under)]


@sink("chart_data.number_format", variants=[[t, m, w] for t in CAT_TYPES[::2] + XY_TYPES[::2]
                                             for m in ("add", "replace") for w in ("chart_data", "series")])
def _cd_nf(env, v, s):
    t, mode, where = v
    prs, slide = _prs()
    kw = {"number_format": s} if where == "chart_data" else {"ser_nf": s}
    if mode == "add":
        _add_chart(slide, t, _data_for(t, **kw))
    else:
        ch = _add_chart(slide, t, _data_for(t))
        ch.replace_data(_data_for(t, **kw))
    if t.startswith("BUBBLE"):
        unders = ["c:xVal", "c:yVal", "c:bubbleSize"]
    elif t.startswith("XY_"):
        unders = ["c:xVal", "c:yVal"]
    else:
        unders = ["c:val"]
    # which of the caches carry the chart-level and which the series-level format is C07's matter: here the list
    # of format codes must be the benign twin's list with the benign string replaced by s
    rds = [("all formatCodes", lambda p: [_format_codes(p, u) for u in unders], FROM_TWIN)]
    return prs, rds


@sink("categories.number_format", variants=[[t, m, k] for t in DATE_AX_TYPES for m in ("add", "replace")
                                             for k in ("date", "number")])
def _cats_nf(env, v, s):
    import datetime as dt

    t, mode, kind = v
    prs, slide = _prs()
    cats = [dt.date(2020, 1, 1), dt.date(2020, 2, 1), dt.date(2020, 3, 1)] if kind == "date" else [1.0, 2.0, 3.0]
    data = _cat_data(cats=cats)
    data.categories.number_format = s
    if mode == "add":
        _add_chart(slide, t, data)
    else:
        ch = _add_chart(slide, t, _cat_data(cats=[dt.date(2019, 1, 1), dt.date(2019, 2, 1), dt.date(2019, 3, 1)]
                                             if kind == "date" else [7.0, 8.0, 9.0]))
        ch.replace_data(data)
    rds = [("c:cat formatCode", lambda p: _format_codes(p, "c:cat"), FROM_TWIN)]
    if mode == "add" and kind == "date" and xp(_chart0(prs)._chartSpace, "//c:dateAx"):
        rds.append(("dateAx tick_labels.number_format",
                    lambda p: _chart0(p).category_axis.tick_labels.number_format, s))
    return prs, rds


@sink("tick_labels.number_format", variants=["category_axis", "value_axis", "xy-category", "date_axis"])
def _tick_nf(env, v, s):
    import datetime as dt

    prs, slide = _prs()
    if v == "xy-category":
        _add_chart(slide, "XY_SCATTER", _xy_data("xy"))
    elif v == "date_axis":
        _add_chart(slide, "LINE", _cat_data(cats=[dt.date(2020, 1, 1), dt.date(2020, 2, 1), dt.date(2020, 3, 1)]))
    else:
        _add_chart(slide, "BAR_CLUSTERED", _cat_data())
    get = (lambda p: _chart0(p).value_axis.tick_labels) if v == "value_axis" else (
        lambda p: _chart0(p).category_axis.tick_labels)
    get(prs).number_format = s
    return prs, [("number_format", lambda p: get(p).number_format, s)]


@sink("data_labels.number_format", variants=["plot", "series"])
def _dl_nf(env, v, s):
    prs, slide = _prs()
    ch = _add_chart(slide, "BAR_CLUSTERED", _cat_data())
    if v == "plot":
        ch.plots[0].has_data_labels = True
    get = (lambda p: _chart0(p).plots[0].data_labels) if v == "plot" else (
        lambda p: list(_chart0(p).plots[0].series)[0].data_labels)
    get(prs).number_format = s
    return prs, [("number_format", lambda p: get(p).number_format, s)]


# ------------------------------------------------------------------ oracle

class _Fail(Exception):
    def __init__(self, clause, msg):
        super().__init__(msg)
        self.clause, self.msg = clause, msg


def _skel(el, out):
    if not isinstance(el.tag, str):  # comment / PI in a part: structure change as well
        out.append("<!%s>" % type(el).__name__)
        return
    out.append("<")
    out.append(el.tag)
    for a in sorted(el.attrib):
        out.append(" @")
        out.append(a)
    out.append(">")
    for ch in el:
        _skel(ch, out)
    out.append("</>")


def _is_xml_member(name):
    return name.endswith(".xml") or name.endswith(".rels") or name.endswith(".vml")


def _package_skeleton(blob):
    """-> {member: skeleton str | None for binary members}; raises _Fail('parse') on an unparsable XML member."""
    out = {}
    with zipfile.ZipFile(io.BytesIO(blob)) as z:
        for name in z.namelist():
            if not _is_xml_member(name):
                out[name] = None
                continue
            data = z.read(name)
            try:
                root = etree.fromstring(data, etree.XMLParser(resolve_entities=False, no_network=True))
            except etree.XMLSyntaxError as e:
                raise _Fail("parse", "saved part %s does not parse: %s" % (name, str(e)[:150]))
            acc = []
            _skel(root, acc)
            out[name] = "".join(acc)
    return out


def _guard(clause, fn, *a):
    """run library code; an exception raised inside python-pptx -> _Fail(clause)."""
    try:
        return fn(*a)
    except (_Fail, HarnessError):
        raise
    except Exception as e:
        where, frame = core.origin_of(e)
        if where == "sut":
            raise _Fail(clause, "%s: %s (in %s)" % (type(e).__name__, str(e)[:200], frame)) from e
        raise


def _save(prs):
    b = io.BytesIO()
    prs.save(b)
    return b.getvalue()


FROM_TWIN = object()  # expected value = what the benign twin reads, with "x" replaced by the string


def _subst(v, s):
    if isinstance(v, list):
        return [_subst(x, s) for x in v]
    return s if v == "x" else v


def _execute(sk, variant, s, env, twin_reads=None):
    """All four clauses except the twin comparison; -> (package skeleton, {label: value read}). Raises _Fail."""
    from pptx import Presentation

    prs, readers = _guard("call-raises", sk.fn, env, variant, s)
    reads = {}
    exps = {}
    for label, rd, exp in readers:
        got = _guard("reader-raises", rd, prs)
        if exp is FROM_TWIN:
            reads[label] = got
            exp = got if twin_reads is None else _subst(twin_reads[label], s)
        exps[label] = exp
        if got != exp:
            raise _Fail("reader", "%s reads %r right after the call, expected %r" % (label, got, exp))
    blob = _guard("save-raises", _save, prs)
    skel = _package_skeleton(blob)
    prs2 = _guard("reopen-raises", Presentation, io.BytesIO(blob))
    for label, rd, exp in readers:
        got = _guard("reader-raises-after-reopen", rd, prs2)
        if got != exps[label]:
            raise _Fail("reader-after-reopen", "%s reads %r after save and re-open, expected %r"
                        % (label, got, exps[label]))
    return skel, reads


_TWIN = {}


def _twin(sk, variant, env):
    k = (sk.name, json.dumps(variant))
    if k not in _TWIN:
        try:
            _TWIN[k] = _execute(sk, variant, "x", env)
        except _Fail as f:
            # "x" is a string of the domain like any other: failing with it is a violation, not a harness fault
            raise Violation("C05:sink=%s:benign" % sk.name,
                            "[%s] variant=%r s='x': %s" % (f.clause, variant, f.msg))
        for label, v in _TWIN[k][1].items():
            if "x" not in (v if isinstance(v, list) else [v]) and not any(
                    isinstance(e, list) and "x" in e for e in (v if isinstance(v, list) else [])):
                raise HarnessError("sink %s variant %r: reader %s does not see the benign string (%r)"
                                   % (sk.name, variant, label, v))
    return _TWIN[k]


def _evaluate(sk, variant, s, env):
    """-> None when all clauses hold, else (clause, message)."""
    twin, twin_reads = _twin(sk, variant, env)
    try:
        skel, _ = _execute(sk, variant, s, env, twin_reads)
    except _Fail as f:
        return f.clause, f.msg
    finally:
        env.reset()
    if set(skel) != set(twin):
        return "structure", "package members differ from the benign twin: %r" % (
            sorted(set(skel) ^ set(twin))[:6],)
    for name in sorted(skel):
        a, b = skel[name], twin[name]
        if a != b:
            i = 0
            while i < min(len(a), len(b)) and a[i] == b[i]:
                i += 1
            return "structure", "skeleton of %s differs from the benign twin at offset %d: ...%s | twin ...%s" % (
                name, i, a[max(0, i - 60): i + 80], b[max(0, i - 60): i + 80])
    return None


_CLASSES = [("amp", "&", "m"), ("lt", "<", "m"), ("quot", '"', "m"), ("gt", ">", "m"), ("apos", "'", "m"),
            ("cr", "\r", "r"), ("ws", "\t\n", "w")]


def _neutralise(s, keep=None):
    """s with every input class except `keep` replaced by a harmless letter."""
    for name, chars, repl in _CLASSES:
        if name != keep:
            for c in chars:
                s = s.replace(c, repl)
    return s


# sinks for which the empty string is a value like any other (for names of files, slide names and hyperlink
# addresses the empty string means "none" and is outside the domain)
EMPTY_OK = {"shape.name", "oleObj.progId", "font.name", "core_properties", "series.name", "category.label",
            "tick_labels.number_format", "data_labels.number_format", "chart_data.number_format",
            "categories.number_format", "add_movie.mime_type"}


def check_case(case, env=None):
    """case = [sink name, variant, s]"""
    name, variant, s = case
    sk = SINKS[name]
    own = env is None
    if own:
        env = Env()
    try:
        if not (s == "" and name in EMPTY_OK) and not T.in_domain(s, fname=sk.fname, max_len=sk.max_len):
            return  # shrinker / hand-edited replay outside the domain
        bad = _evaluate(sk, variant, s, env)
        if bad is None:
            return
        clause, msg = bad
        # attribution by re-execution: which single input class makes the case fail on its own?
        cause = None
        base = _neutralise(s)
        if base != s and _evaluate(sk, variant, base, env) is not None:
            cause = "blank" if base.strip(" ") == "" else "other"
        elif base == s:
            cause = "blank" if s.strip(" ") == "" else "other"
        else:
            for cname, chars, _ in _CLASSES:
                if not any(c in s for c in chars):
                    continue
                only = _neutralise(s, keep=cname)
                if only == s or _evaluate(sk, variant, only, env) is not None:
                    cause = cname
                    break
            if cause is None:
                cause = "combo"
        raise Violation("C05:sink=%s:%s" % (name, cause),
                        "[%s] variant=%r s=%r: %s" % (clause, variant, s, msg))
    finally:
        if own:
            env.close()


# ---- add_shape base names (template substitution of a library string that contains markup characters)

def check_basename(member_name, env=None):
    from pptx.enum.shapes import MSO_SHAPE
    from pptx.spec import autoshape_types

    m = getattr(MSO_SHAPE, member_name)
    raw = autoshape_types[m]["basename"]
    prs, slide = _prs()
    try:
        sh = slide.shapes.add_shape(m, 0, 0, 100, 100)
    except Exception as e:
        where, frame = core.origin_of(e)
        if where == "sut":
            raise Violation("C05:sink=add_shape.basename", "add_shape(%s) raised %r" % (member_name, e))
        raise
    exp = "%s %d" % (raw, sh.shape_id - 1)
    if sh.name != exp:
        raise Violation("C05:sink=add_shape.basename", "add_shape(%s).name is %r, expected %r (base name %r)"
                        % (member_name, sh.name, exp, raw))
    skel = _package_skeleton(_save(prs))
    key = ("add_shape", "twin")
    if key not in _TWIN:
        p2, s2 = _prs()
        s2.shapes.add_shape(MSO_SHAPE.RECTANGLE, 0, 0, 100, 100)
        _TWIN[key] = _package_skeleton(_save(p2))
    a, b = skel["ppt/slides/slide1.xml"], _TWIN[key]["ppt/slides/slide1.xml"]
    # adjustment lists differ between shape types: compare only up to p:spPr
    cut = "<{%s}spPr" % NS["p"]
    if a[: a.index(cut)] != b[: b.index(cut)]:
        raise Violation("C05:sink=add_shape.basename", "add_shape(%s): non-visual structure differs" % member_name)


# ------------------------------------------------------------------ jobs

NSHARD = 32
PER_SINK = {"quick": 192, "thorough": 4800}   # strings per sink over all shards (design B: 16x12 / 16x300)
PER_VARIANT = {"quick": 4, "thorough": 30}    # and at least this many per variant of a sink


def _assignment(sk, shard, tier):
    """-> [(variant index, number of strings)] handled by this shard for this sink."""
    nv = len(sk.variants)
    if nv >= NSHARD:
        mine = list(range(shard, nv, NSHARD))
    else:
        mine = [shard % nv]
    total = max(PER_SINK[tier], PER_VARIANT[tier] * nv)
    per_shard = -(-total // NSHARD)
    n = max(2, -(-per_shard // len(mine)))
    return [(vi, n) for vi in mine]


def jobs(tier):
    js = [{"kind": "sinks", "shard": i} for i in range(NSHARD)]
    js.append({"kind": "basenames"})
    js += [{"kind": "empty", "shard": i} for i in range(8)]
    return js


def run_job(job, seed, tier, rec, known):
    if job["kind"] == "empty":
        # the empty string on every sink where it is a value like any other
        env = Env()
        try:
            cases = [[n, v, ""] for n in sorted(EMPTY_OK) for v in SINKS[n].variants][job["shard"]::8]
            f = run_plain(lambda c: check_case(c, env), cases, rec=rec, known=known)
            rec.note_enum(len(cases), len(cases), sample=cases[0])
            rec.cls("empty-string-cases")
        finally:
            env.close()
        return f
    if job["kind"] == "basenames":
        from pptx.enum.shapes import MSO_SHAPE
        from pptx.spec import autoshape_types

        names = sorted(m.name for m in MSO_SHAPE)
        f = run_plain(check_basename, names, rec=rec, known=known)
        for x in f:
            x["case"] = ["add_shape.basename", None, x["case"]]
        nt = [n for n in names if T.has_markup(autoshape_types[getattr(MSO_SHAPE, n)]["basename"])]
        rec.note_enum(len(names), len(nt), sample=["add_shape.basename", None, nt[0] if nt else names[0]])
        rec.cls("sink:add_shape.basename")
        return f
    env = Env()
    fails = []
    try:
        shard = job["shard"]
        for si, sk in enumerate(SINKS.values()):
            # shards draw from differently shaped strategies (1, 2 or 3 tokens at least) for diversity
            strat = T.markup_text(sk.max_len, sk.fname, min_tokens=1 + shard % 3)
            for vi, n in _assignment(sk, shard, tier):
                variant = sk.variants[vi]

                seen = set()

                def fn(s, sk=sk, variant=variant, seen=seen):
                    if s in seen and not fn.failing:
                        rec.discarded += 1  # Hypothesis repeats short strings: executed once per (sink, variant)
                        return
                    seen.add(s)
                    rec.note([sk.name, variant, s], T.nontrivial(s), classes=T.classes_of(s) + ["sink:" + sk.name])
                    try:
                        check_case([sk.name, variant, s], env)
                    except Violation as v:
                        if v.key not in known:
                            fn.failing = True  # from here on the shrinker must see consistent results
                        raise

                fn.failing = False

                f = hyp_search(fn, strat, seed=seed * 101 + si * 7919 + vi, max_examples=n, rec=rec, known=known,
                               shrink_budget=60)
                for x in f:
                    x["case"] = [sk.name, variant, x["case"]]
                fails += f
        rec.extra["sinks"] = sorted(SINKS)
        if shard == 0:
            rec.extra["sink_variants"] = sum(len(sk.variants) for sk in SINKS.values())
    finally:
        env.close()
    return fails


def replay(case):
    if case[0] == "add_shape.basename":
        return collect(check_basename, case[2])
    return collect(check_case, list(case))
