"""C09 - a property reads back as set, survives save/re-open; None restores inheritance.

Table-driven: vlib/c09_table.py holds the object kinds (locators) and one row per public read/write
property (domain, out-of-domain values, equivalence, None semantics, couplings).  This module is the
engine: a case is an object locator + a sequence of 1-8 assignments + save/re-open points.

Oracle after each assignment (independent of the library: arithmetic on the assigned value, and
comparison of *readings* taken through the public getters before/after):
  in-domain     getter == value under the row's equivalence (exact, 1 EMU, 1/100 pt, 1/60000 degree
                modulo 360, 1/100000); documented couplings hold (rgb -> type RGB ...); every other
                reading of the object that the docs do not couple to the property is unchanged
  None          (where documented) getter reports the documented inherited reading and the explicit
                attribute / element is gone from the XML
  out-of-domain TypeError or ValueError, and every reading of the object is unchanged
  re-open       every reading of the object is the same on the saved and re-opened presentation
"""
import io
import math
import os

from vlib import core
from vlib.core import Violation, collect, hyp_search
from vlib import c09_table as T

PROPERTY = "C09"
LEVEL = "exploration"
EXHAUSTIVE = False
RULE = ("table-driven (vlib/c09_table.py): %d object kinds (locators) x their read/write properties; "
        "a case = one object (fresh, built through the API on the default template, or the first "
        "matching object of a corpus deck) + 1-8 assignments (row, value) + save/re-open points "
        "(object re-resolved on the re-opened deck by slide index / shape id / structural path). "
        "Values per row: interior, boundary (domain ends, documented defaults), quantum-adjacent "
        "(k*q +- q/2 for q = 1/100 pt, 1/60000 deg, 1/100000), documented None, out-of-domain "
        "(beyond the range, wrong type, XML-less enum members). Every row is the first assignment "
        "of its own batch of cases; later assignments pick any row of the same object. Companion cases: a "
        "second object on the same shape / chart (31 documented-independent pairs, e.g. fill colour and line colour, "
        "chart and axis, plot and point label) is prepared and given non-default settings first; preparing and "
        "assigning to the object under test, saves and re-opens must leave all its readings alone. Non-trivial: "
        "some value is boundary / quantum-adjacent / out-of-domain / None, or >=2 different "
        "properties are assigned, or the case re-opens. Distinct by hash of the whole case.")
ASSUMPTIONS = [
    "domains are those of the docstrings, completed by the schema simple type the setter validates "
    "against (ST_Coordinate, ST_TextFontSize ...); values the docs neither admit nor exclude (None for "
    "text-frame margins is generated as out-of-domain because it raises; None for line width, "
    "MSO_AUTO_SIZE.MIXED, legend offsets beyond +-1, negative cell margins / row heights) are not generated",
    "independence is asserted between readings of one object that the docs do not couple; documented "
    "couplings are modelled (rgb -> type RGB and brightness reset from a theme colour, theme_color -> "
    "type SCHEME, number_format -> number_format_is_linked False, crosses/crosses_at, row height -> "
    "frame height, connector end points vs bounding box left out)",
    "'all getters unchanged after a rejected assignment' is the design's reading of the property text "
    "(keys ...:rejected-changes-state); rotation and gradient_angle are compared modulo 360",
    "enum members sharing an XML token with another member (C20 findings) are outside the domain",
    "strings are drawn from letters, digits, punctuation, symbols and spaces (control characters and "
    "surrogates belong to C05)",
    "explicit-setting probes for None look at the stored XML through the proxy's element (private attribute)",
]


# ------------------------------------------------------------------------------------ value helpers

def norm(v):
    """reading -> JSON-like comparable value"""
    import enum

    from pptx.dml.color import RGBColor

    if v is None or isinstance(v, (bool, str)):
        return v
    if isinstance(v, enum.Enum):
        return T.E(type(v).__name__, v.name)
    if isinstance(v, RGBColor):
        return T.RGB(str(v))
    if isinstance(v, int):
        return int(v)
    if isinstance(v, float):
        return v
    if isinstance(v, (list, tuple)):
        return [norm(x) for x in v]
    return {"t": "repr", "v": repr(v)[:80]}


def same(a, b):
    """equality of two normalized readings; bool-ness must agree (True != 1)"""
    if isinstance(a, bool) or isinstance(b, bool):
        return isinstance(a, bool) and isinstance(b, bool) and a == b
    if isinstance(a, list) or isinstance(b, list):
        return (isinstance(a, list) and isinstance(b, list) and len(a) == len(b)
                and all(same(x, y) for x, y in zip(a, b)))
    if isinstance(a, (int, float)) and isinstance(b, (int, float)):
        return a == b
    return type(a) is type(b) and a == b


def eq_check(eq, ev, value, raw):
    """-> None if the raw reading is equivalent to the assigned (decoded) value, else a reason"""
    from pptx.util import Length

    if eq == "=":
        return None if same(norm(raw), norm(value)) else "differs"
    if eq == "=f":
        if isinstance(raw, bool) or not isinstance(raw, (int, float)):
            return "not a number"
        return None if float(raw) == float(value) else "differs"
    if eq == "cp":
        if isinstance(raw, bool) or not isinstance(raw, int):
            return "not an int"
        v = int(value)
        if v % 127 == 0:
            return None if int(raw) == v else "exact multiple of 1/100 pt not returned exactly"
        return None if abs(int(raw) - v) < 127 else "off by >= 1/100 pt"
    if eq == "deg":
        if isinstance(raw, bool) or not isinstance(raw, (int, float)):
            return "not a number"
        r = float(raw)
        if not (0.0 <= r < 360.0):
            return "reading outside [0, 360)"
        d = abs(r - math.fmod(math.fmod(float(value), 360.0) + 360.0, 360.0))
        d = min(d, 360.0 - d)
        return None if d <= (1 / 60000.0) * (1 + 1e-6) + 1e-9 else "off by > 1/60000 degree"
    if eq == "f5":
        if isinstance(raw, bool) or not isinstance(raw, (int, float)):
            return "not a number"
        return None if abs(float(raw) - float(value)) <= 1e-5 * (1 + 1e-6) + 1e-12 else "off by > 1/100000"
    if eq == "underline":
        n = norm(value)
        if value is True or n == T.E("MSO_TEXT_UNDERLINE_TYPE", "SINGLE_LINE"):
            exp = True
        elif value is False or n == T.E("MSO_TEXT_UNDERLINE_TYPE", "NONE"):
            exp = False
        else:
            exp = n
        return None if same(norm(raw), exp) else "differs (expected %r)" % (exp,)
    if eq == "langid":
        return None if same(norm(raw), norm(value)) else "differs"
    if eq == "spacing":
        if isinstance(value, Length):
            if not isinstance(raw, Length):
                return "Length assigned, reading is not a Length"
            return eq_check("cp", ev, value, raw)
        if isinstance(raw, Length):
            return "number of lines assigned, reading is a Length"
        return eq_check("f5", ev, value, raw)
    raise ValueError("unknown equivalence %r" % (eq,))


# ------------------------------------------------------------------------------------ strategies

def _in(lo, hi, xs):
    out = []
    for x in xs:
        if lo <= x <= hi and x not in out:
            out.append(x)
    return out


def dom_strategy(d):
    """-> strategy of [value_class, encoded value]"""
    from hypothesis import strategies as st

    k = d["d"]
    if k in ("int", "len"):
        lo, hi = d["lo"], d["hi"]
        wrap = (lambda n: T.L(n)) if k == "len" else (lambda n: n)
        bnd = _in(lo, hi, [lo, hi, lo + 1, hi - 1] + list(d.get("bnd", [])))
        alts = [st.sampled_from(bnd).map(lambda n: ["bnd", wrap(n)]),
                st.integers(lo, hi).map(lambda n: ["int", wrap(n)]),
                st.integers(max(lo, -10 ** 7), min(hi, 10 ** 7)).map(lambda n: ["int", wrap(n)])]
        q = d.get("q")
        if q:
            kmax = min(hi // q, 400000)
            alts.append(st.tuples(st.integers(max(0, -(-lo // q)), kmax), st.sampled_from([-1, 0, 1, q - 1]))
                        .map(lambda t: min(hi, max(lo, t[0] * q + t[1]))).map(lambda n: ["qnt", wrap(n)]))
        return st.one_of(alts)
    if k == "float":
        lo, hi = d["lo"], d["hi"]
        bnd = _in(lo, hi, [lo, hi] + list(d.get("bnd", [])))
        alts = [st.sampled_from(bnd).map(lambda x: ["bnd", x]),
                st.floats(lo, hi, allow_nan=False, allow_infinity=False).map(lambda x: ["int", x]),
                st.floats(max(lo, -2.0), min(hi, 2.0), allow_nan=False).map(lambda x: ["int", x])]
        if d.get("ints", True) and math.ceil(lo) <= math.floor(hi):
            alts.append(st.integers(math.ceil(lo), math.floor(hi)).map(lambda n: ["int", n]))
        q = d.get("q")
        if q:
            klo, khi = int(max(lo, -400.0) / q) + 1, int(min(hi, 400.0) / q) - 1
            alts.append(st.tuples(st.integers(klo, khi),
                                  st.sampled_from([0.0, 0.5, -0.5, 0.49, 0.51, -0.49, -0.51, 0.999, 0.001]))
                        .map(lambda t: min(hi, max(lo, (t[0] + t[1]) * q))).map(lambda x: ["qnt", x]))
        return st.one_of(alts)
    if k == "bool":
        return st.sampled_from([["int", True], ["int", False]])
    if k == "enum":
        names = T.enum_members(d["e"], d.get("exclude", ()))
        vals = [T.E(d["e"], n) for n in names] + list(d.get("extra", []))
        return st.sampled_from(vals).map(lambda v: ["int", v])
    if k == "str":
        alpha = st.characters(whitelist_categories=("L", "N", "P", "S", "Zs"))
        return st.one_of(
            st.sampled_from(["", " ", "a&b<c>\"d'e", "General", "0.00%", "Arial", "x" * 300,
                             "é中\U0001F600", " lead and trail "]).map(lambda s: ["bnd", s]),
            st.text(alpha, max_size=24).map(lambda s: ["int", s]))
    if k == "rgb":
        return st.one_of(st.sampled_from(["000000", "FFFFFF", "FF0000", "0000FF"]).map(lambda s: ["bnd", T.RGB(s)]),
                         st.integers(0, 0xFFFFFF).map(lambda n: ["int", T.RGB("%06X" % n)]))
    if k == "union":
        return st.one_of([dom_strategy(x) for x in d["of"]])
    raise ValueError(k)


def row_value_strategy(row):
    from hypothesis import strategies as st

    alts = [dom_strategy(row.dom), dom_strategy(row.dom)]
    if row.ood:
        alts.append(st.sampled_from(row.ood).map(lambda v: ["ood", v]))
    if row.none is not None:
        alts.append(st.just(["none", None]))
    return st.one_of(alts)


def step_strategy(kind, row=None):
    from hypothesis import strategies as st

    if row is not None:
        return row_value_strategy(row).map(lambda cv, _p=row.prop: [_p, cv[0], cv[1]])
    return st.sampled_from(range(len(kind.rows))).flatmap(
        lambda i: row_value_strategy(kind.rows[i]).map(lambda cv, _p=kind.rows[i].prop: [_p, cv[0], cv[1]]))


def case_strategy(kind, first_row, src, path=None):
    from hypothesis import strategies as st

    steps = st.tuples(step_strategy(kind, first_row),
                      st.lists(step_strategy(kind), min_size=0, max_size=7)).map(lambda t: [t[0]] + t[1])

    def mk(t):
        steps_, reopen, saves = t
        case = {"kind": kind.name, "src": src, "steps": steps_,
                "reopen": sorted(set(r for r in reopen if r <= len(steps_)))}
        # saves: the presentation object is saved (the file is thrown away) and goes on being used
        sv = sorted(set(r for r in saves if r < len(steps_)))
        if sv:
            case["saves"] = sv
        if path is not None:
            case["path"] = path
        return case

    return st.tuples(steps, st.lists(st.integers(0, 8), max_size=2),
                     st.one_of(st.just([]), st.just([]), st.lists(st.integers(0, 7), max_size=2))).map(mk)


# ------------------------------------------------------------------------------------ executor

class Ctx:
    pass


def open_case(case):
    """-> (prs, base_path, kind)"""
    from pptx import Presentation

    kind = T.kind(case["kind"])
    if case["src"] == "fresh":
        prs = Presentation()
        base = kind.build(prs)
    else:
        from vlib import corpus

        prs = Presentation(corpus.path(case["src"]))
        base = case.get("path")
        if base is None:
            base = kind.locate(prs)
        if base is None:
            raise core.HarnessError("kind %s not found in %s" % (kind.name, case["src"]))
    return prs, [list(s) for s in base], kind


def snapshot(kind, chain):
    obj = chain[-1]
    out = {}
    for name, fn in kind.readings().items():
        try:
            out[name] = norm(fn(obj, chain))
        except Exception as e:  # a getter that raises is a reading too (compared before/after)
            out[name] = {"t": "raises", "v": type(e).__name__}
    return out


def _diff(a, b, names=None):
    return [n for n in sorted(names if names is not None else a) if not same(a[n], b[n])]


def do_set(row, obj, value):
    if row.set is not None:
        row.set(obj, value)
    else:
        setattr(obj, row.prop, value)


def run_case(case, rec=None, count=True):
    kind = T.kind(case["kind"])
    KK = "C09:%s" % kind.key
    prs, base, kind = open_case(case)
    anchor_path = base + kind.sub
    comp = comp_full = comp_before = None
    if case.get("companion"):
        # another object on the same shape / chart, prepared and given non-default settings first: nothing that
        # happens to the object under test afterwards (its preparation included) may change what it reads
        comp = T.kind(case["companion"])
        if comp.build is not kind.build:
            raise core.HarnessError("companion %s is not built like %s" % (comp.name, kind.name))
        canchor = base + comp.sub
        with core.sut("C09:%s:companion-setup" % comp.key):
            if comp.prepare is not None:
                comp.prepare(T.resolve(prs, canchor)[-1])
            comp_full = canchor + comp.sub2
            cobj = T.resolve(prs, comp_full)[-1]
            for crow in comp.rows:
                v = T.sample_value(crow.dom)
                if v is not None:
                    do_set(crow, cobj, T.decode(v))
        snapshot(comp, T.resolve(prs, comp_full))
        comp_before = snapshot(comp, T.resolve(prs, comp_full))

    def check_companion(prs_now, where):
        if comp is None:
            return
        try:
            cchain = T.resolve(prs_now, comp_full)
        except Exception as e:
            if core.origin_of(e)[0] != "sut":
                raise
            raise Violation("%s:other-object=%s:unreachable" % (KK, comp.cls),
                            "%s: the %s on the same shape, reachable and set up before, can no longer be reached: %s: %s"
                            % (where, comp.name, type(e).__name__, str(e)[:150]))
        now = snapshot(comp, cchain)
        bad = _diff(comp_before, now)
        if bad:
            n = bad[0]
            raise Violation("%s:other-object=%s.%s" % (KK, comp.cls, n),
                            "%s: reading %s of the %s on the same shape changed from %r to %r"
                            % (where, n, comp.name, comp_before[n], now[n]))

    if kind.prepare is not None:
        anchor = T.resolve(prs, anchor_path)[-1]
        kind.prepare(anchor)
        check_companion(prs, "%s: preparing the object (%s)" % (kind.name, kind.prepare.__name__))
    full = anchor_path + kind.sub2
    chain = T.resolve(prs, full)
    snapshot(kind, chain)  # warm-up: getters with get-or-add side effects settle here
    readings = kind.readings()
    steps = case["steps"]
    reopen = set(case.get("reopen", ()))
    classes = (["companion:%s+%s" % (kind.name, comp.name)] if comp is not None else []) + ["kind:" + kind.name, "src:" + ("fresh" if case["src"] == "fresh" else "corpus"),
               "len:%d" % len(steps)]
    props = set()
    nontrivial = len(reopen) > 0
    skipped = 0

    def do_reopen(chain):
        from pptx import Presentation

        before = snapshot(kind, chain)
        with core.sut("%s:save" % KK):
            buf = io.BytesIO()
            chain[0].save(buf)
        with core.sut("%s:reopen" % KK):
            prs2 = Presentation(io.BytesIO(buf.getvalue()))
            chain2 = T.resolve(prs2, full)
        after = snapshot(kind, chain2)
        bad = _diff(before, after)
        if bad:
            n = bad[0]
            raise Violation("%s:reopen:reading=%s" % (KK, n),
                            "%s (%s): reading %s is %r before save and %r after re-open; steps so far %r"
                            % (kind.name, case["src"], n, before[n], after[n], steps))
        check_companion(prs2, "%s: save and re-open" % kind.name)
        return chain2

    try:
        saves = set(case.get("saves", ()))
        for i, (prop, vclass, ev) in enumerate(steps):
            if i in saves:
                with core.sut("%s:save" % KK):
                    chain[0].save(io.BytesIO())
                classes.append("save:kept-using-object")
                nontrivial = True
            if i in reopen:
                chain = do_reopen(chain)
                classes.append("reopen:mid" if i else "reopen:first")
            row = kind.row(prop)
            K = "C09:%s" % (row.owner or kind.key)
            obj = chain[-1]
            value = T.decode(ev)
            before = snapshot(kind, chain)
            if row.pre is not None and not row.pre(before):
                skipped += 1
                classes.append("skipped-precondition")
                continue
            props.add(prop)
            classes.append("vc:" + vclass)
            classes.append("row:%s.%s" % (kind.cls, prop))
            if vclass != "int":
                nontrivial = True
            where = "%s (%s) step %d: %s = %r" % (kind.name, case["src"], i, prop, ev)
            if vclass == "ood":
                try:
                    do_set(row, obj, value)
                except (TypeError, ValueError):
                    pass
                except Exception as e:
                    origin, frame = core.origin_of(e)
                    if origin != "sut":
                        raise
                    raise Violation("%s:set=%s:ood-raises=%s" % (K, prop, type(e).__name__),
                                    "%s raised %s (%s) at %s, not TypeError/ValueError"
                                    % (where, type(e).__name__, str(e)[:120], frame))
                else:
                    raise Violation("%s:set=%s:ood-accepted" % (K, prop),
                                    "%s was accepted; reading now %r" % (where, snapshot(kind, chain).get(prop)))
                after = snapshot(kind, chain)
                bad = _diff(before, after)
                if bad:
                    n = prop if prop in bad else bad[0]
                    raise Violation("%s:set=%s:rejected-changes-state" % (K, prop),
                                    "%s was rejected but reading %s changed from %r to %r (all changed: %s)"
                                    % (where, n, before[n], after[n], bad))
                check_companion(chain[0], where + " (rejected)")
                continue
            with core.sut("%s:set=%s" % (K, prop)):
                do_set(row, obj, value)
            after = snapshot(kind, chain)
            # -- own reading
            if vclass == "none":
                exp = row.none.reading
                if not same(after[prop], exp):
                    raise Violation("%s:set=%s:none-reading" % (K, prop),
                                    "%s: reading is %r, documented inherited reading is %r" % (where, after[prop], exp))
                if row.none.explicit(obj, chain):
                    raise Violation("%s:set=%s:none-explicit-left" % (K, prop),
                                    "%s: the explicit attribute/element is still present in the XML" % where)
            else:
                try:
                    raw = readings[prop](obj, chain)
                except Exception as e:
                    raise Violation("%s:set=%s:readback" % (K, prop),
                                    "%s: getter raises %s afterwards" % (where, type(e).__name__))
                why = eq_check(row.eq, ev, value, raw)
                if why:
                    raise Violation("%s:set=%s:readback" % (K, prop),
                                    "%s: reading is %r (%s; equivalence %s)" % (where, norm(raw), why, row.eq))
                if row.default is not None and value == T.decode(row.default[0]) and row.default[1](obj, chain):
                    raise Violation("%s:set=%s:default-explicit-left" % (K, prop),
                                    "%s: the assigned value is the attribute's default, yet the explicit "
                                    "attribute is still present in the XML" % where)
            # -- documented couplings
            expects = row.expect(ev, before) if row.expect is not None else {}
            for name in sorted(expects):
                exp = expects[name]
                got = after[name]
                ok = exp(got) if callable(exp) else same(got, exp)
                if not ok:
                    raise Violation("%s:set=%s:coupled=%s" % (K, prop, name),
                                    "%s: documented coupling: reading %s is %r (before %r)%s"
                                    % (where, name, got, before[name],
                                       "" if callable(exp) else ", expected %r" % (exp,)))
            # -- independent siblings
            sibs = [n for n in readings if n != prop and n not in row.affects and n not in expects]
            bad = _diff(before, after, sibs)
            if bad:
                n = bad[0]
                raise Violation("%s:set=%s:sibling=%s" % (K, prop, n),
                                "%s: reading %s changed from %r to %r" % (where, n, before[n], after[n]))
            check_companion(chain[0], where)
        if len(steps) in reopen:
            chain = do_reopen(chain)
            classes.append("reopen:end")
    except Violation:
        # a case that ends in a violation (known findings included) is still an evaluated case
        if rec is not None and count:
            rec.note(case, True, classes=classes + ["outcome:violation"])
        raise
    if len(props) >= 2:
        nontrivial = True
    if rec is not None and count:
        rec.note(case, nontrivial, classes=classes)
    return nontrivial


# ------------------------------------------------------------------------------------ jobs

def _row_sites():
    """[(kind name, prop, cost)] for every row of every kind"""
    out = []
    for k in T.kinds():
        for r in k.rows:
            out.append((k.name, r.prop, k.cost))
    return out


NFRESH = 48


def jobs(tier):
    n = 1000 if tier == "thorough" else 64
    sites = _row_sites()
    # greedy balance of row sites over NFRESH jobs (cost ~ kind.cost)
    bins = [[0, []] for _ in range(NFRESH)]
    for kname, prop, cost in sorted(sites, key=lambda s: (-s[2], s[0], s[1])):
        b = min(bins, key=lambda x: x[0])
        b[0] += cost
        b[1].append([kname, prop])
    js = [{"mode": "fresh", "sites": b[1], "n": n, "shard": i} for i, b in enumerate(bins) if b[1]]
    # companion pairs: the acting kind's sequences with a second, prepared object on the same shape / chart
    pairs = [list(p) for p in T.COMPANIONS]
    for i in range(8):
        js.append({"mode": "companion", "pairs": pairs[i::8], "n": 300 if tier == "thorough" else 24, "shard": i})
    from vlib import corpus

    decks = corpus.corpus_decks()
    nshard = 16
    for s in range(nshard):
        mine = decks[s::nshard]
        # quick: each kind on the first matching deck of each shard (<= 16 corpus objects per kind);
        # thorough: every matching (deck, kind) pair
        js.append({"mode": "corpus", "decks": mine, "n": 24 if tier == "thorough" else 2,
                   "per_kind": 999 if tier == "thorough" else 1})
    return js


def _only(kname):
    """development aid (like VERIF_KNOWN_EXTRA): VERIF_C09_ONLY=substr,substr restricts the run to
    kinds whose name contains one of the substrings; job list, job seeds and per-site seeds are
    unchanged, so the cases executed are a subset of those of the unrestricted run"""
    pats = [p for p in os.environ.get("VERIF_C09_ONLY", "").split(",") if p]
    return not pats or any(p in kname for p in pats)


def run_job(job, seed, tier, rec, known):
    fails = []
    if job["mode"] == "fresh":
        for j, (kname, prop) in enumerate(job["sites"]):
            if not _only(kname):
                continue
            kind = T.kind(kname)
            row = kind.row(prop)
            strat = case_strategy(kind, row, "fresh")
            fails += hyp_search(lambda c: run_case(c, rec), strat, seed=seed * 131 + j,
                                max_examples=job["n"], rec=rec, known=known, shrink_budget=120)
        rec.extra["row_sites"] = len(job["sites"])
        if job["shard"] == 0:
            rec.extra["rows_enabled"] = T.row_ids()
            rec.extra["rows_not_enabled"] = list(T.UNVERIFIED)
        return _dedupe(fails)
    if job["mode"] == "companion":
        for j, (k1, k2) in enumerate(job["pairs"]):
            if not (_only(k1) or _only(k2)):
                continue
            kind = T.kind(k1)
            strat = case_strategy(kind, None, "fresh").map(lambda c, k2=k2: dict(c, companion=k2))
            fails += hyp_search(lambda c: run_case(c, rec), strat, seed=seed * 173 + j,
                                max_examples=job["n"], rec=rec, known=known, shrink_budget=120)
        rec.cls("companion-pairs:%d" % len(job["pairs"]))
        return _dedupe(fails)
    if job["mode"] == "corpus":
        from pptx import Presentation

        from vlib import corpus

        used = {}
        for di, deck in enumerate(job["decks"]):
            try:
                prs = Presentation(corpus.path(deck))
            except Exception:
                rec.cls("corpus:deck-unreadable")
                continue
            for ki, kind in enumerate(T.kinds()):
                if kind.locate is None or used.get(kind.name, 0) >= job["per_kind"] or not _only(kind.name):
                    continue
                try:
                    path = kind.locate(prs)
                except Exception:
                    path = None
                if path is None or not T.unique_path(prs, path):
                    continue
                # the preconditions must be establishable on this corpus object (else not applicable)
                probe = {"kind": kind.name, "src": deck, "path": path, "steps": [], "reopen": [0]}
                try:
                    run_case(probe, None)
                except Violation:
                    pass
                except Exception:
                    rec.cls("corpus:not-applicable:" + kind.name)
                    continue
                used[kind.name] = used.get(kind.name, 0) + 1
                rec.cls("corpus:kind:" + kind.name)
                rec.extra.setdefault("corpus_objects", []).append("%s@%s" % (kind.name, os.path.basename(deck)))
                strat = case_strategy(kind, None, deck, path)
                fails += hyp_search(lambda c: run_case(c, rec), strat,
                                    seed=seed * 257 + di * 61 + ki,
                                    max_examples=job["n"] * len(kind.rows), rec=rec, known=known,
                                    shrink_budget=80)
        return _dedupe(fails)
    raise ValueError(job["mode"])


def _dedupe(fails):
    out = {}
    for f in fails:
        out.setdefault(f["key"], f)
    return list(out.values())


def replay(case):
    return collect(lambda c: run_case(c, None), case)


RULE = RULE % len(T.kinds()) if "%d" in RULE else RULE
