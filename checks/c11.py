"""C11 — accepted attribute values are exactly those the schema can represent.

Layer 1 (oxml): every (registered element class, attribute property) binding recovered from the
closures of the generated properties, paired with the XSD simple type(s) the schema declares for
that attribute. Setter direction: boundary / wrong-type / Hypothesis values are assigned through the
element property; an accepted value must leave a lexical form that libxml2 accepts for the XSD
type and must read back within one quantum; a rejected one must raise TypeError/ValueError and
leave the element byte-identical. Reader direction: every lexical alternative generated from the
XSD facets (and accepted by libxml2) must be readable and denote the same value as its plain
integer equivalent. Simple-type classes not bound to any attribute are driven through
to_xml/from_xml against the XSD type of the same name.
Layer 2 (public API, thin): the same two clauses through ~60 public setters on real slides/charts,
judged by XSD validation of the part and a before/after comparison of its XML.
"""
import collections
import math
import re

from lxml import etree

from vlib import c11_model as M
from vlib import xsdoracle as XO
from vlib.core import Violation, collect, hyp_search, run_plain
from vlib.core import from_jsonable as core_from_jsonable

PROPERTY = "C11"
LEVEL = "exploration"
EXHAUSTIVE = False
RULE = ("layer 1: every (oxml element class, attribute property) binding x {XSD bounds, bound +-1, 0, sign "
        "flips, powers of two, floats (k +- 0.5)/scale +- 0..2 ulp around every bound and around 0/360 degrees, "
        "wrong Python types (None, bool, str, bytes, Decimal, Fraction, complex, containers, int-enum member, "
        "Length), non-finite floats, every enum member} x {attribute absent, attribute holding a valid value}; "
        "Hypothesis floats/ints per numeric (simple type, XSD type) pair concentrated on rounding thresholds and "
        "bounds; for reading every lexical alternative derived from the XSD facets and union members (N, +N, "
        "00N, -0, N%, -1.5%, 1.5pt/2in/3mm/cm/pc/pi, true/false/1/0, double forms incl. INF/NaN, hex cases, "
        "every enumeration token, guide names) that libxml2 accepts for the type, plus Hypothesis strings from "
        "the XSD patterns; read->assign->compare of integer lexicals over each scaled type's range (a value the "
        "schema represents exactly must be written back unchanged); unbound simple-type classes through "
        "to_xml/from_xml. Layer 2: public setters x value "
        "families x {fresh object, object holding a valid value}. Non-trivial: the value is wrong-typed for the "
        "attribute, or lies within 1.5 quanta of an XSD bound / of a rounding threshold / of 0 or 360 degrees, "
        "or (reading) the lexical form is not the canonical integer/token form. Distinct by (simple type, XSD "
        "type, value) — bindings sharing both count once.")
ASSUMPTIONS = [
    "libxml2 (lxml) decides lexical validity against the ISO 29500-4 transitional XSDs / OPC XSDs",
    "when an element name is declared with several complex types (c:order, c:grouping, a:xfrm) a written value "
    "is accepted if any of the declared attribute types admits it",
    "quantum tolerance is one quantum of the integer lexical form (truncating conversions pass); angles are "
    "compared modulo 360 degrees; enumerations are compared by the XML token (alias members are C20's subject)",
    "OverflowError is tolerated as a rejection for non-finite floats and for magnitudes above 1e290 (the unit "
    "scaling overflows a double)",
    "XsdAnyUri, XsdId, ST_ContentType, ST_Extension are documented as unvalidated: only round-tripped",
    "lexical forms valid only through XSD whitespace collapsing are not generated",
    "a value obtained by reading an integer lexical form is exactly representable: assigning it back must write "
    "the same integer (no tolerance), whereas arbitrary values may land up to one quantum away",
    "a setter that accepts less than the schema allows is reported in coverage.accepts_less, not as a violation",
    "layer 2: a rejected assignment may leave behind empty, attribute-less, schema-valid elements (a:pPr, "
    "a:srcRect, ...); anything else (schema-invalid leftovers, removed or changed content) counts as written",
    "equivalences used for reading: N% == N*1000 for DrawingML percent types and == N for chart percent types; "
    "universal measures in EMU (mm 36000, cm 360000, in 914400, pt 12700, pc/pi 152400); +N, 00N == N; true == 1",
]

NUMERIC_KINDS = ("int", "scaled", "angle", "float", "emu-centipoint")


# ------------------------------------------------------------------------------- element helpers

def _mk(b, lexical=None):
    from pptx.oxml import parse_xml

    el = parse_xml('<%s:%s xmlns:%s="%s"/>' % (b["pfx"], b["local"], b["pfx"], b["uri"]))
    if lexical is not None:
        el.set(b["clark"], lexical)
    return el


def _pre_lexical(b):
    for t in b["xsd"]:
        for lx, form, _c, _e in M.lexicals(t):
            if form in ("int", "enum-token", "bool-digit", "hex-upper", "double", "string", "token"):
                if b["kind"] == "enum" and not any(m.xml_value == lx for m in b["stype"]):
                    continue
                return lx
    return None


def _num(v):
    if isinstance(v, bool):
        return float(v)
    if isinstance(v, (int, float)):
        return float(v)
    return float(v)  # may raise: caller treats as mismatch


def _ulp(x):
    x = abs(x)
    if x != x or x == math.inf:
        return 0.0
    return math.ulp(x)


def _rt_ok(b, v, back, lexical):
    """round-trip within the type's quantum"""
    kind = b["kind"]
    try:
        if kind == "enum":
            return getattr(back, "xml_value", None) == lexical
        if kind in ("str", "token"):
            return back == v
        if kind == "hex":
            return isinstance(back, str) and isinstance(v, str) and back.upper() == v.upper()
        if kind == "bool":
            return back == v
        if kind == "int":
            return back == v
        if kind == "float":
            fv = _num(v)
            if fv != fv:
                return back != back
            return back == fv
        scale = M.SEM[b["sname"]][1]
        q = 1.0 / scale
        fv, fb = _num(v), _num(back)
        if kind == "emu-centipoint":
            return abs(fb - fv) <= q
        if kind == "scaled":
            return abs(fb - fv) <= q * (1 + 1e-6) + 4 * _ulp(fv)
        if kind == "angle":
            tol = q * (1 + 1e-6) + 4 * _ulp(fv) + 4 * _ulp(fv * scale) / scale
            d = math.fmod(fb - fv, 360.0)
            d = abs(d)
            d = min(d, 360.0 - d)
            return d <= tol
    except (TypeError, ValueError, OverflowError):
        return False
    return back == v


def _in_bounds(b, v):
    return any((lo is None or v >= lo) and (hi is None or v <= hi) for lo, hi in M.bounds_for(b))


def _overflow_ok(v):
    return isinstance(v, (int, float)) and not isinstance(v, bool) and (v != v or abs(v) > 1e290)


def _kv(b, spec):
    """value class used in finding keys (coarser than the histogram class)"""
    vc = M.vclass(spec)
    if vc in ("int", "float", "float-integral", "length"):
        return "number"
    if vc in ("bool", "member") and b is not None and b["kind"] in NUMERIC_KINDS:
        return "int-subclass"
    if b is not None and b["kind"] == "enum" and vc in ("bool", "member", "number"):
        return "member-or-int"
    return vc


def _keytype(b, lexclass):
    """malformed lexical -> root cause is the conversion: name the class defining convert_to_xml;
    out-of-range lexical -> root cause is the validation of that simple type."""
    st = b["stype"]
    if lexclass == "malformed":
        for k in getattr(st, "__mro__", ()):
            if "convert_to_xml" in vars(k) or "to_xml" in vars(k):
                return "conv=%s" % k.__name__
    return "type=%s" % b["sname"]


# ------------------------------------------------------------------------------- layer 1: setter

def check_set(case):
    w = M.world()
    b = w["bindings"].get(case["b"])
    if b is None:
        return {"outcome": "binding-gone"}
    v = M.dec(case["v"])
    vc = _kv(b, case["v"])
    el = _mk(b, case.get("pre"))
    before = etree.tostring(el)
    try:
        setattr(el, b["prop"], v)
        exc = None
    except Exception as e:  # noqa: judged below
        exc = e
    after = etree.tostring(el)
    desc = "%s (%s.%s, attribute %s : %s) = %r" % (b["id"], b["cls"].__name__, b["prop"], b["attr"],
                                                  "|".join(t[1] for t in b["xsd"]), v)
    if exc is not None:
        if not isinstance(exc, (TypeError, ValueError)):
            if not (isinstance(exc, OverflowError) and _overflow_ok(v)):
                raise Violation("C11:rejected-with=%s:type=%s:value=%s" % (type(exc).__name__, b["sname"], vc),
                                "%s raised %s: %s (TypeError/ValueError required)"
                                % (desc, type(exc).__name__, str(exc)[:120]))
        if after != before:
            raise Violation("C11:rejected-but-written:type=%s:value=%s" % (b["sname"], vc),
                            "%s raised %s but the element changed: %s -> %s"
                            % (desc, type(exc).__name__, before.decode(), after.decode()))
        less = False
        if b["kind"] == "int" and M.vclass(case["v"]) == "int" and _in_bounds(b, v):
            less = True
        return {"outcome": "rejected", "less": less}
    lexical = el.get(b["clark"])
    # nothing but this attribute may have changed
    probe = _mk(b, case.get("pre"))
    if lexical is None:
        if b["clark"] in probe.attrib:
            del probe.attrib[b["clark"]]
    else:
        probe.set(b["clark"], lexical)
    if etree.tostring(probe) != after:
        raise Violation("C11:accepted-disturbs:type=%s" % b["sname"], "%s changed more than the attribute: %s -> %s"
                        % (desc, before.decode(), after.decode()))
    if lexical is None:
        ok = False
        if not b["required"]:
            try:
                ok = bool(v == b["default"])
            except Exception:
                ok = False
        if not ok:
            raise Violation("C11:accepted-not-written:type=%s:value=%s" % (b["sname"], vc),
                            "%s was accepted but no attribute was written" % desc)
        try:
            back = getattr(el, b["prop"])
        except Exception as e:
            raise Violation("C11:roundtrip-raises:type=%s" % b["sname"], "%s then reading raised %r" % (desc, e))
        return {"outcome": "removed-default"}
    if b["sname"] not in M.UNVALIDATED and not M.valid_written(b, lexical):
        lc = M.lex_class(w["S"], b["xsd"], lexical)
        raise Violation("C11:written-invalid:%s:value=%s:lexical=%s" % (_keytype(b, lc), vc, lc),
                        "%s wrote %s=%r, not a valid %s" % (desc, b["attr"], lexical, "|".join(t[1] for t in b["xsd"])))
    try:
        back = getattr(el, b["prop"])
    except Exception as e:
        raise Violation("C11:roundtrip-raises:type=%s:value=%s" % (b["sname"], vc),
                        "%s wrote %r; reading it raised %r" % (desc, lexical, e))
    if not _rt_ok(b, v, back, lexical):
        raise Violation("C11:roundtrip:type=%s:value=%s" % (b["sname"], vc),
                        "%s wrote %r which reads back %r (more than one quantum away)" % (desc, lexical, back))
    return {"outcome": "accepted", "lexical": lexical}


# ------------------------------------------------------------------------------- layer 1: reader

def _same_read(b, a, c):
    try:
        if isinstance(a, float) or isinstance(c, float):
            if a != a or c != c:
                return (a != a) and (c != c)
            q = 1.0 / M.SEM[b["sname"]][1] if b["sname"] in M.SEM else 0.0
            return abs(a - c) <= q * (1 + 1e-6) + 4 * _ulp(c)
        if isinstance(a, int) and isinstance(c, int) and not isinstance(a, bool):
            tol = 127 if b["kind"] == "emu-centipoint" else 1 if hasattr(a, "emu") else 0
            return abs(a - c) <= tol
        return a == c
    except Exception:
        return False


def check_read(case):
    w = M.world()
    b = w["bindings"].get(case["b"])
    if b is None:
        return {"outcome": "binding-gone"}
    lx = case["lex"]
    form = case.get("form") or M.classify_lexical(lx)
    xs = "|".join(t[1] for t in b["xsd"])
    if not M.valid_any(b["xsd"], lx):
        return {"outcome": "lexical-invalid"}
    el = _mk(b, lx)
    before = etree.tostring(el)
    try:
        val = getattr(el, b["prop"])
    except Exception as e:
        raise Violation("C11:unreadable:type=%s:xsd=%s:form=%s" % (b["sname"], xs, form),
                        "%s: attribute %s=%r is a valid %s but reading %s.%s raised %s: %s"
                        % (b["id"], b["attr"], lx, xs, b["cls"].__name__, b["prop"], type(e).__name__, str(e)[:120]))
    if etree.tostring(el) != before:
        raise Violation("C11:read-mutates:type=%s" % b["sname"], "%s reading %r changed the element" % (b["id"], lx))
    canon = case.get("canon")
    if canon is not None and M.valid_any(b["xsd"], canon):
        try:
            ref = getattr(_mk(b, canon), b["prop"])
        except Exception:
            ref = None  # the canonical form being unreadable is reported by its own case
        if ref is not None and not _same_read(b, val, ref):
            raise Violation("C11:read-value:type=%s:xsd=%s:form=%s" % (b["sname"], xs, form),
                            "%s: %r reads %r but the equivalent %r reads %r" % (b["id"], lx, val, canon, ref))
    if "expect" in case and case["expect"] is not None and b["kind"] == "float":
        ex = case["expect"]
        if not ((ex != ex and val != val) or val == ex):
            raise Violation("C11:read-value:type=%s:xsd=%s:form=%s" % (b["sname"], xs, form),
                            "%s: %r reads %r, denotes %r" % (b["id"], lx, val, ex))
    return {"outcome": "read"}


def check_rw(case):
    """a value read from a schema-valid document, assigned back, must write the same number
    (a value the schema represents exactly may not drift by a quantum on read-modify-write)"""
    w = M.world()
    b = w["bindings"].get(case["b"])
    if b is None:
        return {"outcome": "binding-gone"}
    lx = case["lex"]
    if not M.valid_any(b["xsd"], lx):
        return {"outcome": "lexical-invalid"}
    try:
        v = getattr(_mk(b, lx), b["prop"])
    except Exception:
        return {"outcome": "unreadable"}  # reported by the reader case of the same lexical
    el = _mk(b)
    try:
        setattr(el, b["prop"], v)
    except Exception:
        return {"outcome": "reads-but-rejects"}
    lx2 = el.get(b["clark"])
    if lx2 is None:
        return {"outcome": "removed-default"}
    try:
        if b["kind"] == "float":
            a, c = float(lx), float(lx2)
            same = (a != a and c != c) or a == c
        else:
            a, c = int(lx), int(lx2)
            same = a == c or (b["kind"] == "angle" and (a - c) % M.FULL_TURN == 0)
    except ValueError:
        return {"outcome": "non-numeric"}  # reported by the setter clause
    if not same:
        raise Violation("C11:reread-shifts:type=%s" % b["sname"],
                        "%s: %s=%r reads %r; assigning that value back writes %r"
                        % (b["id"], b["attr"], lx, v, lx2))
    return {"outcome": "stable"}


def check_read_group(case):
    """all tokens of one enumeration / sample strings at once -> one finding per (type, form)"""
    w = M.world()
    b = w["bindings"].get(case["b"])
    if b is None:
        return {"outcome": "binding-gone"}
    bad = []
    first = None
    for lx in case["lexs"]:
        try:
            check_read({"b": case["b"], "lex": lx, "form": case["form"]})
        except Violation as v:
            bad.append(lx)
            first = first or v
    if bad:
        raise Violation(first.key, "%s [all unreadable %s forms of this binding: %s]"
                        % (first.message, case["form"], ", ".join(repr(x) for x in bad[:20])))
    return {"outcome": "read", "n": len(case["lexs"])}


# ------------------------------------------------------------------------------- unbound classes

XSD_BY_CLASS = {"XsdAnyUri": "anyURI", "XsdBoolean": "boolean", "XsdDouble": "double", "XsdId": "ID",
                "XsdInt": "int", "XsdLong": "long", "XsdString": "string", "XsdToken": "token",
                "XsdUnsignedByte": "unsignedByte", "XsdUnsignedInt": "unsignedInt",
                "XsdUnsignedShort": "unsignedShort"}


def unbound_types():
    """simple-type classes of oxml/simpletypes.py that no attribute declaration uses, paired with the
    XSD simple type of the same name -> {class name: pseudo binding}"""
    w = M.world()
    if "unb" in w:
        return w["unb"]
    import inspect
    from pptx.oxml import simpletypes as T

    used = {b["sname"] for b in w["bindings"].values()}
    out = {}
    for name, cls in sorted(vars(T).items()):
        if not inspect.isclass(cls) or not issubclass(cls, T.BaseSimpleType) or cls.__module__ != T.__name__:
            continue
        if name in used or name.startswith("Base") or name in ("XsdStringEnumeration", "XsdTokenEnumeration"):
            continue
        if name in XSD_BY_CLASS:
            tq = (M.XSD, XSD_BY_CLASS[name])
        else:
            cands = [k for k in w["S"].stypes if k[1] == name]
            pref = [M.NS_A, M.NS_C, M.NS_P, M.NS_SH]
            cands.sort(key=lambda k: pref.index(k[0]) if k[0] in pref else 9)
            if not cands:
                continue
            tq = cands[0]
        b = {"id": "type:" + name, "cls": cls, "prop": "to_xml/from_xml", "attr": "-", "sname": name, "stype": cls,
             "xsd": [tq], "required": True, "default": None, "uri": None}
        b["kind"] = M._kind(b, w["S"])
        out[name] = b
    w["unb"] = out
    return out


def _xml_ok(s):
    try:
        etree.Element("x").set("v", s)
        return True
    except ValueError:
        return False


def check_tset(case):
    b = unbound_types().get(case["t"])
    if b is None:
        return {"outcome": "binding-gone"}
    cls = b["cls"]
    v = M.dec(case["v"])
    vc = _kv(b, case["v"])
    desc = "%s.to_xml(%r) [xsd %s]" % (b["sname"], v, b["xsd"][0][1])
    if not hasattr(cls, "convert_to_xml"):
        return {"outcome": "reader-only"}
    try:
        lexical = cls.to_xml(v)
    except Exception as e:
        if not isinstance(e, (TypeError, ValueError)) and not (isinstance(e, OverflowError) and _overflow_ok(v)):
            raise Violation("C11:rejected-with=%s:type=%s:value=%s" % (type(e).__name__, b["sname"], vc),
                            "%s raised %s: %s" % (desc, type(e).__name__, str(e)[:120]))
        less = b["kind"] == "int" and M.vclass(case["v"]) == "int" and _in_bounds(b, v)
        return {"outcome": "rejected", "less": less}
    if isinstance(lexical, str) and not _xml_ok(lexical):
        return {"outcome": "rejected-by-lxml"}  # the attribute assignment that follows to_xml() raises ValueError
    if not isinstance(lexical, str) or (b["sname"] not in M.UNVALIDATED and not M.valid_written(b, lexical)):
        lc = M.lex_class(M.world()["S"], b["xsd"], lexical) if isinstance(lexical, str) else "malformed"
        raise Violation("C11:written-invalid:%s:value=%s:lexical=%s" % (_keytype(b, lc), vc, lc),
                        "%s gave %r, not a valid %s" % (desc, lexical, b["xsd"][0][1]))
    try:
        back = cls.from_xml(lexical)
    except Exception as e:
        raise Violation("C11:roundtrip-raises:type=%s:value=%s" % (b["sname"], vc), "%s gave %r; from_xml raised %r"
                        % (desc, lexical, e))
    if not _rt_ok(b, v, back, lexical):
        raise Violation("C11:roundtrip:type=%s:value=%s" % (b["sname"], vc), "%s gave %r which reads back %r"
                        % (desc, lexical, back))
    return {"outcome": "accepted", "lexical": lexical}


def check_tread(case):
    b = unbound_types().get(case["t"])
    if b is None:
        return {"outcome": "binding-gone"}
    lx = case["lex"]
    if not M.valid_any(b["xsd"], lx):
        return {"outcome": "lexical-invalid"}
    form = case.get("form") or M.classify_lexical(lx)
    try:
        val = b["cls"].from_xml(lx)
    except Exception as e:
        raise Violation("C11:unreadable:type=%s:xsd=%s:form=%s" % (b["sname"], b["xsd"][0][1], form),
                        "%s.from_xml(%r) raised %s: %s" % (b["sname"], lx, type(e).__name__, str(e)[:120]))
    canon = case.get("canon")
    if canon is not None and M.valid_any(b["xsd"], canon):
        try:
            ref = b["cls"].from_xml(canon)
        except Exception:
            ref = None
        if ref is not None and not _same_read(b, val, ref):
            raise Violation("C11:read-value:type=%s:xsd=%s:form=%s" % (b["sname"], b["xsd"][0][1], form),
                            "%s.from_xml(%r) = %r but the equivalent %r reads %r" % (b["sname"], lx, val, canon, ref))
    return {"outcome": "read"}


# ------------------------------------------------------------------------------- layer 2: public API

def L(cls, v):
    return {"t": "length", "cls": cls, "v": v}


def Mb(mod, cls, name):
    return {"t": "member", "mod": "pptx.enum." + mod, "cls": cls, "name": name}


V_BOOL = [True, False, None, 1, 0, 2, "x", 1.5, {"t": "list", "v": []}]
V_WRONG = ["x", "", b"1", {"t": "list", "v": [1]}, {"t": "decimal", "s": "1.5"}, {"t": "complex", "re": 1.0, "im": 0.0}]
V_NONFIN = [math.nan, math.inf, -math.inf]
V_EMU64 = [0, 1, -1, 914400, L("Inches", 1), L("Emu", 12700), 27273042316900, 27273042316901, -27273042329600,
           -27273042329601, 2 ** 63, 10 ** 30, True, 1.5, 12700.0, None, M.INT_ENUM_MEMBER] + V_WRONG + V_NONFIN
V_EMU64POS = V_EMU64
V_EMU32 = [0, 1, -1, 91440, L("Inches", 0.1), 2 ** 31 - 1, 2 ** 31, -2 ** 31, -2 ** 31 - 1, True, 1.5, None,
           M.INT_ENUM_MEMBER] + V_WRONG + V_NONFIN
V_SPC = [L("Pt", 0), L("Pt", 12), L("Pt", 1584), L("Pt", 1585), L("Emu", 20116800 + 126), L("Emu", 20116800 + 127),
         L("Emu", -1), L("Emu", 126), L("Emu", 127), None]
V_ANGLE = [0, 0.0, -0.0, 90, 45.5, 360, 360.0, -90, 720.5, 359.9999999, 359.99999, 359.99999166, 359.999991667,
           1e-9, -1e-9, 1e-7, 8.3e-6, 8.4e-6, 4e-6, -4e-6, 180, 1e15, 1e300, True, None] + V_WRONG + V_NONFIN
V_FRAC = [0, 1, 0.0, 1.0, 0.5, 0.25, 1e-6, 4.9e-6, 5.1e-6, 0.999995, 0.999996, 1.0000000000000002, 1.000004,
          1.000006, -0.0, -1e-9, -4e-6, -6e-6, -0.5, 2, True, None] + V_WRONG + V_NONFIN
V_DOUBLE = [0, 1, -1, 1.5, -2.25, 1e22, 1e-7, 1e300, 5e-324, 2 ** 53 + 1, True, None] + V_WRONG + V_NONFIN


def _int_range(lo, hi):
    return [lo - 1, lo, lo + 1, (lo + hi) // 2, hi - 1, hi, hi + 1, 0, -1, float(lo), lo + 0.5, True, False, None,
            10 ** 30, M.INT_ENUM_MEMBER] + V_WRONG + V_NONFIN


def _members(mod, cls, names):
    return [Mb(mod, cls, n) for n in names]


def _all_members(mod, cls):
    import importlib
    E = getattr(importlib.import_module("pptx.enum." + mod), cls)
    return [M.enc_member(m) for m in E]


# ... and members of OTHER XML-mapped enumerations: whatever the setter makes of them, what it writes must be a token
# of the attribute's own type
V_ENUMX = [None, 0, 1, 12345678, -1, True, "x", "ctr", 1.5, {"t": "list", "v": [1]},
           Mb("text", "MSO_VERTICAL_ANCHOR", "TOP"), Mb("dml", "MSO_LINE_DASH_STYLE", "DASH"),
           Mb("text", "MSO_TEXT_UNDERLINE_TYPE", "WAVY_LINE"), Mb("text", "PP_PARAGRAPH_ALIGNMENT", "RIGHT")]

# name -> (context, attr, values, metric, pre values); metric: exact | truthy | ("abs", q) | ("angle", q) | skip
API_OPS = collections.OrderedDict()


def _op(name, ctx, attr, values, metric="exact", pre=(None,), bounds=(), q=1.0):
    API_OPS[name] = {"ctx": ctx, "attr": attr, "values": values, "metric": metric, "pre": list(pre),
                     "bounds": list(bounds), "q": q}


def _build_ops():
    if API_OPS:
        return
    fs = [L("Pt", 12), L("Pt", 1), L("Pt", 4000), L("Emu", 12699), L("Emu", 12700), L("Emu", 12700 + 126),
          L("Emu", 50800000 + 126), L("Emu", 50800000 + 127), L("Pt", 4001), 12700, 0, -12700, None, True, 12.0,
          190500.5, "12", M.INT_ENUM_MEMBER] + V_WRONG + V_NONFIN
    _op("font.size", "run", "size", fs, ("abs", 127), pre=(None, L("Pt", 18)), bounds=[(12700, 50800000)], q=127)
    _op("font.bold", "run", "bold", V_BOOL, pre=(None, True))
    _op("font.italic", "run", "italic", V_BOOL)
    _op("font.underline", "run", "underline", [True, False, None] + _all_members("text", "MSO_TEXT_UNDERLINE_TYPE")
        + V_ENUMX, metric="underline", pre=(None, True))
    _op("font.name", "run", "name", ["Arial", "", "é x", None, 5, 1.5, True, b"Arial", "a\x00b"], pre=(None, "Calibri"))
    _op("font.language_id", "run", "language_id",
        _members("lang", "MSO_LANGUAGE_ID", ["NONE", "ENGLISH_US", "GERMAN", "FRENCH", "JAPANESE", "MIXED"]) + V_ENUMX,
        metric="skip", pre=(None, Mb("lang", "MSO_LANGUAGE_ID", "GERMAN")))
    _op("fill.gradient_angle", "gradfill", "gradient_angle", V_ANGLE, ("angle", 1 / 60000.0), bounds=[(0, 360)],
        q=1 / 60000.0)
    th = _all_members("dml", "MSO_THEME_COLOR_INDEX") + V_ENUMX
    _op("fill.fore_color.theme_color", "solidfill", "fore_color.theme_color", th,
        pre=(None, Mb("dml", "MSO_THEME_COLOR_INDEX", "ACCENT_2"), {"t": "rgb", "v": "102030"}))
    _op("fill.fore_color.rgb", "solidfill", "fore_color.rgb",
        [{"t": "rgb", "v": "FF0000"}, {"t": "rgb", "v": "00ff7f"}, "FF0000", {"t": "tuple", "v": [255, 0, 0]}, None,
         0xFF0000, True], pre=(None, {"t": "rgb", "v": "102030"}))
    _op("fill.fore_color.brightness", "rgbfill", "fore_color.brightness",
        [0, 0.0, -0.0, 0.25, -0.25, 1, -1, 1.0, -1.0, 0.4, -0.4, 1e-9, 1.0000000000000002, -1.0000000000000002, 1.1,
         -1.1, 0.999996, True, None] + V_WRONG + V_NONFIN, ("abs", 2e-5), bounds=[(-1, 1)], q=1e-5, pre=(None, 0.4))
    _op("fill.pattern", "pattfill", "pattern", _all_members("dml", "MSO_PATTERN_TYPE") + V_ENUMX)
    _op("fill.gradient_stop.position", "gradfill", "gradient_stops[0].position", V_FRAC + ["0.5"], ("abs", 1e-5),
        bounds=[(0, 1)], q=1e-5)
    _op("line.width", "line", "width",
        [0, 1, 12700, L("Pt", 1), L("Pt", 1584), L("Emu", 20116800), L("Emu", 20116801), L("Pt", 1585), -1, 1.5,
         12700.0, True, None, "1", M.INT_ENUM_MEMBER] + V_WRONG + V_NONFIN, pre=(None, L("Pt", 2)),
        bounds=[(0, 20116800)])
    _op("line.dash_style", "line", "dash_style", _all_members("dml", "MSO_LINE_DASH_STYLE") + V_ENUMX,
        pre=(None, Mb("dml", "MSO_LINE_DASH_STYLE", "DASH")))
    _op("shape.rotation", "shape", "rotation", V_ANGLE, ("angle", 1 / 60000.0), bounds=[(0, 360)], q=1 / 60000.0)
    _op("shape.left", "shape", "left", V_EMU64, bounds=[(-27273042329600, 27273042316900)])
    _op("shape.width", "shape", "width", V_EMU64POS, bounds=[(0, 27273042316900)])
    _op("placeholder.left", "placeholder", "left", [914400, 0, "x", None, 1.5, True, 2 ** 63])
    _op("connector.begin_x", "connector", "begin_x", [0, 914400, -5, "x", 1.5, None, 2 ** 63], ("abs", 1))
    _op("para.line_spacing", "para", "line_spacing",
        [1, 1.0, 1.5, 0, 0.0, 132, 132.0, 132.00001, 132.000004, -0.1, -1e-9, -4e-6, 0.999995, 1e-6, True, "x", None,
         b"1", 2, 3] + V_SPC + V_NONFIN, ("spacing", 127), pre=(None, 2.0, L("Pt", 10)), bounds=[(0, 132)], q=1e-5)
    _op("para.space_before", "para", "space_before", V_SPC + [12700, 1.5, "x", True], ("abs", 127),
        pre=(None, L("Pt", 6)), bounds=[(0, 20116800)], q=127)
    _op("para.level", "para", "level", _int_range(0, 8), pre=(None, 3), bounds=[(0, 8)])
    _op("para.alignment", "para", "alignment", _all_members("text", "PP_PARAGRAPH_ALIGNMENT") + V_ENUMX,
        pre=(None, Mb("text", "PP_PARAGRAPH_ALIGNMENT", "RIGHT")))
    _op("text_frame.margin_left", "tf", "margin_left", V_EMU32, pre=(None, 5), bounds=[(-2 ** 31, 2 ** 31 - 1)])
    _op("text_frame.word_wrap", "tf", "word_wrap", V_BOOL, pre=(None, True))
    _op("text_frame.auto_size", "tf", "auto_size", _all_members("text", "MSO_AUTO_SIZE") + V_ENUMX, metric="skip",
        pre=(None, Mb("text", "MSO_AUTO_SIZE", "SHAPE_TO_FIT_TEXT")))
    _op("text_frame.vertical_anchor", "tf", "vertical_anchor", _all_members("text", "MSO_VERTICAL_ANCHOR") + V_ENUMX,
        pre=(None, Mb("text", "MSO_VERTICAL_ANCHOR", "MIDDLE")))
    crop = [0, 0.0, 0.5, -0.5, 1, 1.5, 1e-6, 4.9e-6, 5.1e-6, 21474.83647, 21474.836474, 21474.836476, 21474.83648,
            -21474.83648, -21474.836484, -21474.836486, -21474.8365, True, None] + V_WRONG + V_NONFIN
    _op("picture.crop_left", "picture", "crop_left", crop, ("abs", 1e-5), pre=(None, 0.25),
        bounds=[(-21474.83648, 21474.83647)], q=1e-5)
    _op("table.column.width", "table", "columns[0].width", V_EMU64, bounds=[(-27273042329600, 27273042316900)])
    _op("table.cell.margin_left", "table", "cell(0,0).margin_left", V_EMU32, pre=(None, 5),
        bounds=[(-2 ** 31, 2 ** 31 - 1)])
    _op("table.cell.vertical_anchor", "table", "cell(0,0).vertical_anchor",
        _all_members("text", "MSO_VERTICAL_ANCHOR") + V_ENUMX)
    _op("table.first_row", "table", "first_row", V_BOOL, metric="truthy")
    _op("table.horz_banding", "table", "horz_banding", V_BOOL[:6], metric="truthy")
    _op("table.last_row", "table", "last_row", V_BOOL, metric="truthy")
    _op("table.first_col", "table", "first_col", V_BOOL[:6], metric="truthy")
    _op("table.last_col", "table", "last_col", V_BOOL[:6], metric="truthy")
    _op("table.vert_banding", "table", "vert_banding", V_BOOL[:6], metric="truthy")
    _op("presentation.slide_width", "prs", "slide_width", _int_range(914400, 51206400) + [L("Inches", 10)],
        bounds=[(914400, 51206400)])
    # charts
    _op("axis.maximum_scale", "chart:value_axis", "maximum_scale", V_DOUBLE, pre=(None, 10.0))
    _op("axis.minimum_scale", "chart:value_axis", "minimum_scale", V_DOUBLE[:8] + [None, "x", math.nan])
    au = [1, 1.0, 0.5, 1e-300, 5e-324, 1e300, 0, 0.0, -0.0, -1, -1e-300, True, None] + V_WRONG + V_NONFIN
    _op("axis.major_unit", "chart:value_axis", "major_unit", au, pre=(None, 2.0), bounds=[(0, 1e308)], q=5e-324)
    _op("axis.crosses", "chart:value_axis", "crosses", _all_members("chart", "XL_AXIS_CROSSES") + V_ENUMX,
        pre=(None, Mb("chart", "XL_AXIS_CROSSES", "MAXIMUM")))
    _op("axis.crosses_at", "chart:value_axis", "crosses_at", V_DOUBLE[:6] + [None, "x", math.nan, math.inf],
        pre=(None, 2.0))
    _op("axis.major_tick_mark", "chart:value_axis", "major_tick_mark", _all_members("chart", "XL_TICK_MARK") + V_ENUMX)
    _op("axis.tick_label_position", "chart:category_axis", "tick_label_position",
        _all_members("chart", "XL_TICK_LABEL_POSITION") + V_ENUMX, pre=(None, Mb("chart", "XL_TICK_LABEL_POSITION", "LOW")))
    _op("axis.visible", "chart:value_axis", "visible", V_BOOL)
    _op("axis.reverse_order", "chart:value_axis", "reverse_order", V_BOOL[:6], metric="truthy")
    _op("axis.tick_labels.offset", "chart:category_axis", "tick_labels.offset", _int_range(0, 1000), pre=(None, 50),
        bounds=[(0, 1000)])
    _op("axis.tick_labels.number_format", "chart:value_axis", "tick_labels.number_format",
        ["0.00", "General", "", '#,##0 "x"', "é", None, 5, True, b"0"], pre=(None, "0.0"))
    _op("axis.tick_labels.font.size", "chart:value_axis", "tick_labels.font.size", fs[:12] + ["x", math.nan],
        ("abs", 127), bounds=[(12700, 50800000)], q=127)
    _op("plot.gap_width", "chart:plots[0]", "gap_width", _int_range(0, 500), pre=(None, 50), bounds=[(0, 500)])
    _op("plot.overlap", "chart:plots[0]", "overlap", _int_range(-100, 100), pre=(None, 50), bounds=[(-100, 100)])
    _op("plot.vary_by_categories", "chart:plots[0]", "vary_by_categories", V_BOOL, metric="truthy")
    _op("plot.bubble_scale", "bubblechart:plots[0]", "bubble_scale", _int_range(0, 300), pre=(None, 50),
        bounds=[(0, 300)])
    _op("chart.chart_style", "chart", "chart_style", _int_range(1, 48), pre=(None, 10), bounds=[(1, 48)])
    _op("chart.has_legend", "chart", "has_legend", V_BOOL[:6], metric="truthy")
    _op("chart.font.size", "chart", "font.size", fs[:12], ("abs", 127), bounds=[(12700, 50800000)], q=127)
    _op("legend.position", "chart:legend", "position", _all_members("chart", "XL_LEGEND_POSITION") + V_ENUMX,
        pre=(None, Mb("chart", "XL_LEGEND_POSITION", "TOP")))
    _op("legend.horz_offset", "chart:legend", "horz_offset", [0, 0.0, 0.5, -0.5, 1, -1, 1.0000001, -1.1, 2, True, None,
                                                               "x", math.nan, math.inf], pre=(None, 0.25),
        bounds=[(-1, 1)], q=1e-9)
    _op("legend.include_in_layout", "chart:legend", "include_in_layout", V_BOOL[:7], metric="truthy")
    _op("marker.size", "linechart:plots[0].series[0].marker", "size", _int_range(2, 72), pre=(None, 10),
        bounds=[(2, 72)])
    _op("marker.style", "linechart:plots[0].series[0].marker", "style", _all_members("chart", "XL_MARKER_STYLE")
        + V_ENUMX, pre=(None, Mb("chart", "XL_MARKER_STYLE", "CIRCLE")))
    _op("series.smooth", "linechart:plots[0].series[0]", "smooth", V_BOOL[:7], metric="truthy")
    _op("series.invert_if_negative", "chart:plots[0].series[0]", "invert_if_negative", V_BOOL[:7], metric="truthy")
    _op("data_labels.position", "chart:plots[0].data_labels", "position",
        _all_members("chart", "XL_DATA_LABEL_POSITION") + V_ENUMX, pre=(None, Mb("chart", "XL_DATA_LABEL_POSITION", "CENTER")))
    _op("data_labels.number_format", "chart:plots[0].data_labels", "number_format",
        ["0.00", "General", "", "é", None, 5, True], pre=(None, "0.0"))
    _op("data_labels.show_value", "chart:plots[0].data_labels", "show_value", V_BOOL[:7], metric="truthy")
    _op("data_labels.number_format_is_linked", "chart:plots[0].data_labels", "number_format_is_linked", V_BOOL[:7],
        metric="truthy")


_PATH_RX = re.compile(r"([A-Za-z_]+)(?:\[(\d+)\]|\(([\d,]+)\))?")


def _walk(obj, path):
    """'a.b[0].c(0,0)' -> object"""
    for part in path.split("."):
        m = _PATH_RX.fullmatch(part)
        obj = getattr(obj, m.group(1))
        if m.group(2) is not None:
            obj = obj[int(m.group(2))]
        elif m.group(3) is not None:
            obj = obj(*[int(x) for x in m.group(3).split(",")])
    return obj


def _context(name):
    """-> (object the attribute path starts at, root element of the part)"""
    from pptx import Presentation
    from pptx.chart.data import BubbleChartData, CategoryChartData
    from pptx.enum.chart import XL_CHART_TYPE
    from pptx.enum.shapes import MSO_CONNECTOR, MSO_SHAPE
    from pptx.dml.color import RGBColor
    from vlib.core import REPO

    prs = Presentation()
    if name == "prs":
        return prs, prs._element
    if name == "placeholder":
        slide = prs.slides.add_slide(prs.slide_layouts[1])
        return slide.placeholders[1], slide._element
    slide = prs.slides.add_slide(prs.slide_layouts[6])
    root = slide._element
    kind, _, sub = name.partition(":")
    if kind in ("chart", "linechart", "bubblechart"):
        if kind == "bubblechart":
            cd = BubbleChartData()
            s = cd.add_series("s")
            s.add_data_point(1, 2, 3)
            s.add_data_point(2, 3, 4)
            ct = XL_CHART_TYPE.BUBBLE
        else:
            cd = CategoryChartData()
            cd.categories = ["a", "b"]
            cd.add_series("s", (1, -2))
            ct = XL_CHART_TYPE.LINE_MARKERS if kind == "linechart" else XL_CHART_TYPE.COLUMN_CLUSTERED
        chart = slide.shapes.add_chart(ct, 0, 0, 3000000, 2000000, cd).chart
        if sub.startswith("legend"):
            chart.has_legend = True
        if "data_labels" in sub:
            chart.plots[0].has_data_labels = True
        obj = _walk(chart, sub) if sub else chart
        return obj, chart._chartSpace
    if name == "picture":
        return slide.shapes.add_picture(REPO + "/tests/test_files/python-icon.jpeg", 0, 0), root
    if name == "table":
        return slide.shapes.add_table(2, 2, 0, 0, 2000000, 1000000).table, root
    if name == "connector":
        return slide.shapes.add_connector(MSO_CONNECTOR.STRAIGHT, 100, 100, 5000, 5000), root
    sp = slide.shapes.add_shape(MSO_SHAPE.RECTANGLE, 100000, 100000, 1000000, 1000000)
    if name == "shape":
        return sp, root
    if name == "line":
        return sp.line, root
    if name == "tf":
        return sp.text_frame, root
    if name == "para":
        return sp.text_frame.paragraphs[0], root
    if name == "run":
        r = sp.text_frame.paragraphs[0].add_run()
        r.text = "x"
        return r.font, root
    fill = sp.fill
    if name == "gradfill":
        fill.gradient()
    elif name == "solidfill":
        fill.solid()
    elif name == "rgbfill":
        fill.solid()
        fill.fore_color.rgb = RGBColor(0x10, 0x80, 0xC0)
    elif name == "pattfill":
        fill.patterned()
    else:
        raise ValueError(name)
    return fill, root


def _leafless(root):
    """serialisation without (maximal) empty attribute-less text-less subtrees + multiset of the removed tags"""
    r = etree.fromstring(etree.tostring(root))
    leaves = collections.Counter()
    changed = True
    while changed:
        changed = False
        for el in list(r.iter()):
            if not isinstance(el.tag, str) or el is r or el.getparent() is None:
                continue
            if len(el) == 0 and not el.attrib and not (el.text or "").strip():
                leaves[el.tag] += 1
                par = el.getparent()
                tail = el.tail
                prev = el.getprevious()
                par.remove(el)
                if tail and tail.strip():
                    if prev is not None:
                        prev.tail = (prev.tail or "") + tail
                    else:
                        par.text = (par.text or "") + tail
                changed = True
    return etree.tostring(r), leaves


def _attr_triples(xml):
    c = collections.Counter()
    for el in etree.fromstring(xml).iter():
        if isinstance(el.tag, str):
            for a, v in el.attrib.items():
                c[(el.tag, a, v)] += 1
    return c


def _api_setattr(obj, path, v):
    head, _, last = path.rpartition(".")
    tgt = _walk(obj, head) if head else obj
    setattr(tgt, last, v)


def _api_getattr(obj, path):
    return _walk(obj, path)


def check_api(case):
    _build_ops()
    op = API_OPS.get(case["op"])
    if op is None:
        return {"outcome": "op-gone"}
    v = M.dec(case["v"])
    vc = _kv(None, case["v"])
    name = case["op"]
    obj, root = _context(op["ctx"])
    pre = case.get("pre")
    if pre is not None:
        pre_attr = op["attr"]
        if isinstance(pre, dict) and pre.get("t") == "rgb" and not pre_attr.endswith("rgb"):
            pre_attr = pre_attr.rpartition(".")[0] + ".rgb"  # colour ops: start from an RGB colour
        _api_setattr(obj, pre_attr, M.dec(pre))
    # resolve the target object before the snapshot (accessors like .font create containers)
    head, _, last = op["attr"].rpartition(".")
    try:
        tgt = _walk(obj, head) if head else obj
    except Exception:
        return {"outcome": "ctx-n/a"}
    before_xml = etree.tostring(root)
    desc = "%s = %r%s" % (name, v, "" if pre is None else " (after = %r)" % (M.dec(pre),))
    try:
        setattr(tgt, last, v)
        exc = None
    except Exception as e:  # noqa
        exc = e
    after_xml = etree.tostring(root)
    if exc is not None:
        if not isinstance(exc, (TypeError, ValueError)):
            if not (isinstance(exc, OverflowError) and _overflow_ok(v)):
                raise Violation("C11:api=%s:rejected-with=%s:value=%s" % (name, type(exc).__name__, vc),
                                "%s raised %s: %s (TypeError/ValueError required)"
                                % (desc, type(exc).__name__, str(exc)[:120]))
        if after_xml != before_xml:
            b0, l0 = _leafless(etree.fromstring(before_xml))
            b1, l1 = _leafless(etree.fromstring(after_xml))
            new_err = (XO.errors(after_xml) or set()) - (XO.errors(before_xml) or set())
            if b0 != b1 or any(l1[t] < n for t, n in l0.items()) or new_err:
                raise Violation("C11:api=%s:rejected-but-written" % name,
                                "%s raised %s but the XML changed: %s%s" % (desc, type(exc).__name__,
                                                                             _diff(before_xml, after_xml),
                                                                             "; new schema errors: %s" % sorted(new_err)[:2] if new_err else ""))
            return {"outcome": "rejected-left-empty-element"}
        return {"outcome": "rejected"}
    # an accepted value is written in a form the schema can represent: that includes writing the attribute at all
    # where the schema requires it (a value equal to an invented default must not simply be left out)
    if after_xml != before_xml:
        new_err = (XO.errors(after_xml) or set()) - (XO.errors(before_xml) or set())
        miss = sorted(e for e in new_err if "required but missing" in e or e.startswith("attr-missing"))
        if miss:
            raise Violation("C11:api=%s:accepted-but-required-attribute-missing" % name,
                            "%s was accepted and left %s | %s" % (desc, miss[:2], _diff(before_xml, after_xml)))
    # every attribute value that is new in the part must be valid for the type the schema declares for it
    w = M.world()
    new_attrs = _attr_triples(after_xml) - _attr_triples(before_xml)
    for (tag, an, val) in sorted(new_attrs):
        qn = etree.QName(tag)
        tys = M.attr_types(qn.namespace, qn.localname, an)
        if not tys:
            continue
        b = w["by_attr"].get((qn.namespace, qn.localname, an))
        if b is not None and b["sname"] in M.UNVALIDATED:
            continue
        ok = M.valid_written(b, val) if b is not None else M.valid_any(tys, val)
        if not ok:
            lc = M.lex_class(w["S"], tys, val)
            kt = _keytype(b, lc) if b is not None else "type=%s" % tys[0][1]
            raise Violation("C11:written-invalid:%s:value=%s:lexical=%s" % (kt, _kv(b, case["v"]), lc),
                            "%s was accepted and wrote %s/@%s=%r, not a valid %s | %s"
                            % (desc, qn.localname, etree.QName(an).localname if an.startswith("{") else an, val,
                               "|".join(t[1] for t in tys), _diff(before_xml, after_xml)))
    metric = op["metric"]
    if metric == "skip" or v is None or M.vclass(case["v"]) == "nonfinite":
        return {"outcome": "accepted"}
    try:
        back = getattr(tgt, last)
    except Exception as e:
        raise Violation("C11:api=%s:roundtrip-raises" % name, "%s then reading raised %r" % (desc, e))
    if not _api_same(metric, v, back):
        raise Violation("C11:api=%s:roundtrip:value=%s" % (name, vc), "%s reads back %r" % (desc, back))
    # "every schema-valid lexical form met in a document can be read": an xsd:boolean the setter wrote as 1 / 0 is
    # respelled true / false in place (as other producers write it) and read again through the same getter
    for (tag, an, val) in sorted(new_attrs):
        if val not in ("1", "0"):
            continue
        qn = etree.QName(tag)
        tys = M.attr_types(qn.namespace, qn.localname, an)
        if not tys or any(t[1] != "boolean" for t in tys):
            continue
        hit = [el for el in root.iter(tag) if el.get(an) == val]
        if len(hit) != 1:
            continue
        hit[0].set(an, "true" if val == "1" else "false")
        try:
            again = getattr(tgt, last)
        except Exception as e:
            raise Violation("C11:api=%s:lexical-alternative-raises" % name,
                            "%s; with %s/@%s respelled %r the getter raised %r" % (desc, qn.localname, an, hit[0].get(an), e))
        finally:
            hit[0].set(an, val)
        if again != back:
            raise Violation("C11:api=%s:lexical-alternative-misread" % name,
                            "%s reads %r; with %s/@%s respelled %r (same xsd:boolean value) it reads %r"
                            % (desc, back, qn.localname, an, "true" if val == "1" else "false", again))
    return {"outcome": "accepted"}


def _api_same(metric, v, back):
    try:
        if metric == "truthy":
            return bool(back) == bool(v)
        if metric == "underline":
            # Font.underline docstring: True / False stand for SINGLE_LINE / NONE and are what those two read as
            name = getattr(v, "name", None)
            if name is None and not isinstance(v, bool):
                return back == v   # a plain integer that the enumeration accepts: any equal reading will do
            if name is not None and type(v).__name__ != "MSO_TEXT_UNDERLINE_TYPE":
                return int(back) == int(v)   # a member of another enumeration, taken by its integer value
            exp = True if (v is True or name == "SINGLE_LINE") else False if (v is False or name == "NONE") else v
            return type(back) is type(exp) and back == exp
        if metric == "exact":
            if hasattr(v, "xml_value") and hasattr(back, "xml_value") and type(back) is not type(v):
                # a member of another enumeration was assigned and taken by its integer value: the reading is the
                # attribute's own member of that value (what was written is judged by the token check above)
                return int(back) == int(v)
            if back == v:
                return True
            if isinstance(v, (int, float)) and isinstance(back, (int, float)):
                return float(back) == float(v)  # double-valued attributes: ints beyond 2**53 round
            return False
        kind, q = metric
        if hasattr(v, "xml_value") or isinstance(v, str) and not isinstance(back, str):
            return back == v or float(back) == float(v)
        fv, fb = float(v), float(back)
        if kind == "spacing":
            # line_spacing: a Length is a fixed height and reads back as a Length (1/100 pt); any other number is a
            # number of lines and reads back as a plain number (1/100000)
            from pptx.util import Length
            if isinstance(v, Length) != isinstance(back, Length):
                return False
            tol = q * (1 + 1e-6) if isinstance(v, Length) else 1e-5 * (1 + 1e-6)
            return abs(fb - fv) <= tol + 4 * _ulp(fv)
        if kind == "abs":
            return abs(fb - fv) <= q * (1 + 1e-6) + 4 * _ulp(fv)
        if kind == "angle":
            tol = q * (1 + 1e-6) + 4 * _ulp(fv) + 4 * _ulp(fv * 60000) / 60000
            d = abs(math.fmod(fb - fv, 360.0))
            return min(d, 360.0 - d) <= tol
    except Exception:
        return False
    return False


def _diff(a, b):
    a, b = a.decode("utf-8", "replace"), b.decode("utf-8", "replace")
    i = 0
    n = min(len(a), len(b))
    while i < n and a[i] == b[i]:
        i += 1
    j = 0
    while j < n - i and a[-1 - j] == b[-1 - j]:
        j += 1
    s = max(0, i - 60)
    return "...%s[[%s => %s]]%s..." % (a[s:i], a[i:len(a) - j][:200], b[i:len(b) - j][:200], a[len(a) - j:][:40])


# ------------------------------------------------------------------------------- non-trivial rule

def _natural(kind, vc):
    if kind in ("int", "emu-centipoint"):
        return vc in ("int", "length")
    if kind in ("scaled", "angle", "float"):
        return vc in ("int", "float", "float-integral")
    if kind == "bool":
        return vc == "bool"
    if kind == "enum":
        return vc == "member"
    return vc == "str"


def _near_bound(b, spec):
    if not M.is_number_spec(spec) or spec != spec or abs(spec) == math.inf:
        return False
    kind = b["kind"]
    scale = M.SEM[b["sname"]][1] if b["sname"] in M.SEM else 1.0
    try:
        x = spec * scale
    except OverflowError:
        return False
    if abs(x) == math.inf:
        return False
    for lo, hi in M.bounds_for(b):
        for bd in (lo, hi):
            if bd is not None and abs(x - bd) <= 1.5:
                return True
    if kind == "angle":
        r = math.fmod(x, M.FULL_TURN)
        if min(abs(r), abs(abs(r) - M.FULL_TURN)) <= 1.5:
            return True
    if kind in ("scaled", "angle") and abs(x) < 2 ** 52:
        fr = abs(x - math.floor(x) - 0.5)
        if fr <= 1e-6:
            return True
    return False


def set_nontrivial(b, spec):
    return (not _natural(b["kind"], M.vclass(spec))) or _near_bound(b, spec)


CANON_FORMS = ("int", "enum-token", "string", "token", "bool-digit", "hex-upper")


# ------------------------------------------------------------------------------- case enumeration

def _pairs():
    """one representative binding per (simple type, XSD types)"""
    out = collections.OrderedDict()
    for bid, b in M.world()["bindings"].items():
        out.setdefault((b["sname"], tuple(b["xsd"])), bid)
    return out


def _rw_lexicals(b):
    out = []
    for t in b["xsd"]:
        out += [l[0] for l in M.lexicals(t) if l[1] in ("int", "double")]
    if b["kind"] in ("scaled", "angle", "emu-centipoint"):
        for lo, hi in M.bounds_for(b):
            lo = -10 ** 7 if lo is None else max(lo, -10 ** 7)
            hi = 10 ** 7 if hi is None else min(hi, 10 ** 7 if b["kind"] != "angle" else M.FULL_TURN)
            step = max(1, (hi - lo) // 96)
            out += [str(k) for k in range(lo, hi + 1, step)]
            out += [str(k) for k in (7, 13, 29, 57, 1001, 28999, 32300, 57000, 99999, 115000) if lo <= k <= hi]
    if b["kind"] != "float":
        out = [x for x in out if _in_bounds(b, int(x))]  # not the integers valid only as ST_AdjCoordinate guide names
    seen = set()
    return [x for x in out if not (x in seen or seen.add(x))]


def enum_cases():
    """deterministic list of all enumerated cases (layer 1 + unbound + layer 2)"""
    w = M.world()
    cases = []
    for bid, b in w["bindings"].items():
        pre = _pre_lexical(b)
        for spec in M.values_for(b):
            cases.append({"k": "set", "b": bid, "v": spec, "pre": None})
            if pre is not None:
                cases.append({"k": "set", "b": bid, "v": spec, "pre": pre})
        if b["kind"] == "enum":
            toks = []
            for t in b["xsd"]:
                toks += [l[0] for l in M.lexicals(t) if l[1] == "enum-token"]
            if toks:
                cases.append({"k": "readgroup", "b": bid, "form": "enum-token", "lexs": toks})
            elif b["xsd"][0][1] == "ST_Lang":
                cases.append({"k": "readgroup", "b": bid, "form": "lang-tag", "lexs": list(M.LANG_TAGS)})
            continue
        if b["kind"] in NUMERIC_KINDS:
            for lx in _rw_lexicals(b):
                cases.append({"k": "rw", "b": bid, "lex": lx})
        for t in b["xsd"]:
            for lx, form, canon, expect in M.lexicals(t):
                c = {"k": "read", "b": bid, "lex": lx, "form": form}
                if canon is not None:
                    c["canon"] = canon
                if expect is not None:
                    c["expect"] = expect
                cases.append(c)
    for name, b in unbound_types().items():
        for spec in M.values_for(b):
            cases.append({"k": "tset", "t": name, "v": spec})
        for lx, form, canon, _e in M.lexicals(b["xsd"][0]):
            c = {"k": "tread", "t": name, "lex": lx, "form": form}
            if canon is not None:
                c["canon"] = canon
            cases.append(c)
    _build_ops()
    for name, op in API_OPS.items():
        for pre in op["pre"]:
            for spec in op["values"]:
                cases.append({"k": "api", "op": name, "v": spec, "pre": pre})
    return cases


def run_case(case):
    k = case["k"]
    if k == "set":
        return check_set(case)
    if k == "read":
        return check_read(case)
    if k == "readgroup":
        return check_read_group(case)
    if k == "rw":
        return check_rw(case)
    if k == "tset":
        return check_tset(case)
    if k == "tread":
        return check_tread(case)
    if k == "api":
        return check_api(case)
    raise ValueError(k)


def _note(rec, case, res):
    """coverage bookkeeping for one executed case"""
    w = M.world()
    k = case["k"]
    res = res or {"outcome": "violation"}
    oc = res.get("outcome", "?")
    if k in ("set", "tset"):
        b = w["bindings"].get(case.get("b")) if k == "set" else unbound_types().get(case["t"])
        if b is None:
            rec.discarded += 1
            return
        vc = M.vclass(case["v"])
        nt = set_nontrivial(b, case["v"])
        rec.note([b["sname"], [t[1] for t in b["xsd"]], case["v"]], nt,
                 classes=["%s:%s:%s:%s" % (k, b["kind"], vc, oc), "type:" + b["sname"]])
        if res.get("less"):
            rec.extra.setdefault("accepts_less", [])
            s = "%s rejects some ints that %s admits" % (b["sname"], "|".join(t[1] for t in b["xsd"]))
            if s not in rec.extra["accepts_less"]:
                rec.extra["accepts_less"].append(s)
    elif k in ("read", "tread"):
        b = w["bindings"].get(case.get("b")) if k == "read" else unbound_types().get(case["t"])
        if b is None or oc == "lexical-invalid":
            rec.discarded += 1
            return
        form = case.get("form") or M.classify_lexical(case["lex"])
        rec.note([b["sname"], [t[1] for t in b["xsd"]], "lex", case["lex"]], form not in CANON_FORMS,
                 classes=["read:%s:%s" % (form, oc), "type:" + b["sname"]])
    elif k == "rw":
        b = w["bindings"].get(case["b"])
        if b is None or oc in ("lexical-invalid", "unreadable", "non-numeric"):
            rec.discarded += 1
            return
        rec.note([b["sname"], [t[1] for t in b["xsd"]], "rw", case["lex"]], True, classes=["rw:%s" % oc])
        if oc == "reads-but-rejects":
            rec.extra.setdefault("accepts_less", [])
            s = "%s reads some valid %s integers it does not accept back" % (b["sname"], "|".join(t[1] for t in b["xsd"]))
            if s not in rec.extra["accepts_less"]:
                rec.extra["accepts_less"].append(s)
    elif k == "readgroup":
        b = w["bindings"].get(case["b"])
        if b is None:
            rec.discarded += 1
            return
        for lx in case["lexs"]:
            rec.note([b["sname"], [t[1] for t in b["xsd"]], "lex", lx], case["form"] != "enum-token",
                     classes=["read:%s:%s" % (case["form"], oc)])
        rec.cls("type:" + b["sname"])
    elif k == "api":
        op = API_OPS.get(case["op"])
        if op is None or oc in ("op-gone", "ctx-n/a"):
            rec.discarded += 1
            return
        vc = M.vclass(case["v"])
        nt = oc.startswith("rejected") or vc in ("none", "bool", "nonfinite") or _api_near(op, case["v"])
        rec.note(["api", case["op"], case["v"], case.get("pre")], nt,
                 classes=["api:%s" % oc, "api-op:" + case["op"]])


def _api_near(op, spec):
    v = spec
    if isinstance(spec, dict) and spec.get("t") == "length":
        try:
            v = int(M.dec(spec))
        except Exception:
            return False
    if not M.is_number_spec(v) or v != v or abs(v) == math.inf:
        return False
    for lo, hi in op["bounds"]:
        for bd in (lo, hi):
            if abs(v - bd) <= 1.5 * op["q"]:
                return True
    return False


# ------------------------------------------------------------------------------- Hypothesis strategies

def _num_strategy(b):
    from hypothesis import strategies as st

    kind = b["kind"]
    bds = M.bounds_for(b) or [(None, None)]
    scale = M.SEM[b["sname"]][1] if b["sname"] in M.SEM else 1.0
    anchors = [0, 1, -1]
    for lo, hi in bds:
        anchors += [x for x in (lo, hi) if x is not None]
    if kind == "angle":
        anchors += [M.FULL_TURN, -M.FULL_TURN, 2 * M.FULL_TURN, M.FULL_TURN // 2]
    anchor = st.sampled_from(sorted(set(anchors)))
    near_int = st.builds(lambda a, d: a + d, anchor, st.integers(-3, 3))
    wide_int = st.one_of(st.integers(-2 ** 33, 2 ** 33), st.integers(-2 ** 65, 2 ** 65), st.integers(-1000, 1000))
    if kind == "int":
        lo = min((x[0] for x in bds if x[0] is not None), default=-2 ** 31)
        hi = max((x[1] for x in bds if x[1] is not None), default=2 ** 31)
        return st.one_of(near_int, st.integers(lo, hi), wide_int,
                         st.builds(lambda a, d: float(a) + d, near_int, st.sampled_from([0.0, 0.5, -0.5, 1e-9])),
                         st.booleans())
    if kind == "emu-centipoint":
        return st.one_of(st.builds(lambda k, r: k * 127 + r, near_int, st.integers(-130, 130)),
                         st.integers(-1000, 20116800 + 1000), wide_int,
                         st.integers(0, 20116800).map(lambda v: {"t": "length", "cls": "Emu", "v": v}))
    if kind == "float":
        return st.one_of(st.floats(allow_nan=True, allow_infinity=True), st.floats(-1e6, 1e6),
                         st.floats(-1e-300, 1e-300), wide_int, st.booleans())

    def thr(k, d, u):
        x = (k + d) / scale
        for _ in range(abs(u)):
            x = math.nextafter(x, math.inf if u > 0 else -math.inf)
        return x

    threshold = st.builds(thr, near_int, st.sampled_from([-0.5, 0.0, 0.5]), st.integers(-3, 3))
    any_thr = st.builds(thr, st.integers(-10 ** 7, 10 ** 7) if kind != "angle" else st.integers(-3 * M.FULL_TURN, 3 * M.FULL_TURN),
                        st.sampled_from([-0.5, 0.5]), st.integers(-2, 2))
    lo = min((x[0] for x in bds if x[0] is not None), default=-2 ** 31) / scale
    hi = max((x[1] for x in bds if x[1] is not None), default=2 ** 31) / scale
    inside = st.floats(min(lo, hi), max(lo, hi))
    parts = [threshold, threshold, any_thr, inside, st.floats(allow_nan=True, allow_infinity=True),
             st.floats(-1e-4, 1e-4), wide_int, st.integers(-400, 400), st.booleans()]
    if kind == "angle":
        parts += [st.floats(-1080.0, 1080.0), st.builds(lambda n, e: 360.0 * n + e, st.integers(-3, 3), st.floats(-1e-4, 1e-4))]
    return st.one_of(*parts)


def _lex_strategy(b):
    """schema-shaped lexical strings for the reader (validity is decided by libxml2 in check_read)"""
    from hypothesis import strategies as st

    S = M.world()["S"]
    parts = []
    interesting = False  # integer-only types are covered by the enumeration
    for t in b["xsd"]:
        for f in M._members(S.facets(t)):
            p = M.prim_of(f)
            if p in ("double", "float") or (p in M.STR_PRIMS and f.get("patterns")):
                interesting = True
            if p in M.INT_PRIMS:
                bd = M.int_bounds(S, t)
                lo = bd[0] if bd[0] is not None else -10 ** 20
                hi = bd[1] if bd[1] is not None else 10 ** 20
                n = st.one_of(st.integers(lo, hi), st.integers(lo, min(hi, lo + 1000)), st.integers(max(lo, hi - 1000), hi))
                parts.append(st.builds(lambda k, z, plus: ("-" if k < 0 else "+" if plus else "") + "0" * z + str(abs(k)),
                                       n, st.integers(0, 3), st.booleans()))
            elif p in ("double", "float"):
                parts.append(st.floats(allow_nan=False, allow_infinity=False).map(repr))
                parts.append(st.from_regex(r"[+-]?([0-9]{1,6}(\.[0-9]{0,6})?|\.[0-9]{1,6})([eE][+-]?[0-9]{1,2})?", fullmatch=True))
                parts.append(st.sampled_from(["INF", "-INF", "NaN"]))
            elif p in M.STR_PRIMS:
                for pat in (f.get("patterns") or [])[-1:]:
                    if "\\p{" in pat:
                        continue
                    try:
                        parts.append(st.from_regex(re.compile(pat, re.ASCII), fullmatch=True))
                    except re.error:
                        pass
    if not parts or not interesting:
        return None
    return st.one_of(*parts)


API_HYP = {
    "fill.gradient_angle": "angle", "shape.rotation": "angle", "picture.crop_left": "pct",
    "fill.fore_color.brightness": "unit", "para.line_spacing": "spacing", "fill.gradient_stop.position": "unit01",
}


def _api_strategy(kind):
    from hypothesis import strategies as st

    def thr(scale):
        def f(k, d, u):
            x = (k + d) / scale
            for _ in range(abs(u)):
                x = math.nextafter(x, math.inf if u > 0 else -math.inf)
            return x
        return f

    if kind == "angle":
        k = st.one_of(st.integers(-3, 3), st.integers(M.FULL_TURN - 3, M.FULL_TURN + 3), st.integers(-M.FULL_TURN - 3, -M.FULL_TURN + 3),
                      st.integers(-3 * M.FULL_TURN, 3 * M.FULL_TURN))
        return st.one_of(st.builds(thr(60000.0), k, st.sampled_from([-0.5, 0.0, 0.5]), st.integers(-2, 2)),
                         st.floats(-1080, 1080), st.floats(-1e-4, 1e-4), st.floats(allow_nan=True, allow_infinity=True))
    if kind == "pct":
        k = st.one_of(st.integers(-3, 3), st.integers(2 ** 31 - 4, 2 ** 31 + 3), st.integers(-2 ** 31 - 3, -2 ** 31 + 4),
                      st.integers(-10 ** 6, 10 ** 6))
        return st.one_of(st.builds(thr(100000.0), k, st.sampled_from([-0.5, 0.0, 0.5]), st.integers(-2, 2)),
                         st.floats(-2, 2), st.floats(allow_nan=True, allow_infinity=True))
    if kind in ("unit", "unit01"):
        k = st.one_of(st.integers(-3, 3), st.integers(100000 - 3, 100000 + 3), st.integers(-100000 - 3, -100000 + 3),
                      st.integers(-100000, 100000))
        return st.one_of(st.builds(thr(100000.0), k, st.sampled_from([-0.5, 0.0, 0.5]), st.integers(-2, 2)),
                         st.floats(-1.5, 1.5), st.floats(allow_nan=True, allow_infinity=True))
    if kind == "spacing":
        k = st.one_of(st.integers(-3, 3), st.integers(13200000 - 3, 13200000 + 3), st.integers(0, 13200000))
        return st.one_of(st.builds(thr(100000.0), k, st.sampled_from([-0.5, 0.0, 0.5]), st.integers(-2, 2)),
                         st.floats(-1, 140), st.integers(-1000, 20116800 + 1000).map(lambda v: {"t": "length", "cls": "Emu", "v": v}))
    raise ValueError(kind)


# ------------------------------------------------------------------------------- jobs

NSH = 16
BATCH = 8


def jobs(tier):
    n = 50000 if tier == "thorough" else 2000
    return ([{"kind": "enum", "shard": i} for i in range(NSH)]
            + [{"kind": "hyp", "shard": i, "n": n} for i in range(NSH)])


def run_job(job, seed, tier, rec, known):
    if job["kind"] == "enum":
        cases = [c for i, c in enumerate(enum_cases()) if i % NSH == job["shard"]]

        def fn(case):
            res = None
            try:
                res = run_case(case)
            finally:
                _note(rec, case, res)

        rec.extra["bindings"] = len(M.world()["bindings"]) if job["shard"] == 0 else 0
        rec.extra["type_pairs"] = len(_pairs()) if job["shard"] == 0 else 0
        rec.extra["unbound_classes"] = len(unbound_types()) if job["shard"] == 0 else 0
        return run_plain(fn, cases, rec=rec, known=known)

    from hypothesis import strategies as st

    w = M.world()
    n = job["n"]
    fails = []

    def search(mk_case, strat, sd, budget, batch=BATCH, **kw):
        """Hypothesis search over batches of `batch` values (amortises the per-example overhead);
        a failing batch is reduced to its first failing member for the replay file."""
        def fn(vals):
            for v in vals:
                case = mk_case(v)
                res = None
                try:
                    res = run_case(case)
                except Violation as viol:
                    if viol.key not in known:
                        raise
                    rec.known[viol.key] += 1  # keep going: the rest of the batch lies behind a listed finding
                finally:
                    _note(rec, case, res)

        bs = st.tuples(*([strat] * batch))
        for f in hyp_search(fn, bs, seed=sd, max_examples=max(4, budget // batch), rec=rec, known=known, **kw):
            single = None
            for v in core_from_jsonable(f["case"]):
                got = collect(run_case, mk_case(v))
                if got and got[0]["key"] == f["key"]:
                    single = got[0]
                    break
            fails.append(single or {"key": f["key"], "message": f["message"], "case": mk_case(f["case"][0])})

    pairs = list(_pairs().values())
    for j, bid in enumerate(pairs):
        b = w["bindings"][bid]
        if b["kind"] in NUMERIC_KINDS:
            budget = n if b["kind"] in ("scaled", "angle", "float") else max(40, n // 20)
            pre = _pre_lexical(b)
            strat = st.tuples(_num_strategy(b), st.sampled_from([None, pre]))
            search(lambda c, bid=bid: {"k": "set", "b": bid, "v": c[0], "pre": c[1]}, strat, seed * 131 + j, budget)
        if b["kind"] in ("scaled", "angle", "emu-centipoint"):
            bd = M.bounds_for(b)[0]
            lo = bd[0] if bd[0] is not None else -2 ** 31
            hi = bd[1] if bd[1] is not None else 2 ** 31 - 1
            ks = st.one_of(st.integers(lo, hi), st.integers(max(lo, -200000), min(hi, 200000))).map(str)
            search(lambda lx, bid=bid: {"k": "rw", "b": bid, "lex": lx}, ks, seed * 151 + j, max(40, n // 2))
        ls = _lex_strategy(b) if b["kind"] != "enum" else None
        if ls is not None:
            search(lambda lx, bid=bid: {"k": "read", "b": bid, "lex": lx}, ls, seed * 137 + j, max(40, n // 10))
    for j, (name, b) in enumerate(unbound_types().items()):
        if b["kind"] in NUMERIC_KINDS and hasattr(b["cls"], "convert_to_xml"):
            search(lambda v, name=name: {"k": "tset", "t": name, "v": v}, _num_strategy(b), seed * 139 + j, max(40, n // 20))
    _build_ops()
    for j, (name, kind) in enumerate(sorted(API_HYP.items())):
        op = API_OPS[name]
        strat = st.tuples(_api_strategy(kind), st.sampled_from(op["pre"]))
        search(lambda c, name=name: {"k": "api", "op": name, "v": c[0], "pre": c[1]}, strat, seed * 149 + j,
               max(24, n // 40), batch=4, shrink_budget=40)
    return fails


def replay(case):
    return collect(run_case, case)
