"""C13 — a new slide mirrors its layout's placeholders and inherits their geometry.

Inputs: (a) every slide layout of every master of every corpus deck; (b) the default template
with 1-3 slide-layout parts (optionally the slide master, optionally an added notes master)
rewritten in memory with a generated placeholder population (vlib/c13_model.build_deck);
both driven by short generated operation sequences that interleave `add_slide` with other edits.

Oracle (vlib/c13_model): the layout / master / notes-master / slide XML is re-parsed from the part
blobs with plain lxml; expected placeholders = the layout's direct shape-tree placeholders whose
type is not dt/ftr/sldNum, in document order, with the effective (schema-default-filled) type, idx,
orient and sz; expected geometry = own a:off/a:ext of the layout placeholder having that idx, else
of the master placeholder of the mapped type (title/ctrTitle->title, dt, ftr, sldNum -> same,
everything else -> body).  Actual values come from the python-pptx API (slide.shapes,
slide.placeholders, placeholder_format, left/top/width/height, prs.slides, slide_layout).
"""
import io
import os

from hypothesis import strategies as st

from vlib import c13_model as M
from vlib import corpus, opcmodel
from vlib.core import REPO, HarnessError, Rec, Violation, collect, hyp_search, run_plain, sut

PROPERTY = "C13"
LEVEL = "exploration"
EXHAUSTIVE = False
RULE = (
    "case = (deck, op sequence). Decks: every corpus deck (all layouts of all masters added once, "
    "plus generated op sequences) and the default template with 1-3 layout parts / the master / a "
    "notes master rewritten with Hypothesis-generated shape populations (14 layout-legal "
    "placeholder types, duplicate types, missing type/idx/sz/orient, orient=vert, own a:xfrm "
    "full / a:off only / a:ext only / empty / absent, master with or without a placeholder of "
    "the mapped type, non-placeholder shapes and groups in between). Ops: add(layout), "
    "shape(slide,kind), rename(slide,shape -> collision-prone name), clone_into(slide, layout "
    "placeholder), notes(slide), reopen (save + independent zip read + re-open), "
    "override(slide,ph,x,y,cx,cy), text, slidename. A case is non-trivial when at least one of its "
    "add ops used a layout that has a latent (dt/ftr/sldNum) placeholder, a duplicate placeholder "
    "type, or a placeholder without its own complete a:xfrm; distinct = distinct hash of "
    "(deck spec, op list). 5 fixed directed cases run first in every tier.")
ASSUMPTIONS = [
    "only placeholders that are direct children of p:spTree are considered; layouts with a p:ph "
    "nested in a group (none in the corpus, none generated) are counted (class lay:nested-ph) and "
    "excluded from the mirror clause",
    "p:ph attribute values are compared as effective values (absent == schema default: type=obj, "
    "orient=horz, sz=full, idx=0)",
    "when a layout uses one idx for several placeholders (ill-formed; the slide->layout link is "
    "by idx) the geometry of any layout placeholder with that idx is accepted; likewise any "
    "master placeholder of the mapped type when the master has several",
    "an a:xfrm lacking a:off or a:ext: for the missing half both 'inherited from the next level' "
    "and None are accepted",
    "name uniqueness is asserted within the new slide (all shapes of that slide), and for "
    "shapes.clone_placeholder() on an existing slide against all names already on that slide "
    "(docstring of _next_ph_name); this second use is the only way the uniqueness loop is "
    "reachable, since ids on a fresh slide increase monotonically",
    "layout placeholder types outside the 14 slide-layout-legal ones (hdr, sldImg) are not "
    "generated; on corpus layouts they would be skipped for the geometry clause",
    "corpus decks that python-pptx cannot open are skipped (C01/C16 own that)",
]

SHAPE_KINDS = ["textbox", "autoshape", "table", "connector", "group"]
# names PowerPoint gives placeholders; used only to make rename ops collide with future names
_BASENAME = {
    "title": "Title", "ctrTitle": "Title", "subTitle": "Subtitle", "body": "Text Placeholder",
    "obj": "Content Placeholder", "chart": "Chart Placeholder", "tbl": "Table Placeholder",
    "clipArt": "ClipArt Placeholder", "dgm": "SmartArt Placeholder", "media": "Media Placeholder",
    "pic": "Picture Placeholder", "dt": "Date Placeholder", "ftr": "Footer Placeholder",
    "sldNum": "Slide Number Placeholder", "hdr": "Header Placeholder",
    "sldImg": "Slide Image Placeholder",
}
RT_LAYOUT, RT_NOTES_MASTER = M.RT_LAYOUT, M.RT_NOTES_MASTER


# ------------------------------------------------------------------ small helpers

def _token(shape):
    """XML token of the placeholder type reported by the API for `shape`."""
    t = shape.placeholder_format.type
    return M.ENUM_NAME_TO_TOKEN.get(getattr(t, "name", None), "?%r" % (t,))


def _geom(shape):
    def n(v):
        return None if v is None else int(v)
    return (n(shape.left), n(shape.top), n(shape.width), n(shape.height))


def _rels_summary(part):
    out = []
    for rid, rel in part.rels.items():
        if rel.is_external:
            out.append((rid, rel.reltype, "ext", rel.target_ref))
        else:
            out.append((rid, rel.reltype, "int", str(rel.target_part.partname)))
    return sorted(out)


def _ph_shapes(shapes):
    return [s for s in shapes if s.is_placeholder]


def _mirror_compare(prefix, expected, got, dropped_types):
    """expected / got: lists of M.Ph. Raises Violation naming the first difference."""
    ek, gk = [p.key() for p in expected], [p.key() for p in got]
    if ek == gk:
        return
    et, gt = [p.type for p in expected], [p.type for p in got]
    extra = [t for t in gt if t in dropped_types]
    if extra:
        raise Violation("%s:latent-cloned=%s" % (prefix, extra[0]),
                        "expected types %r, new part has %r" % (et, gt))
    if len(ek) != len(gk):
        raise Violation("%s:count" % prefix, "expected %d placeholders %r, got %d %r"
                        % (len(et), et, len(gt), gt))
    if sorted(ek) == sorted(gk):
        raise Violation("%s:order" % prefix, "expected (type, idx, orient, sz) in order %r, got %r"
                        % (ek, gk))
    if et != gt:
        raise Violation("%s:type" % prefix, "expected types %r, got %r" % (et, gt))
    for i, (e, g) in enumerate(zip(expected, got)):
        for attr in ("idx", "orient", "sz"):
            if getattr(e, attr) != getattr(g, attr):
                raise Violation("%s:%s" % (prefix, attr),
                                "placeholder #%d type=%s: source has %s=%r, clone has %r (source ph %r)"
                                % (i, e.type, attr, getattr(e, attr), getattr(g, attr), e.raw))
    raise HarnessError("unreachable: keys differ but no attribute does")


class _Stats(object):
    def __init__(self):
        self.nt = False
        self.classes = []
        self.discarded = 0


# ------------------------------------------------------------------ interpreter

class Run(object):
    def __init__(self, prs, stats):
        self.prs = prs
        self.stats = stats
        self.model = []          # one dict per slide added in this run
        self.n0 = len(prs.slides)

    # -- access ------------------------------------------------------------
    def layouts(self):
        out = []
        for m in self.prs.slide_masters:
            out.extend(list(m.slide_layouts))
        return out

    def slides(self):
        return list(self.prs.slides)

    def model_of(self, pos):
        k = pos - self.n0
        return self.model[k] if 0 <= k < len(self.model) else None

    def snapshot(self):
        snap = []
        for s in self.prs.slides:
            snap.append((s.slide_id, s.part.blob, _rels_summary(s.part)))
        return snap

    def sld_ids(self):
        return M.sld_id_list(M.parse(self.prs.part.blob))

    # -- classification of a layout -----------------------------------------
    def classify(self, lay_phs, mas_phs, nested):
        c = []
        types = [p.type for p in lay_phs]
        nonlat = [p for p in lay_phs if p.type not in M.LATENT]
        latent = any(t in M.LATENT for t in types)
        dup_type = len(set(types)) < len(types)
        incomplete = any(None in p.own() for p in nonlat)
        if latent:
            c.append("lay:latent")
        if dup_type:
            c.append("lay:dup-type")
        if incomplete:
            c.append("lay:ph-without-own-xfrm")
        if any("type" not in p.raw for p in lay_phs):
            c.append("lay:missing-type")
        if any("idx" not in p.raw for p in lay_phs):
            c.append("lay:missing-idx")
        if any(p.orient == "vert" for p in lay_phs):
            c.append("lay:vert")
        if any(p.sz != "full" for p in nonlat):
            c.append("lay:sz-nonfull")
        idxs = [p.idx for p in lay_phs]
        if len(set(idxs)) < len(idxs):
            c.append("lay:dup-idx")
        if any(p.has_xfrm and None in p.own() for p in nonlat):
            c.append("lay:partial-xfrm")
        if not nonlat:
            c.append("lay:no-cloneable")
        if nested:
            c.append("lay:nested-ph")
        mtypes = set(m.type for m in mas_phs)
        for p in nonlat:
            c.append("type:%s" % p.type)
            if None in p.own() and not p.has_xfrm:
                c.append("geom:via-master" if M.MASTER_OF.get(p.type) in mtypes
                         else "geom:no-master-match")
        c.append("lay:n-cloneable=%s" % (len(nonlat) if len(nonlat) < 6 else "6+"))
        self.stats.classes.extend(c)
        if latent or dup_type or incomplete:
            self.stats.nt = True

    # -- ops ------------------------------------------------------------------
    def op_add(self, i):
        prs = self.prs
        layouts = self.layouts()
        if not layouts:
            self.stats.discarded += 1
            return None
        i %= len(layouts)
        layout = layouts[i]
        if not any(r.reltype == M.RT_MASTER for r in layout.part.rels.values()):
            # irregular package (layout part without its slideMaster relationship): out of domain
            self.stats.discarded += 1
            self.stats.classes.append("lay:no-master-rel(skipped)")
            return None
        slides_coll = prs.slides
        before = self.snapshot()
        ids_before = self.sld_ids()
        n = len(before)
        with sut("C13:add_slide"):
            slide = slides_coll.add_slide(layout)

        # ---- order ----
        with sut("C13:slides-access"):
            after_slides = list(prs.slides)
        if len(after_slides) != n + 1:
            raise Violation("C13:order:count", "%d slides before add_slide, %d after"
                            % (n, len(after_slides)))
        if after_slides[-1].part is not slide.part:
            pos = [k for k, s in enumerate(after_slides) if s.part is slide.part]
            raise Violation("C13:order:not-last", "new slide is at position %r of %d"
                            % (pos, n + 1))
        pnames = [str(x.part.partname) for x in after_slides]
        if len(set(pnames)) != len(pnames):
            raise Violation("C13:others-touched:partname", "after add_slide two slides share a part name: %r"
                            % ([p for p in pnames if pnames.count(p) > 1][:2],))
        ids_after = self.sld_ids()
        if ids_after[:-1] != ids_before or len(ids_after) != n + 1:
            raise Violation("C13:order:sldIdLst", "p:sldIdLst before %r after %r"
                            % (ids_before, ids_after))
        if ids_after[-1][0] in [x[0] for x in ids_before]:
            raise Violation("C13:order:duplicate-slide-id", "new p:sldId reuses id %s"
                            % ids_after[-1][0])
        rel = prs.part.rels.get(ids_after[-1][1])
        if rel is None or rel.is_external or rel.target_part is not slide.part:
            raise Violation("C13:order:last-sldId-target", "last p:sldId r:id=%s does not lead "
                            "to the new slide part" % ids_after[-1][1])
        # ---- related to the layout ----
        with sut("C13:slide_layout"):
            sl = slide.slide_layout
        if sl.part is not layout.part:
            raise Violation("C13:layout-rel:slide_layout", "slide_layout is %s, added from %s"
                            % (sl.part.partname, layout.part.partname))
        lrels = [r for r in slide.part.rels.values() if r.reltype == RT_LAYOUT]
        if len(lrels) != 1 or lrels[0].is_external or lrels[0].target_part is not layout.part:
            raise Violation("C13:layout-rel:rels", "new slide has %d slideLayout relationships"
                            % len(lrels))
        # ---- the other slides are untouched ----
        after = self.snapshot()[:n]
        for k, (b, a) in enumerate(zip(before, after)):
            if b != a:
                what = "id" if b[0] != a[0] else ("xml" if b[1] != a[1] else "rels")
                raise Violation("C13:others-touched:%s" % what,
                                "slide #%d changed (%s) when a slide was added" % (k, what))
        # ---- placeholders mirror the layout ----
        lay_root = M.parse(layout.part.blob)
        lay_phs = M.placeholders(lay_root)
        mas_phs = M.placeholders(M.parse(layout.slide_master.part.blob))
        nested = M.nested_placeholder_count(lay_root)
        self.classify(lay_phs, mas_phs, nested)
        expected = [p for p in lay_phs if p.type not in M.LATENT]
        sroot = M.parse(slide.part.blob)
        got = M.placeholders(sroot)
        if not nested:
            _mirror_compare("C13:mirror", expected, got, M.LATENT)
        names = M.all_names(sroot)
        if len(set(names)) != len(names):
            raise Violation("C13:names:duplicate", "shape names on the new slide: %r" % (names,))
        # ---- API view ----
        with sut("C13:api:shapes"):
            api = _ph_shapes(list(slide.shapes))
            view = [(s.shape_id, s.name, _token(s), s.placeholder_format.idx) for s in api]
        want = [(g.id, g.name, g.type, g.idx) for g in got]
        if view != want:
            raise Violation("C13:api:placeholder_format", "slide.shapes reports %r, slide XML has %r"
                            % (view, want))
        with sut("C13:api:placeholders"):
            coll = slide.placeholders
            n_coll = len(coll)
            coll_idx = [p.placeholder_format.idx for p in coll]
        if n_coll != len(got) or coll_idx != sorted(g.idx for g in got):
            raise Violation("C13:api:slide.placeholders", "slide.placeholders has %d items idx=%r, "
                            "slide XML has idx %r" % (n_coll, coll_idx, [g.idx for g in got]))
        # ---- geometry ----
        entry = {"layout": str(layout.part.partname), "phs": []}
        if not nested and len(api) == len(expected):
            for k, s in enumerate(api):
                if expected[k].type not in M.MASTER_OF:
                    self.stats.classes.append("lay:illegal-type")
                    continue
                acc, path = M.slide_geom_expectation(k, expected, lay_phs, mas_phs)
                self.check_geom(s, acc, "new", path, expected[k])
                entry["phs"].append({"id": got[k].id, "key": expected[k].key(), "acc": acc,
                                     "path": path, "k": k})
        self.model.append(entry)
        return slide

    def check_geom(self, shape, acc, ctx, path, src=None):
        with sut("C13:geom:%s:read" % ctx):
            g = _geom(shape)
        if g not in acc:
            raise Violation("C13:geom:%s:%s" % (ctx, path),
                            "placeholder id=%s reports (left, top, width, height)=%r, expected one of "
                            "%r%s" % (shape.shape_id, g, sorted(acc, key=repr)[:4],
                                      "" if src is None else " (counterpart %r)" % (src,)))

    def verify_model_slide(self, slide, entry, ctx):
        """placeholders created earlier still report their type/idx and (inherited or overridden)
        geometry"""
        by_id = {}
        with sut("C13:api:shapes"):
            for s in slide.shapes:
                by_id.setdefault(s.shape_id, s)
        for ph in entry["phs"]:
            s = by_id.get(ph["id"])
            if s is None or not s.is_placeholder:
                raise Violation("C13:persist:%s:placeholder-lost" % ctx,
                                "placeholder id=%s no longer present" % ph["id"])
            with sut("C13:api:placeholder_format"):
                k = (_token(s), s.placeholder_format.idx)
            if k != tuple(ph["key"][:2]):
                raise Violation("C13:persist:%s:type-idx" % ctx,
                                "placeholder id=%s reports %r, created as %r" % (ph["id"], k, ph["key"]))
            self.check_geom(s, ph["acc"], ctx, ph["path"])

    def _slide(self, si):
        slides = self.slides()
        if not slides:
            self.stats.discarded += 1
            return None, None
        pos = si % len(slides)
        return pos, slides[pos]

    def op_shape(self, si, kind):
        from pptx.enum.shapes import MSO_CONNECTOR, MSO_SHAPE
        from pptx.util import Emu

        pos, slide = self._slide(si)
        if slide is None:
            return
        kind = SHAPE_KINDS[kind % len(SHAPE_KINDS)] if isinstance(kind, int) else kind
        sh = slide.shapes
        with sut("C13:edit:add-shape"):
            if kind == "textbox":
                sh.add_textbox(Emu(100), Emu(200), Emu(3000), Emu(4000)).text_frame.text = "tb"
            elif kind == "autoshape":
                sh.add_shape(MSO_SHAPE.RECTANGLE, Emu(1), Emu(2), Emu(3), Emu(4))
            elif kind == "table":
                sh.add_table(2, 2, Emu(10), Emu(20), Emu(3000), Emu(4000))
            elif kind == "connector":
                sh.add_connector(MSO_CONNECTOR.STRAIGHT, Emu(1), Emu(2), Emu(30), Emu(40))
            else:
                sh.add_group_shape()
        m = self.model_of(pos)
        if m:
            self.verify_model_slide(slide, m, "after-shape")

    def op_rename(self, si, shi, phi, delta):
        pos, slide = self._slide(si)
        if slide is None:
            return
        shapes = list(slide.shapes)
        if not shapes:
            self.stats.discarded += 1
            return
        target = shapes[shi % len(shapes)]
        lay_phs = M.placeholders(M.parse(slide.slide_layout.part.blob))
        ids = [int(c.get("id")) for c in M.parse(slide.part.blob).iter("{%s}cNvPr" % M.NS_P)
               if (c.get("id") or "").isdigit()]
        if lay_phs:
            p = lay_phs[phi % len(lay_phs)]
            base = _BASENAME.get(p.type, "Placeholder")
            if p.orient == "vert":
                base = "Vertical " + base
        else:
            base = "Title"
        name = "%s %d" % (base, max(ids + [1]) + delta)
        with sut("C13:edit:rename"):
            target.name = name
        m = self.model_of(pos)
        if m:
            self.verify_model_slide(slide, m, "after-rename")

    def op_clone_into(self, si, phi):
        pos, slide = self._slide(si)
        if slide is None:
            return
        layout = slide.slide_layout
        lay_root = M.parse(layout.part.blob)
        lay_phs = M.placeholders(lay_root)
        if not lay_phs or M.nested_placeholder_count(lay_root):
            self.stats.discarded += 1
            return
        k = phi % len(lay_phs)
        with sut("C13:api:layout.placeholders"):
            api_l = list(layout.placeholders)
        if [s.shape_id for s in api_l] != [p.id for p in lay_phs]:
            raise Violation("C13:api:layout.placeholders", "layout.placeholders ids %r, XML %r"
                            % ([s.shape_id for s in api_l], [p.id for p in lay_phs]))
        src = lay_phs[k]
        if src.type not in M.MASTER_OF:
            self.stats.discarded += 1
            return
        mas_phs = M.placeholders(M.parse(layout.slide_master.part.blob))
        broot = M.parse(slide.part.blob)
        names_before = M.all_names(broot)
        before = [(p.id, p.name) + p.key() for p in M.placeholders(broot)]
        with sut("C13:clone_placeholder"):
            slide.shapes.clone_placeholder(api_l[k])
        after_phs = M.placeholders(M.parse(slide.part.blob))
        rest = list(before)
        new = []
        for p in after_phs:
            t = (p.id, p.name) + p.key()
            if t in rest:
                rest.remove(t)
            else:
                new.append(p)
        if len(new) != 1 or rest:
            raise Violation("C13:clone:count", "clone_placeholder added %d placeholders, changed %d"
                            % (len(new), len(rest)))
        new = new[0]
        if new.key() != src.key():
            raise Violation("C13:clone:attr", "clone has %r, layout placeholder %r"
                            % (new.key(), src.key()))
        if new.name in names_before:
            raise Violation("C13:names:duplicate-on-clone",
                            "clone_placeholder named the new placeholder %r, already used on the "
                            "slide (%r)" % (new.name, names_before))
        if ("%s %d" % (new.name.rsplit(" ", 1)[0], new.id - 1)) in names_before:
            self.stats.classes.append("op:clone_into:default-name-was-taken")
        acc, path = M.slide_geom_expectation(k, lay_phs, lay_phs, mas_phs)
        with sut("C13:api:shapes"):
            cand = [s for s in slide.shapes if s.shape_id == new.id]
        if len(cand) != 1:
            raise Violation("C13:clone:id", "%d shapes with the clone's id %s" % (len(cand), new.id))
        self.check_geom(cand[0], acc, "clone_into", path, src)
        m = self.model_of(pos)
        if m:
            m["phs"].append({"id": new.id, "key": src.key(), "acc": acc, "path": path})
            self.verify_model_slide(slide, m, "after-clone")

    def op_override(self, si, phi, x, y, cx, cy):
        from pptx.util import Emu

        if not self.model:
            self.stats.discarded += 1
            return
        k = si % len(self.model)
        m = self.model[k]
        pos = self.n0 + k
        slide = self.slides()[pos]
        if not m["phs"]:
            self.stats.discarded += 1
            return
        j = phi % len(m["phs"])
        ph = m["phs"][j]
        with sut("C13:api:shapes"):
            s = [t for t in slide.shapes if t.shape_id == ph["id"]][0]
        with sut("C13:override:assign"):
            s.left, s.top, s.width, s.height = Emu(x), Emu(y), Emu(cx), Emu(cy)
        ph["acc"] = {(x, y, cx, cy)}
        ph["path"] = "overridden"
        self.verify_model_slide(slide, m, "after-override")

    def op_fill(self, si, phi):
        """a picture / table / chart placeholder is filled through its insert_* method: the slide still has one
        placeholder per layout placeholder, of the same type and idx, in the same order"""
        if not self.model:
            self.stats.discarded += 1
            return
        k = si % len(self.model)
        m = self.model[k]
        slide = self.slides()[self.n0 + k]
        with sut("C13:api:placeholders"):
            # (a placeholder to which neither layout nor master gives a position and a non-empty size has no frame to fill:
            # not part of this op's domain, see DESIGN 8.4)
            fillable = [p for p in slide.placeholders
                        if any(hasattr(p, a) for a in ("insert_picture", "insert_table", "insert_chart"))
                        and None not in _geom(p) and min(_geom(p)[2:]) > 0]
            before = [(t.shape_id, _token(t)) for t in slide.shapes if t.is_placeholder]
        if not fillable:
            self.stats.discarded += 1
            return
        tgt = fillable[phi % len(fillable)]
        sid = tgt.shape_id
        with sut("C13:edit:fill"):
            if hasattr(tgt, "insert_picture"):
                tgt.insert_picture(os.path.join(REPO, "tests", "test_files", "python-icon.jpeg"))
                how = "picture"
            elif hasattr(tgt, "insert_table"):
                tgt.insert_table(2, 2)
                how = "table"
            else:
                from pptx.chart.data import CategoryChartData
                from pptx.enum.chart import XL_CHART_TYPE
                cd = CategoryChartData()
                cd.categories = ["a", "b"]
                cd.add_series("s", (1, 2))
                tgt.insert_chart(XL_CHART_TYPE.COLUMN_CLUSTERED, cd)
                how = "chart"
        self.stats.classes.append("edit:fill-%s-placeholder" % how)
        with sut("C13:api:shapes"):
            after = [(t.shape_id, _token(t)) for t in slide.shapes if t.is_placeholder]
            filled = [t for t in slide.shapes if t.shape_id == sid]
        if after != before:
            raise Violation("C13:persist:after-fill:order",
                            "placeholders (shape id, type) in document order were %r before insert_%s on id=%s, %r after"
                            % (before, how, sid, after))
        for ph in m["phs"]:
            if ph["id"] == sid and how != "picture" and filled:
                # a table / chart frame is given a position and size of its own
                ph["acc"], ph["path"] = {_geom(filled[0])}, "overridden"
        # the p:pic that replaces a picture placeholder starts without a:xfrm: where the placeholder had been positioned
        # by the caller, what the picture inherits from then on is not modelled
        m["phs"] = [ph for ph in m["phs"] if not (ph["id"] == sid and how == "picture" and ph["path"] == "overridden")]
        self.verify_model_slide(slide, m, "after-fill")

    def op_edit_layout(self, si, phi, level, x, y, cx, cy):
        """the layout (or its master) is edited through the public setters after slides were made from it: slide
        placeholders that were never positioned themselves follow ("... until overridden")"""
        from pptx.util import Emu

        if not self.model:
            self.stats.discarded += 1
            return
        m0 = self.model[si % len(self.model)]
        lay = [l for l in self.layouts() if str(l.part.partname) == m0["layout"]]
        if not lay:
            self.stats.discarded += 1
            return
        layout = lay[0]
        owner = layout if level == 0 else layout.slide_master
        with sut("C13:edit-layout:find"):
            phs = [p for p in owner.placeholders]
        if not phs:
            self.stats.discarded += 1
            return
        target = phs[phi % len(phs)]
        with sut("C13:edit-layout:assign"):
            target.left, target.top, target.width, target.height = Emu(x), Emu(y), Emu(cx), Emu(cy)
        self.stats.classes.append("edit:%s-placeholder-geometry" % ("layout" if level == 0 else "master"))
        # expectations of every slide made from a layout of that master are derived again from the parts as they
        # are now (same model as at creation); overridden placeholders keep their own geometry
        slides = self.slides()
        for m in self.model:
            # placeholders cloned in from some layout by clone_placeholder(): which layout placeholder they now
            # inherit from is not modelled across an edit; they are no longer judged
            m["phs"] = [ph for ph in m["phs"] if "k" in ph or ph["path"] == "overridden"]
        for k, m in enumerate(self.model):
            l2 = [l for l in self.layouts() if str(l.part.partname) == m["layout"]]
            if not l2 or (level == 0 and l2[0].part is not layout.part) or (
                    level == 1 and l2[0].slide_master.part is not layout.slide_master.part):
                continue
            lay_phs = M.placeholders(M.parse(l2[0].part.blob))
            mas_phs = M.placeholders(M.parse(l2[0].slide_master.part.blob))
            expected = [p for p in lay_phs if p.type not in M.LATENT]
            for ph in m["phs"]:
                if ph["path"] == "overridden" or "k" not in ph or ph["k"] >= len(expected):
                    continue
                ph["acc"], ph["path"] = M.slide_geom_expectation(ph["k"], expected, lay_phs, mas_phs)
            self.verify_model_slide(slides[self.n0 + k], m, "after-%s-edit" % ("layout" if level == 0 else "master"))

    def op_text(self, si, phi, text):
        if not self.model:
            self.stats.discarded += 1
            return
        k = si % len(self.model)
        m = self.model[k]
        slide = self.slides()[self.n0 + k]
        if not m["phs"]:
            self.stats.discarded += 1
            return
        ph = m["phs"][phi % len(m["phs"])]
        with sut("C13:api:shapes"):
            s = [t for t in slide.shapes if t.shape_id == ph["id"]][0]
        if not s.has_text_frame:
            self.stats.discarded += 1
            return
        with sut("C13:edit:text"):
            s.text_frame.text = text
        self.verify_model_slide(slide, m, "after-text")

    def op_slidename(self, si, text):
        pos, slide = self._slide(si)
        if slide is None:
            return
        with sut("C13:edit:slidename"):
            slide.name = text
        m = self.model_of(pos)
        if m:
            self.verify_model_slide(slide, m, "after-slidename")

    def op_notes(self, si):
        prs = self.prs
        pos, slide = self._slide(si)
        if slide is None:
            return
        had = slide.has_notes_slide
        had_master = any(r.reltype == RT_NOTES_MASTER for r in prs.part.rels.values())
        with sut("C13:notes_slide"):
            ns = slide.notes_slide
        if had:
            self.stats.classes.append("notes:existing")
            return
        self.stats.classes.append("notes:created:%s" % ("deck-has-master" if had_master
                                                         else "default-master"))
        nm_rels = [r for r in prs.part.rels.values() if r.reltype == RT_NOTES_MASTER]
        if len(nm_rels) != 1:
            raise Violation("C13:notes:master-count", "%d notesMaster relationships on the "
                            "presentation part after creating a notes slide" % len(nm_rels))
        nm_part = nm_rels[0].target_part
        own = [r for r in ns.part.rels.values() if r.reltype == RT_NOTES_MASTER]
        if len(own) != 1 or own[0].target_part is not nm_part:
            raise Violation("C13:notes:master-rel", "notes slide is not related to the "
                            "presentation's notes master")
        mas_phs = M.placeholders(M.parse(nm_part.blob))
        expected = [p for p in mas_phs if p.type in M.NOTES_CLONED]
        types = [p.type for p in mas_phs]
        for t in sorted(set(types)):
            self.stats.classes.append("notes:master-has:%s" % t)
        if len(set(types)) < len(types):
            self.stats.classes.append("notes:master-dup-type")
        if not expected:
            self.stats.classes.append("notes:nothing-to-clone")
        nroot = M.parse(ns.part.blob)
        got = M.placeholders(nroot)
        dropped = tuple(t for t in set(types + ["hdr", "dt", "ftr", "obj"]) if t not in M.NOTES_CLONED)
        _mirror_compare("C13:notes:mirror", expected, got, dropped)
        names = M.all_names(nroot)
        if len(set(names)) != len(names):
            raise Violation("C13:notes:names:duplicate", "shape names on the notes slide: %r"
                            % (names,))
        with sut("C13:notes:api:shapes"):
            api = _ph_shapes(list(ns.shapes))
            view = [(s.shape_id, s.name, _token(s), s.placeholder_format.idx) for s in api]
            coll = [(s.shape_id) for s in ns.placeholders]
        want = [(g.id, g.name, g.type, g.idx) for g in got]
        if view != want or coll != [g.id for g in got]:
            raise Violation("C13:notes:api:placeholder_format", "notes_slide.shapes reports %r, "
                            "placeholders %r, XML has %r" % (view, coll, want))
        with sut("C13:notes:api:notes_placeholder"):
            np_ = ns.notes_placeholder
        bodies = [g.id for g in got if g.type == "body"]
        if (np_ is None) != (not bodies) or (bodies and np_.shape_id != bodies[0]):
            raise Violation("C13:notes:api:notes_placeholder", "notes_placeholder is %r, body "
                            "placeholders in XML: %r" % (np_, bodies))
        for k, s in enumerate(api):
            same = [p for p in mas_phs if p.type == expected[k].type]
            path = "%s%s" % (expected[k].type, ":dup-type" if len(same) > 1 else "")
            with sut("C13:notes:geom:read"):
                g = _geom(s)
            # the clone has no own xfrm: it reports the master placeholder's own values (any
            # master placeholder of that type when the notes master has several)
            ok = set(p.own() for p in same)
            if g not in ok:
                raise Violation("C13:notes:geom:%s" % path,
                                "notes placeholder id=%s reports %r, notes master placeholder(s) of "
                                "that type have %r" % (s.shape_id, g, sorted(ok, key=repr)))

    def op_reopen(self):
        from pptx import Presentation

        buf = io.BytesIO()
        with sut("C13:save"):
            self.prs.save(buf)
        data = buf.getvalue()
        # independent reading of the saved package
        pkg = opcmodel.Pkg.read(data)
        doc = [r for r in pkg.rels("/") if r.type == M.RT_OFFICE_DOC]
        if len(doc) != 1:
            raise HarnessError("saved package has %d officeDocument rels" % len(doc))
        pname = doc[0].resolved
        prels = dict((r.id, r) for r in pkg.rels(pname))
        ids = M.sld_id_list(M.parse(pkg.members[pname]))
        if len(ids) != self.n0 + len(self.model):
            raise Violation("C13:saved:slide-count", "saved p:sldIdLst has %d entries, expected %d"
                            % (len(ids), self.n0 + len(self.model)))
        for k, m in enumerate(self.model):
            rid = ids[self.n0 + k][1]
            r = prels.get(rid)
            if r is None or r.type != M.RT_SLIDE or r.resolved not in pkg.members:
                raise Violation("C13:saved:slide-rel", "p:sldId r:id=%s does not resolve to a slide "
                                "part in the saved file" % rid)
            lrels = [x for x in pkg.rels(r.resolved) if x.type == RT_LAYOUT]
            if len(lrels) != 1 or lrels[0].resolved != m["layout"]:
                raise Violation("C13:layout-rel:saved", "saved slide %s is related to layout %r, "
                                "was added from %s" % (r.resolved, [x.resolved for x in lrels],
                                                       m["layout"]))
            saved = dict((p.id, p) for p in M.placeholders(M.parse(pkg.members[r.resolved])))
            for ph in m["phs"]:
                p = saved.get(ph["id"])
                if p is None or p.key() != tuple(ph["key"]):
                    raise Violation("C13:mirror:saved", "saved slide %s: placeholder id=%s is %r, "
                                    "created as %r" % (r.resolved, ph["id"], p, ph["key"]))
        with sut("C13:reopen"):
            prs = Presentation(io.BytesIO(data))
            slides = list(prs.slides)
        self.prs = prs
        if len(slides) != self.n0 + len(self.model):
            raise Violation("C13:reopen:slide-count", "re-opened deck has %d slides, expected %d"
                            % (len(slides), self.n0 + len(self.model)))
        for k, m in enumerate(self.model):
            s = slides[self.n0 + k]
            with sut("C13:slide_layout"):
                ln = str(s.slide_layout.part.partname)
            if ln != m["layout"]:
                raise Violation("C13:layout-rel:reopen", "after re-open slide #%d has layout %s, "
                                "was added from %s" % (self.n0 + k, ln, m["layout"]))
            self.verify_model_slide(s, m, "reopen")

    # -- dispatch -------------------------------------------------------------
    def apply(self, op):
        name = op[0]
        if name == "add":
            self.op_add(op[1])
        elif name == "shape":
            self.op_shape(op[1], op[2])
        elif name == "rename":
            self.op_rename(op[1], op[2], op[3], op[4])
        elif name == "clone_into":
            self.op_clone_into(op[1], op[2])
        elif name == "notes":
            self.op_notes(op[1])
        elif name == "reopen":
            self.op_reopen()
        elif name == "override":
            self.op_override(*op[1:7])
        elif name == "edit_layout":
            self.op_edit_layout(*op[1:8])
        elif name == "fill":
            self.op_fill(op[1], op[2])
        elif name == "text":
            self.op_text(op[1], op[2], op[3])
        elif name == "slidename":
            self.op_slidename(op[1], op[2])
        else:
            raise HarnessError("unknown op %r" % (op,))


def open_deck(case, stats):
    from pptx import Presentation

    kind = case[0]
    if kind == "corpus":
        try:
            rel = case[1]
            if rel.endswith("|shift1"):
                # the deck as it is after its first slide was deleted and it was saved: slide parts slide2..slide(n+1)
                from checks.c02 import renamed
                with open(corpus.path(rel[:-7]), "rb") as fh:
                    data = fh.read()
                return Presentation(io.BytesIO(renamed(data, "shift1") or data))
            return Presentation(corpus.path(case[1]))
        except Exception:
            stats.discarded += 1
            stats.classes.append("corpus:open-failed")
            return None
    if kind == "gen":
        data = M.build_deck(case[1])
        if VALIDATE_GENERATED[0]:
            _validate_generated(data, case[1])
        with sut("C13:open-generated"):
            return Presentation(io.BytesIO(data))
    raise HarnessError("unknown case kind %r" % (kind,))


VALIDATE_GENERATED = [False]   # switched on in gen shard 0: generated parts must be schema-valid


def _validate_generated(data, spec):
    """harness self-check (exit 2, never a VIOLATION): the rewritten parts are valid against the
    ISO/IEC 29500 transitional schemas, i.e. the generated layouts are in-domain input"""
    from vlib import xsdoracle

    pkg = opcmodel.Pkg.read(data)
    names = ["/ppt/slideLayouts/slideLayout%d.xml" % no for no, _ in spec["layouts"]]
    if spec.get("master") is not None:
        names.append("/ppt/slideMasters/slideMaster1.xml")
    if spec.get("notes") is not None:
        names += ["/ppt/notesMasters/notesMaster1.xml", "/ppt/presentation.xml"]
    for n in names:
        errs = xsdoracle.errors(pkg.members[n])
        if errs:
            raise HarnessError("generated part %s is not schema-valid: %r" % (n, sorted(errs)[:3]))


def run_case(case, stats=None):
    stats = stats or _Stats()
    prs = open_deck(case, stats)
    if prs is None:
        return stats
    with sut("C13:slides-access"):
        run = Run(prs, stats)
    for op in case[2]:
        run.apply(op)
        stats.classes.append("op:%s" % op[0])
    return stats


# ------------------------------------------------------------------ strategies

_COORD = st.one_of(
    st.sampled_from([0, 1, -1, 457200, 914400, 8229600, 2147483647, 2147483648,
                     -27273042329600, 27273042316900]),
    st.integers(-10 ** 7, 10 ** 7))
_EXT = st.one_of(st.sampled_from([0, 1, 914400, 2147483648, 27273042316900]),
                 st.integers(0, 10 ** 7))
_GEOM = st.one_of(
    st.none(),
    st.tuples(_COORD, _COORD, _EXT, _EXT,
              st.sampled_from(["full"] * 6 + ["off", "ext", "empty"])).map(list))
_IDX = st.one_of(st.none(), st.integers(0, 24), st.integers(0, 24), st.integers(0, 24),
                 st.sampled_from([100, 65535, 4294967295]))
_NAMES = st.sampled_from(["", "Title 1", "Title 2", "Subtitle 2", "Content Placeholder 2",
                          "Text Placeholder 3", "Picture Placeholder 1", "x", "Title 1",
                          "Vertical Title 1", "Date Placeholder 3", "Rectangle 4", "A & B <c>"])


def _ph_item(types, wnone=1):
    return st.fixed_dictionaries({
        "k": st.just("ph"),
        "t": st.sampled_from(list(types) + [None] * wnone),
        "idx": _IDX,
        "orient": st.sampled_from([None, None, None, "vert", "horz"]),
        "sz": st.sampled_from([None, None, "full", "half", "quarter"]),
        "g": _GEOM,
        "n": _NAMES,
        "prompt": st.sampled_from([False, False, False, True]),
    })


_OTHER = st.fixed_dictionaries({"k": st.sampled_from(["sp", "cxn", "grp"]), "n": _NAMES})
_LAYOUT_ITEM = st.one_of(*([_ph_item(M.LAYOUT_TYPES)] * 6 + [_OTHER]))
_LAYOUT_POP = st.one_of(st.lists(_LAYOUT_ITEM, max_size=8),
                        st.lists(_LAYOUT_ITEM, min_size=3, max_size=9))
_MASTER_POP = st.lists(st.one_of(*([_ph_item(["title", "body", "dt", "ftr", "sldNum"], 0)] * 6
                                   + [_OTHER])), max_size=6)
_NOTES_POP = st.lists(st.one_of(*([_ph_item(M.NOTES_TYPES, 0)] * 8 + [_OTHER])), max_size=7)
_TEXT = st.sampled_from(["", "a", "two\nparas", "x < y & z", "é中"])


def _ops(layout_indices, max_ops):
    li = st.one_of(st.sampled_from(layout_indices), st.sampled_from(layout_indices),
                   st.integers(0, 40))
    small = st.integers(0, 3)
    op = st.one_of(
        st.tuples(st.just("add"), li).map(list),
        st.tuples(st.just("add"), li).map(list),
        st.tuples(st.just("add"), li).map(list),
        st.tuples(st.just("shape"), small, st.sampled_from(SHAPE_KINDS)).map(list),
        st.tuples(st.just("rename"), small, small, small, st.sampled_from([0, 0, 1, 2])).map(list),
        st.tuples(st.just("clone_into"), small, small).map(list),
        st.tuples(st.just("clone_into"), small, small).map(list),
        st.tuples(st.just("notes"), small).map(list),
        st.just(["reopen"]),
        st.tuples(st.just("override"), small, small, _COORD, _COORD, _EXT, _EXT).map(list),
        st.tuples(st.just("edit_layout"), small, small, st.sampled_from([0, 0, 1]), _COORD, _COORD, _EXT, _EXT).map(list),
        st.tuples(st.just("text"), small, small, _TEXT).map(list),
        st.tuples(st.just("fill"), small, small).map(list),
        st.tuples(st.just("slidename"), small, _TEXT).map(list),
    )
    return st.lists(op, max_size=max_ops)


@st.composite
def gen_cases(draw, max_ops):
    nos = draw(st.lists(st.integers(1, 11), min_size=1, max_size=3, unique=True))
    spec = {
        "layouts": [[no, draw(_LAYOUT_POP)] for no in nos],
        "master": draw(st.one_of(st.none(), st.none(), _MASTER_POP)),
        "notes": draw(st.one_of(st.none(), _NOTES_POP, _NOTES_POP)),
        "idstep": draw(st.sampled_from([1, 1, 1, 3])),
    }
    idxs = [no - 1 for no in nos]
    ops = [["add", draw(st.sampled_from(idxs))]] + draw(_ops(idxs, max_ops))
    return ["gen", spec, ops]


def _n_slides(rel):
    import re
    import zipfile
    try:
        with zipfile.ZipFile(corpus.path(rel)) as z:
            return sum(1 for n in z.namelist() if re.match(r"ppt/slides/slide\d+\.xml$", n))
    except Exception:
        return 0


def corpus_cases(decks, max_ops):
    first = st.tuples(st.just("add"), st.integers(0, 40)).map(list)
    decks = list(decks) + [d + "|shift1" for d in decks if _n_slides(d) >= 2][:12]
    return st.tuples(st.just("corpus"), st.sampled_from(decks),
                     st.tuples(first, _ops([0, 1, 2, 5], max_ops)).map(lambda t: [t[0]] + t[1])
                     ).map(list)


# ------------------------------------------------------------------ directed cases

def _ph(t, idx=None, g=None, orient=None, sz=None, n=""):
    return {"k": "ph", "t": t, "idx": idx, "orient": orient, "sz": sz, "g": g, "n": n,
            "prompt": False}


def directed_cases():
    """hand-written cases run in every tier (each class the generators aim at, once, fixed)"""
    full = [111, 222, 333, 444, "full"]
    zero = [0, 0, 0, 0, "full"]
    notes_all = [_ph("hdr", None, full, sz="quarter"), _ph("dt", 1, full),
                 _ph("sldImg", 2, None), _ph("body", 3, [5, 6, 7, 8, "full"], sz="quarter"),
                 _ph("ftr", 4, full, sz="quarter"), _ph("sldNum", 5, zero, sz="quarter"),
                 _ph("body", 6, None, orient="vert")]
    mixed = [_ph("title", None, None, n="Title 1"),
             _ph("body", 1, [1, 2, 3, 4, "full"], orient="vert", sz="half", n="Title 1"),
             _ph("dt", 10, None, sz="half"), _ph("ftr", 11, None, sz="quarter"),
             _ph("sldNum", 12, full, sz="quarter"), {"k": "grp", "n": "Title 1"},
             _ph("pic", 13, None), _ph("title", 14, zero), _ph(None, 15, [9, 9, 9, 9, "off"]),
             _ph("tbl", 16, [9, 9, 9, 9, "ext"]), _ph("chart", 17, [9, 9, 9, 9, "empty"])]
    every = [_ph(t, 20 - k, None if k % 2 else [k, k + 1, k + 2, k + 3, "full"])
             for k, t in enumerate(M.LAYOUT_TYPES)]
    ops1 = [["add", 1], ["rename", 0, 0, 0, 0], ["clone_into", 0, 0], ["rename", 0, 1, 1, 0],
            ["clone_into", 0, 1], ["notes", 0], ["reopen"], ["add", 1], ["override", 1, 0, 0, 0, 5, 6],
            ["shape", 0, "table"], ["text", 0, 0, "t"], ["slidename", 1, "s"], ["notes", 1],
            ["fill", 0, 0], ["fill", 0, 1], ["fill", 0, 2], ["fill", 1, 0], ["reopen"], ["add", 0]]
    return [
        ["gen", {"layouts": [[2, mixed]], "master": None, "notes": notes_all, "idstep": 1}, ops1],
        ["gen", {"layouts": [[2, mixed]], "master": [_ph("body", 1, full), _ph("body", 2, zero)],
                 "notes": None, "idstep": 3}, ops1],
        ["gen", {"layouts": [[1, every], [7, every[::-1]]], "master": [], "notes": [],
                 "idstep": 1}, [["add", 0], ["add", 6], ["notes", 0], ["reopen"], ["add", 6]]],
        ["gen", {"layouts": [[3, every]], "master": [_ph("title", None, zero), _ph("body", 1, full),
                                                      _ph("dt", 2, full), _ph("ftr", 3, None)],
                 "notes": [_ph("body", 1, None), _ph("body", 1, full)], "idstep": 1},
         [["add", 2], ["clone_into", 0, 11], ["clone_into", 0, 12], ["notes", 0], ["reopen"]]],
        ["gen", {"layouts": [], "master": None, "notes": None, "idstep": 1},
         [["add", i] for i in range(11)] + [["notes", 3], ["reopen"], ["notes", 10], ["add", 5]]],
    ]


# ------------------------------------------------------------------ jobs

N_ENUM = 16
N_CHYP = 16
N_GEN = 32


def jobs(tier):
    th = tier == "thorough"
    js = [{"kind": "directed"}]
    js += [{"kind": "corpus-enum", "shard": i} for i in range(N_ENUM)]
    js += [{"kind": "corpus-hyp", "shard": i, "n": 400 if th else 25, "max_ops": 20 if th else 8}
           for i in range(N_CHYP)]
    js += [{"kind": "gen", "shard": i, "n": 3000 if th else 300, "max_ops": 14 if th else 8}
           for i in range(N_GEN)]
    return js


def _enum_ops(rel):
    """all layouts of all masters once, notes on the first and last new slide, a re-open in the
    middle; determined by the deck alone"""
    from pptx import Presentation

    try:
        prs = Presentation(corpus.path(rel))
    except Exception:
        return None
    n = sum(len(m.slide_layouts) for m in prs.slide_masters)
    n0 = len(prs.slides)
    ops = [["add", i] for i in range(n)]
    if n:
        ops += [["notes", n0], ["reopen"], ["add", 0], ["notes", n0 + n], ["clone_into", n0, 0],
                ["shape", n0, "textbox"], ["add", n - 1], ["reopen"]]
    return ops


def _note(rec, case, stats):
    rec.note(case, stats.nt, classes=stats.classes)
    rec.discarded += stats.discarded


def run_job(job, seed, tier, rec, known):
    kind = job["kind"]
    if kind == "corpus-enum":
        decks = corpus.corpus_decks()[job["shard"]::N_ENUM]
        cases = []
        for rel in decks:
            ops = _enum_ops(rel)
            if ops is None:
                rec.discarded += 1
                rec.cls("corpus:open-failed")
                continue
            cases.append(["corpus", rel, ops])

        def fn(case):
            stats = _Stats()
            try:
                run_case(case, stats)
            finally:
                rec.extra["layouts_added_from"] = rec.extra.get("layouts_added_from", 0) + sum(
                    1 for c in stats.classes if c == "op:add")
            _note(rec, case, stats)

        return run_plain(fn, cases, rec=rec, known=known)
    if kind == "directed":
        def fn(case):
            _note(rec, case, run_case(case))

        return run_plain(fn, directed_cases(), rec=rec, known=known)
    if kind == "corpus-hyp":
        decks = corpus.corpus_decks()[job["shard"]::N_CHYP]

        def fn(case):
            _note(rec, case, run_case(case))

        return hyp_search(fn, corpus_cases(decks, job["max_ops"]), seed=seed,
                          max_examples=job["n"], rec=rec, known=known)
    if kind == "gen":
        VALIDATE_GENERATED[0] = job["shard"] == 0

        def fn(case):
            _note(rec, case, run_case(case))
            if VALIDATE_GENERATED[0]:
                rec.extra["generated_decks_xsd_validated"] = rec.extra.get(
                    "generated_decks_xsd_validated", 0) + 1

        return hyp_search(fn, gen_cases(job["max_ops"]), seed=seed, max_examples=job["n"],
                          rec=rec, known=known)
    raise HarnessError("unknown job %r" % (job,))


def replay(case):
    return collect(run_case, case)


_ = Rec  # imported for type reference in interactive use
