"""C02 — every saved file is a closed, self-consistent package, after any history.

Generator: deckops histories (all op kinds incl. rejected calls and reads, saves at random positions and at
the end; thorough: a save after every op) over the default template (bare / rich prelude), corpus decks, and
variants of those whose slide parts are renamed non-contiguously / permuted. Oracle: independent OPC reader on
the bytes of every save (member uniqueness, exact member set, content types, relationship targets, XML
reference closure, office-document relationship) + re-open and snapshot comparison with the in-memory deck.
"""
import io
import os

from vlib.core import Violation, hyp_search, collect, sut, REPO
from vlib import deckops as D
from vlib import opcmodel as O
from vlib import snapshot as S
from vlib.corpus import corpus_decks

PROPERTY = "C02"
LEVEL = "exploration"
RULE = ("histories of 6-25 ops (thorough 6-60, plus a save after every op for a third of the cases) over every op of "
        "the deck operation language, on the default template (bare/rich prelude), corpus decks and slide-renamed "
        "variants (gap, shift, reverse, rotate); every save is checked. Non-trivial: the history has a save, then a "
        "state-changing op, then another save; or starts from a renamed-slides deck; or contains a rejected call, a "
        "hyperlink/jump clear, a layout removal, or reuses an image/media file. Distinct by hash of (start, ops).")
ASSUMPTIONS = [
    "vlib.opcmodel is the reference reader; r:id=\"\" means 'no relationship'",
    "XML references already dangling in the start deck's own first save are not attributed to python-pptx",
    "an undocumented exception from an operation counts as a rejected call: the history continues and later saves are still judged",
]

PRES_TYPES = ("application/vnd.openxmlformats-officedocument.presentationml.presentation.main+xml",
              "application/vnd.ms-powerpoint.presentation.macroEnabled.main+xml")
CT_BY_DIR = [
    ("/ppt/slides/", "application/vnd.openxmlformats-officedocument.presentationml.slide+xml"),
    ("/ppt/notesSlides/", "application/vnd.openxmlformats-officedocument.presentationml.notesSlide+xml"),
    ("/ppt/notesMasters/", "application/vnd.openxmlformats-officedocument.presentationml.notesMaster+xml"),
    ("/ppt/charts/", "application/vnd.openxmlformats-officedocument.drawingml.chart+xml"),
    ("/ppt/slideLayouts/", "application/vnd.openxmlformats-officedocument.presentationml.slideLayout+xml"),
    ("/ppt/slideMasters/", "application/vnd.openxmlformats-officedocument.presentationml.slideMaster+xml"),
]
IMG_CT = {"PNG": "image/png", "JPEG": "image/jpeg", "GIF": "image/gif", "BMP": "image/bmp", "TIFF": "image/tiff"}


def expected_new_ct(name, blob):
    """content type implied by what python-pptx creates under this name (None = no expectation)."""
    for d, ct in CT_BY_DIR:
        if name.startswith(d) and name.endswith(".xml"):
            return ct
    if name.startswith("/ppt/theme/"):
        return "application/vnd.openxmlformats-officedocument.theme+xml"
    if name.startswith("/ppt/media/image"):
        try:
            from PIL import Image
            fmt = Image.open(io.BytesIO(blob)).format
        except Exception:
            return None
        return IMG_CT.get(fmt)
    if name.startswith("/ppt/media/media") and name.endswith(".mp4"):
        return "video/mp4"
    if name.startswith("/ppt/embeddings/"):
        if name.endswith(".xlsx"):
            return "application/vnd.openxmlformats-officedocument.spreadsheetml.sheet"
        if name.endswith(".docx"):
            return "application/vnd.openxmlformats-officedocument.wordprocessingml.document"
        if name.endswith(".pptx"):
            return "application/vnd.openxmlformats-officedocument.presentationml.presentation"
    return None


class ClosureHook:
    def __init__(self, prs, start_bytes=None):
        self.loaded_ct = {}
        self.keep = []
        self._remember(prs)
        self.pre_dangling_refs = set()
        self.saves = 0
        self.tmpdir = None
        self.stream = None
        self.changed_since_save = False
        self.save_change_save = False
        if start_bytes is not None:
            # references already dangling in the deck as python-pptx first saves it are pre-existing
            try:
                first = io.BytesIO()
                prs.save(first)
                pkg = O.Pkg.read(first.getvalue())
                reach, relmap, _ = pkg.reachable()
                for p in reach:
                    refs = pkg.xml_refs(p)
                    if refs:
                        ids = {r.id for r in relmap.get(p, [])}
                        self.pre_dangling_refs |= {x for x in refs if x and x not in ids}
            except Exception:
                pass

    def _remember(self, prs):
        for part in prs.part.package.iter_parts():
            self.loaded_ct[id(part)] = part.content_type
            self.keep.append(part)

    def after_op(self, it, op, outcome, info):
        if op[0] not in ("save", "save_reopen", "read", "bad_call") and outcome == "ok":
            if self.saves:
                self.changed_since_save = True

    def at_reopen(self, it):
        self.loaded_ct = {}
        self._remember(it.prs)

    def at_save(self, it, data):
        from pptx import Presentation
        self.saves += 1
        if self.changed_since_save:
            self.save_change_save = True
        self.changed_since_save = False
        pkg = O.Pkg.read(data)
        if pkg.dups:
            raise Violation("C02:duplicate-member", "zip holds duplicate member names %s" % pkg.dups[:3])
        reach, relmap, dangling = pkg.reachable()
        if dangling:
            src, r = dangling[0]
            raise Violation("C02:dangling-relationship:%s" % r.type.rsplit("/", 1)[-1],
                            "relationship %s of %s targets %s, which is not in the package" % (r.id, src, r.resolved))
        expected = {"/[Content_Types].xml", "/_rels/.rels"} | set(reach)
        for p in reach:
            if relmap.get(p):
                expected.add(O.rels_name(p))
        if set(pkg.members) != expected:
            raise Violation("C02:member-set", "unexpected members %s, missing %s"
                            % (sorted(set(pkg.members) - expected)[:4], sorted(expected - set(pkg.members))[:4]))
        _d, _o, dd, od = pkg.content_types()
        if dd or od:
            raise Violation("C02:content-types-duplicate-entry", "duplicate Default %s / Override %s" % (dd, od))
        # content types: zip == in-memory == loaded-with / created-as
        mem = {}
        for part in it.prs.part.package.iter_parts():
            mem[str(part.partname)] = part
        if len(mem) != len(list(it.prs.part.package.iter_parts())):
            raise Violation("C02:partname-collision", "two in-memory parts share a partname")
        for name in reach:
            ct = pkg.ctype(name)
            if ct is None:
                raise Violation("C02:no-content-type", "member %s has no content type" % name)
            part = mem.get(name)
            if part is None:
                raise Violation("C02:member-set", "member %s has no in-memory part" % name)
            if part.content_type != ct:
                raise Violation("C02:content-type-mismatch", "%s: zip says %s, part says %s" % (name, ct, part.content_type))
            if id(part) in self.loaded_ct:
                if self.loaded_ct[id(part)] != ct:
                    raise Violation("C02:content-type-changed", "%s was loaded as %s, saved as %s" % (name, self.loaded_ct[id(part)], ct))
            else:
                exp = expected_new_ct(name, pkg.members[name])
                if exp is not None and exp != ct:
                    raise Violation("C02:content-type-of-new-part:%s" % name.split("/")[2], "%s created with %s, expected %s" % (name, ct, exp))
        # XML reference closure
        for p in reach:
            refs = pkg.xml_refs(p)
            if not refs:
                continue
            ids = {r.id for r in relmap.get(p, [])}
            bad = {x for x in refs if x and x not in ids} - self.pre_dangling_refs
            if bad:
                raise Violation("C02:dangling-xml-reference:%s" % p.split("/")[2 if p.count("/") > 2 else 1],
                                "part %s references relationship id(s) %s absent from its .rels" % (p, sorted(bad)[:4]))
        od_rels = [r for r in relmap["/"] if r.type == O.RT_OFFICE_DOCUMENT]
        if len(od_rels) != 1 or pkg.ctype(od_rels[0].resolved) not in PRES_TYPES:
            raise Violation("C02:office-document", "officeDocument relationship(s): %s" % od_rels)
        # re-open and compare with the in-memory deck
        with sut("C02:reopen"):
            prs2 = Presentation(io.BytesIO(data))
        try:
            with sut("C02:snapshot-reopened"):
                s2 = S.snapshot(prs2)
        except Violation as v:
            raise Violation("C02:reopened-unreadable:" + v.key.split(":raises=")[-1], v.message)
        with sut("C02:snapshot-memory"):
            s1 = S.snapshot(it.prs)
        d = S.diff(s1, s2)
        if d:
            import re
            where = re.sub(r"\[\d+\]", "", d.split(":")[0]).replace(".slides.shapes", "shape").strip(".")
            raise Violation("C02:reopen-differs:%s" % where, "in-memory vs re-opened: %s" % d)
        # the other ways of saving: over a path this history saved to before (spelled relative / absolute in turn),
        # and once more into a stream that already holds an earlier save; what is re-opened from there is the same deck
        import tempfile
        if self.saves % 2:
            if self.tmpdir is None:
                self.tmpdir = tempfile.mkdtemp(prefix="verif-c02-")
            path = os.path.join(self.tmpdir, "deck.pptx")
            spelled = path if self.saves % 4 == 1 else os.path.relpath(path)
            with sut("C02:save-to-path"):
                it.prs.save(spelled)
            with sut("C02:reopen-from-path"):
                prs3 = Presentation(spelled)
            how = "path saved to before (%s spelling)" % ("absolute" if spelled == path else "relative")
        else:
            if self.stream is None:
                self.stream = io.BytesIO()
            with sut("C02:save-to-used-stream"):
                it.prs.save(self.stream)
            with sut("C02:reopen-from-used-stream"):
                prs3 = Presentation(io.BytesIO(self.stream.getvalue()))
            how = "stream that held an earlier save"
        with sut("C02:snapshot-reopened"):
            s3 = S.snapshot(prs3)
        d = S.diff(s1, s3)
        if d:
            raise Violation("C02:reopen-differs:other-save-form", "in-memory vs re-opened from a %s: %s" % (how, d))


def renamed(data, how):
    """variant of a deck whose slide parts are renamed consistently"""
    from checks.c16 import apply_fault
    import re
    pkg = O.Pkg.read(data)
    if how == "arrays":
        # every numbered chart / notes slide / embedding / image / media part moves up by one: the names
        # stay unique but have a gap at 1 (count+1 is taken)
        rx = re.compile(r"^(/ppt/(?:charts/chart|notesSlides/notesSlide|embeddings/Microsoft_Excel_Sheet|"
                        r"embeddings/oleObject|media/image|media/media))(\d+)(\.[A-Za-z0-9]+)$")
        reach, _m, _d = pkg.reachable()
        mapping = {}
        for name in reach:
            m = rx.match(name)
            if m:
                mapping[name] = "%s%d%s" % (m.group(1), int(m.group(2)) + 1, m.group(3))
        if not mapping:
            return None
        tmp = {k: k + ".verif-tmp" for k in mapping}
        pkg.rename_parts(tmp)
        pkg.rename_parts({tmp[k]: v for k, v in mapping.items()})
        return pkg.to_bytes()
    if not apply_fault(pkg, ["rename", how]):
        return None
    return pkg.to_bytes()


_MANY = []


def _many_deck():
    if _MANY:
        return _MANY[0]
    from pptx import Presentation
    from pptx.chart.data import CategoryChartData
    from pptx.enum.chart import XL_CHART_TYPE
    from PIL import Image as PILImage
    prs = Presentation()
    for i in range(10):
        sl = prs.slides.add_slide(prs.slide_layouts[6])
        cd = CategoryChartData()
        cd.categories = ["a", "b"]
        cd.add_series("s%d" % i, (i, i + 1))
        sl.shapes.add_chart(XL_CHART_TYPE.COLUMN_CLUSTERED, 0, 0, 3000000, 2000000, cd)
        sl.notes_slide.notes_text_frame.text = "notes %d" % i
        im = io.BytesIO()
        PILImage.new("RGB", (2 + i, 3), (i * 20, 10, 200)).save(im, "PNG")
        im.seek(0)
        sl.shapes.add_picture(im, 0, 2000000)
    buf = io.BytesIO()
    prs.save(buf)
    _MANY.append(buf.getvalue())
    return _MANY[0]


def make_start(start):
    """start = [kind, arg, rename] -> (Presentation, bytes or None)"""
    from pptx import Presentation
    kind, arg, ren = start
    if kind == "many":
        # ten slides, ten charts (and workbooks), ten notes slides, ten distinct pictures: the next part of each family
        # is the eleventh (part numbers with two digits sort before "2" as text)
        data = _many_deck()
        if ren:
            data = renamed(data, ren) or data
        return Presentation(io.BytesIO(data)), data
    if kind in ("bare", "rich"):
        prs = Presentation()
        if kind == "rich" or ren:
            it = D.Interp(prs)
            it.run(D.RICH_PRELUDE if kind == "rich" else [["add_slide", 1], ["add_slide", 6], ["add_slide", 5]])
        if not ren:
            return prs, None
        buf = io.BytesIO()
        prs.save(buf)
        data = buf.getvalue()
    else:
        data = open(os.path.join(REPO, arg), "rb").read()
    if ren:
        r = renamed(data, ren)
        if r is not None:
            data = r
    return Presentation(io.BytesIO(data)), data


def run_case(case, rec=None):
    start, ops = case["start"], case["ops"]
    with sut("C02:open"):
        prs, data = make_start(start)
    hook = ClosureHook(prs, data)
    it = D.Interp(prs, [hook], crash="continue", prefix="C02")
    if case.get("save_every"):
        for op in ops:
            it.step(list(op))
            if op[0] not in ("save", "save_reopen"):
                it.step(["save"])
    else:
        it.run(ops)
    try:
        it.step(["save"])
    finally:
        if hook.tmpdir is not None:
            import shutil
            shutil.rmtree(hook.tmpdir, ignore_errors=True)
    if rec is not None:
        c = it.counts
        rejected = sum(v for k, v in c.items() if k.endswith(":rejected") or k.endswith(":crashed"))
        cleared = any((o[0][0] in ("hyperlink", "run_hyperlink", "target_slide") and o[0][-1] < 0 and o[1] == "ok") or o[0][0] == "link_burst"
                      for o in it.trace)
        nt = hook.save_change_save or bool(start[2]) or rejected > 0 or cleared or c.get("remove_layout:ok", 0) > 0 \
            or c.get("add_picture:ok", 0) + c.get("add_movie:ok", 0) >= 2
        cls = ["start:%s%s" % (start[0], "+renamed" if start[2] else "")]
        cls += ["op:" + k for k in c]
        if hook.save_change_save:
            cls.append("save-change-save")
        if case.get("save_every"):
            cls.append("save-after-every-op")
        rec.note(case, nt, classes=cls)
        rec.extra["saves_checked"] = rec.extra.get("saves_checked", 0) + hook.saves
        if it.crashes:
            rec.extra.setdefault("undocumented_exceptions_seen", [])
            for x in it.crashes:
                if x not in rec.extra["undocumented_exceptions_seen"]:
                    rec.extra["undocumented_exceptions_seen"].append(x)


WEIGHTS = {"save": 6, "save_reopen": 3, "hyperlink": 5, "link_burst": 6, "run_hyperlink": 3, "target_slide": 4, "remove_layout": 2,
           "add_slide": 4, "notes": 3, "fmt": 2, "chart_fmt": 1, "table_op": 1, "core_prop": 2, "bad_call": 2, "read": 2}


def jobs(tier):
    decks = corpus_decks()
    js = []
    for i in range(16):
        js.append({"shard": i, "n": 400 if tier == "thorough" else 100,
                   "decks": decks[i::16] if tier == "thorough" else decks[i::16][:2],
                   "max_ops": 60 if tier == "thorough" else 25, "save_every": tier == "thorough"})
    return js


def run_job(job, seed, tier, rec, known):
    from hypothesis import strategies as st
    ops = D.ops_strategy(job["max_ops"], WEIGHTS, min_ops=6)
    starts = [["bare", None, None], ["rich", None, None], ["rich", None, "gap"], ["rich", None, "rotate"], ["rich", None, "shift1"],
              ["bare", None, "reverse"], ["rich", None, "shift100"], ["rich", None, "arrays"], ["rich", None, "arrays"],
              ["many", None, None], ["many", None, None], ["many", None, "rotate"]]
    for d in job["decks"]:
        starts += [["corpus", d, None], ["corpus", d, "gap"], ["corpus", d, "rotate"], ["corpus", d, "arrays"], ["corpus", d, "shift1"]]
    strat = st.builds(lambda s, o, e: {"start": s, "ops": o, "save_every": e}, st.sampled_from(starts), ops,
                      st.sampled_from([False, False, True]) if job["save_every"] else st.just(False))
    return hyp_search(lambda c: run_case(c, rec), strat, seed=seed, max_examples=job["n"], rec=rec, known=known,
                      shrink_budget=150)


def replay(case):
    return collect(run_case, case)
