"""C19 — part-name arithmetic is exact (bounded-exhaustive enumeration + Hypothesis strings).

Oracle: own string implementation of OPC part-name accessors and RFC 3986 section 5.2 path
resolution (merge + remove_dot_segments); round trip Q == from_rel_ref(P.dir, Q.relative_ref(P.dir)).
"""
import itertools
import re

from vlib.core import Violation, run_plain, hyp_search, collect

PROPERTY = "C19"
LEVEL = "exploration"
EXHAUSTIVE = True
RULE = ("bounded-exhaustive: all part names over an 11-segment alphabet up to depth 3 (quick) / 4 "
        "(thorough) plus '/', every ordered pair (P,Q) of them (thorough depth 4: full product); "
        "all references of <=4 segments over alphabet+{'.','..'} (relative and root-absolute) against "
        "every base directory of depth<=2; Hypothesis-generated names over a wider segment grammar; "
        "relationship collections from a generated source to 1-4 generated targets, serialised three times with "
        "targets renamed in between, each written Target resolved (RFC 3986) against the source directory; "
        "two-part packages whose relationship Target is a generated reference (dot segments, root-absolute), opened "
        "with OpcPackage.open and compared with the RFC 3986 resolution. "
        "Non-trivial: P and Q lie in different directories, in sibling-prefix directories "
        "(/a/slides vs /a/slidesX), or one is root-level; dot-segment references count when they "
        "contain '.' or '..' or are root-absolute. All enumerated cases are distinct by construction.")
ASSUMPTIONS = [
    "segments with a leading dot, empty segments, '//' prefixes and references ending in a dot "
    "segment are outside the OPC part-name grammar and are not generated",
    "idx is only pinned for letters+digits and letters-only base names; other names need int|None",
    "'rejected' for a name without leading '/' means any exception (ValueError or IndexError for '')",
]

ALPHABET = ["a", "slide1", "slide21", "x.y", "a.tar.gz", "noext", "IMAGE.PNG",
            "[Content_Types].xml", "slides", "slidesX", "_rels"]
NSHARD = 32


# ------------------------------------------------------------------ reference implementation

def ref_basedir(p):
    if p == "/":
        return "/"
    d = p[: p.rindex("/")]
    return d or "/"


def ref_filename(p):
    return p[p.rindex("/") + 1:]


def ref_ext(p):
    fn = ref_filename(p)
    # leading dots are not generated; extension = text after the last dot, none -> ""
    if "." not in fn.lstrip("."):
        return ""
    return fn[fn.rindex(".") + 1:]


def ref_rels(p):
    d = ref_basedir(p)
    fn = ref_filename(p)
    return ("/_rels/%s.rels" % fn) if d == "/" else "%s/_rels/%s.rels" % (d, fn)


def rfc3986_remove_dot_segments(path):
    out = []
    inp = path
    while inp:
        if inp.startswith("../"):
            inp = inp[3:]
        elif inp.startswith("./"):
            inp = inp[2:]
        elif inp.startswith("/./"):
            inp = inp[2:]
        elif inp == "/.":
            inp = "/"
        elif inp.startswith("/../"):
            inp = inp[3:]
            if out:
                out.pop()
        elif inp == "/..":
            inp = "/"
            if out:
                out.pop()
        elif inp in (".", ".."):
            inp = ""
        else:
            m = re.match(r"/?[^/]*", inp)
            out.append(m.group(0))
            inp = inp[m.end():]
    return "".join(out)


def rfc3986_resolve(base_dir, ref):
    """base_dir is a directory ('/ppt/slides' or '/'); the base URI is base_dir + '/'."""
    if ref.startswith("/"):
        return rfc3986_remove_dot_segments(ref)
    base = "/" if base_dir == "/" else base_dir + "/"
    merged = base[: base.rindex("/") + 1] + ref
    return rfc3986_remove_dot_segments(merged)


_LD = re.compile(r"^([a-zA-Z]+)([0-9]+)$")
_L = re.compile(r"^[a-zA-Z]+$")


def ref_idx_constraint(p):
    """-> ('eq', value) or ('any',)"""
    fn = ref_filename(p)
    if not fn:
        return ("eq", None)
    stem = fn[: fn.rindex(".")] if "." in fn.lstrip(".") else fn
    m = _LD.match(stem)
    if m:
        return ("eq", int(m.group(2)))
    if _L.match(stem):
        return ("eq", None)
    return ("any",)


# ------------------------------------------------------------------ oracles

def check_accessors(name):
    from pptx.opc.packuri import PackURI

    try:
        p = PackURI(name)
    except Exception as e:
        raise Violation("C19:ctor-rejects-valid", "PackURI(%r) raised %r" % (name, e))
    exp = {
        "baseURI": ref_basedir(name),
        "filename": ref_filename(name),
        "ext": ref_ext(name),
        "membername": name[1:],
    }
    for k, v in exp.items():
        got = getattr(p, k)
        if got != v:
            raise Violation("C19:accessor=%s" % k, "%s of %r is %r, OPC says %r" % (k, name, got, v))
    if name != "/":
        got = p.rels_uri
        if str(got) != ref_rels(name):
            raise Violation("C19:accessor=rels_uri", "rels_uri of %r is %r, expected %r"
                            % (name, got, ref_rels(name)))
    else:
        if str(p.rels_uri) != "/_rels/.rels":
            raise Violation("C19:accessor=rels_uri", "rels_uri of '/' is %r" % (p.rels_uri,))
    c = ref_idx_constraint(name)
    idx = p.idx
    if c[0] == "eq":
        if idx != c[1] or (idx is not None and type(idx) is not int):
            raise Violation("C19:accessor=idx", "idx of %r is %r, expected %r" % (name, idx, c[1]))
    elif not (idx is None or type(idx) is int):
        raise Violation("C19:accessor=idx", "idx of %r is %r (neither int nor None)" % (name, idx))


def check_pair(case):
    from pptx.opc.packuri import PackURI

    pn, qn = case
    P, Q = PackURI(pn), PackURI(qn)
    base = P.baseURI
    try:
        ref = Q.relative_ref(base)
        back = PackURI.from_rel_ref(base, ref)
    except Exception as e:
        raise Violation("C19:roundtrip-raises", "P=%r Q=%r raised %r" % (pn, qn, e))
    if str(back) != qn:
        raise Violation("C19:roundtrip", "P=%r Q=%r ref=%r resolves to %r" % (pn, qn, ref, back))
    if ref.startswith("/") and base != "/":
        # a relative reference must be relative (written into .rels Target)
        raise Violation("C19:relative-ref-absolute", "P=%r Q=%r ref=%r" % (pn, qn, ref))
    # independent: RFC resolution of that reference also gives Q. (Skipped when Q is an ancestor
    # directory of P: OPC [M1.11] forbids a part name that is a prefix-directory of another, the
    # reference then ends in a dot segment and RFC resolution yields a directory with trailing '/'.)
    if ref.split("/")[-1] in (".", ".."):
        return
    if rfc3986_resolve(ref_basedir(pn), ref) != qn:
        raise Violation("C19:roundtrip-rfc", "P=%r Q=%r ref=%r does not resolve to Q under RFC 3986"
                        % (pn, qn, ref))


def check_resolve(case):
    from pptx.opc.packuri import PackURI

    base, ref = case
    exp = rfc3986_resolve(base, ref)
    try:
        got = PackURI.from_rel_ref(base, ref)
    except Exception as e:
        raise Violation("C19:resolve-raises", "from_rel_ref(%r,%r) raised %r" % (base, ref, e))
    if str(got) != exp:
        raise Violation("C19:resolve", "from_rel_ref(%r,%r) = %r, RFC 3986 gives %r"
                        % (base, ref, got, exp))


def check_rels(case):
    """case = (source part name, [[target name, later name or None, still later name or None] ...]).

    The Target written for a relationship resolves (RFC 3986, against the source's directory) to the name its
    target part has *when it is written*: parts are renamed between serialisations (the slide collection does
    that), and each serialisation is read with the reference resolver of this file, not with PackURI."""
    from xml.etree import ElementTree as ET

    from pptx.opc.constants import RELATIONSHIP_TYPE as RT
    from pptx.opc.package import Part, _Relationships
    from pptx.opc.packuri import PackURI

    pn, targets = case
    base = PackURI(pn).baseURI
    try:
        rels = _Relationships(base)
        parts = [Part(PackURI(t[0]), "application/xml", None, b"<a/>") for t in targets]
        rids = [rels.get_or_add(RT.SLIDE if i % 2 else RT.IMAGE, part) for i, part in enumerate(parts)]
    except Exception as e:
        raise Violation("C19:rels-raises", "relationships from %r to %r raised %r" % (pn, [t[0] for t in targets], e))
    for step in range(3):
        if step:
            for part, t in zip(parts, targets):
                if t[step] is not None:
                    part.partname = PackURI(t[step])
        names = {}
        for part, t, rid in zip(parts, targets, rids):
            names[rid] = [x for x in t[: step + 1] if x is not None][-1]
        try:
            xml = rels.xml
            live = {rid: (rels[rid].target_ref, str(rels[rid].target_partname)) for rid in rids}
        except Exception as e:
            raise Violation("C19:rels-raises", "serialising relationships of %r raised %r" % (pn, e))
        root = ET.fromstring(xml)
        written = {el.get("Id"): el.get("Target") for el in root}
        for rid in set(rids):
            want = names[rid]
            ref = written.get(rid)
            if ref is None or ref.split("/")[-1] in (".", ".."):
                continue
            got = rfc3986_resolve(ref_basedir(pn), ref)
            if got != want:
                raise Violation("C19:rels-target-stale" if step else "C19:rels-target",
                                "source %r: relationship %s to the part now named %r is written with Target=%r, "
                                "which resolves to %r (serialisation #%d, names so far %r)"
                                % (pn, rid, want, ref, got, step + 1, targets))
            if live[rid][1] != want or rfc3986_resolve(ref_basedir(pn), live[rid][0]) != want:
                raise Violation("C19:rels-target-ref", "source %r: target_ref %r / target_partname %r for the part "
                                "named %r" % (pn, live[rid][0], live[rid][1], want))


def check_load(case):
    """case = (source part name P, reference r): a package in which P's relationship item holds Target=r and the
    part that r names under RFC 3986 exists; after opening, P is related to exactly that part."""
    import io
    import zipfile

    from vlib import opcmodel as OM

    pn, ref = case
    qn = rfc3986_resolve(ref_basedir(pn), ref)
    low = (pn.lower(), qn.lower())
    if (qn == pn or qn.endswith("/") or "/_rels/" in qn + "/" or "/_rels/" in pn + "/" or low[0] == low[1]
            or "[content_types].xml" in low[0] + low[1] or qn.startswith(pn + "/") or pn.startswith(qn + "/")):
        return False   # not a package two distinct parts can form
    rt = "http://schemas.openxmlformats.org/officeDocument/2006/relationships/"
    members = {
        "/[Content_Types].xml": OM.build_content_types([(pn, "application/x-verif-p", False, False),
                                                         (qn, "application/x-verif-q", False, False)]),
        "/_rels/.rels": OM.build_rels([("rId1", rt + "officeDocument", "Internal", pn[1:])]),
        pn: b"P",
        ref_rels(pn): OM.build_rels([("rId7", rt + "image", "Internal", ref)]),
        qn: b"Q",
    }
    buf = io.BytesIO()
    with zipfile.ZipFile(buf, "w") as z:
        for name, blob in members.items():
            z.writestr(name[1:], blob)
    buf.seek(0)
    from pptx.opc.package import OpcPackage

    try:
        pkg = OpcPackage.open(buf)
        src = pkg.part_related_by(rt + "officeDocument")
        got = sorted((rel.rId, str(rel.target_partname)) for rel in src.rels.values())
        parts = sorted(str(p.partname) for p in pkg.iter_parts())
    except Exception as e:
        raise Violation("C19:load-raises", "package with part %r related by Target=%r to %r: %r" % (pn, ref, qn, e))
    if str(src.partname) != pn or got != [("rId7", qn)] or parts != sorted([pn, qn]):
        raise Violation("C19:load-target", "part %r with Target=%r (RFC 3986: %r): loaded as %r with relationships %r; "
                        "parts %r" % (pn, ref, qn, str(src.partname), got, parts))
    return True


def check_reject(name):
    from pptx.opc.packuri import PackURI

    try:
        PackURI(name)
    except Exception:
        return
    raise Violation("C19:ctor-accepts-relative", "PackURI(%r) accepted" % (name,))


# ------------------------------------------------------------------ enumeration

def names_up_to(depth):
    out = ["/"]
    for d in range(1, depth + 1):
        for segs in itertools.product(ALPHABET, repeat=d):
            out.append("/" + "/".join(segs))
    return out


def nontrivial_pair(pn, qn):
    dp, dq = ref_basedir(pn), ref_basedir(qn)
    if dp != dq:
        return True
    return dp == "/" or pn == "/" or qn == "/"


def jobs(tier):
    depth = 4 if tier == "thorough" else 3
    js = [{"kind": "pairs", "shard": i, "depth": depth} for i in range(NSHARD)]
    js.append({"kind": "accessors", "depth": 4})
    js.append({"kind": "resolve", "depth": 4 if tier == "thorough" else 3})
    for i in range(16):
        js.append({"kind": "hyp", "shard": i, "n": 2500 if tier == "thorough" else 250})
    return js


def _refs(maxlen):
    segs = ALPHABET[:6] + [".", ".."]
    for n in range(1, maxlen + 1):
        for t in itertools.product(segs, repeat=n):
            if t[-1] in (".", ".."):
                continue
            yield "/".join(t)
            yield "/" + "/".join(t)


def run_job(job, seed, tier, rec, known):
    k = job["kind"]
    if k == "pairs":
        names = names_up_to(job["depth"])
        mine = names[job["shard"]::NSHARD]
        fails = {}
        n = nt = 0
        from pptx.opc.packuri import PackURI

        for pn in mine:
            base = PackURI(pn).baseURI
            dp = ref_basedir(pn)
            for qn in names:
                if qn == "/":
                    continue
                n += 1
                # fast path identical to check_pair
                try:
                    ok = str(PackURI.from_rel_ref(base, PackURI(qn).relative_ref(base))) == qn
                except Exception:
                    ok = False
                if not ok or n % 64 == 0:
                    try:
                        check_pair((pn, qn))
                    except Violation as v:
                        if v.key in known:
                            rec.known[v.key] += 1
                        else:
                            fails.setdefault(v.key, {"key": v.key, "message": v.message,
                                                     "case": ["pair", pn, qn]})
                dq = qn[: qn.rindex("/")] or "/"
                if dp != dq or dp == "/":
                    nt += 1
        rec.note_enum(n, nt, sample=["pair", mine[len(mine) // 2], names[len(names) // 3]])
        return list(fails.values())
    if k == "accessors":
        names = names_up_to(job["depth"])
        f = run_plain(lambda nm: check_accessors(nm), names, rec=rec, known=known)
        for x in f:
            x["case"] = ["name", x["case"]]
        f2 = run_plain(check_reject, ["a", "ppt/slides/slide1.xml", "\\ppt", "./a", "../a", "a/", " /a",
                                      "", "[Content_Types].xml"], rec=rec, known=known)
        for x in f2:
            x["case"] = ["reject", x["case"]]
        nt = sum(1 for nm in names if ref_idx_constraint(nm)[0] == "eq" or "." in ref_filename(nm))
        rec.note_enum(len(names) + 9, nt, sample=["name", names[777]])
        return f + f2
    if k == "resolve":
        bases = ["/"] + names_up_to(2)[1:]
        refs = list(_refs(job["depth"]))
        cases = ((b, r) for b in bases for r in refs)
        f = run_plain(check_resolve, cases, rec=rec, known=known)
        for x in f:
            x["case"] = ["resolve"] + x["case"]
        nt = sum(1 for r in refs if r.startswith("/") or "." in r.split("/") or ".." in r.split("/"))
        rec.note_enum(len(bases) * len(refs), nt * len(bases), sample=["resolve", bases[5], refs[len(refs) // 2]])
        return f
    if k == "hyp":
        from hypothesis import strategies as st

        seg = st.one_of(
            st.sampled_from(ALPHABET),
            st.from_regex(r"[A-Za-z][A-Za-z0-9_\-\[\]%]{0,6}(\.[A-Za-z0-9]{1,4}){0,2}", fullmatch=True),
            st.from_regex(r"[a-zA-Z]{1,6}[0-9]{1,4}(\.[a-z]{1,4})?", fullmatch=True),
        )
        name = st.lists(seg, min_size=1, max_size=6).map(lambda s: "/" + "/".join(s))

        def fn(case):
            pn, qn = case
            check_accessors(pn)
            check_pair((pn, qn))
            rec.note(["pair", pn, qn], nontrivial_pair(pn, qn))

        f = hyp_search(fn, st.tuples(name, name), seed=seed, max_examples=job["n"], rec=rec,
                       known=known)
        for x in f:
            x["case"] = ["hpair"] + list(x["case"])
        rel = st.lists(st.one_of(seg, st.sampled_from([".", ".."])), min_size=1, max_size=6).filter(
            lambda s: s[-1] not in (".", "..")).map("/".join)
        ref = st.one_of(rel, rel.map(lambda r: "/" + r))
        based = st.one_of(st.just("/"), st.lists(seg, min_size=1, max_size=4).map(lambda s: "/" + "/".join(s)))

        def fn2(case):
            check_resolve(case)
            rec.note(["resolve"] + list(case), True)

        f2 = hyp_search(fn2, st.tuples(based, ref), seed=seed + 7, max_examples=job["n"], rec=rec,
                        known=known)
        for x in f2:
            x["case"] = ["resolve"] + list(x["case"])
        tgt = st.tuples(name, st.one_of(st.none(), name), st.one_of(st.none(), name)).map(list)
        # distinct current names at every step (a package never holds two parts of one name)
        def distinct(ts):
            cur = [t[0] for t in ts]
            for step in (0, 1, 2):
                cur = [t[step] if t[step] is not None else c for t, c in zip(ts, cur)]
                if len(set(cur)) != len(cur):
                    return False
            return True

        def fn4(case):
            check_rels(case)
            rec.note(["rels", case[0], case[1]], any(t[1] is not None or t[2] is not None for t in case[1]))

        f4 = hyp_search(fn4, st.tuples(name, st.lists(tgt, min_size=1, max_size=4).filter(distinct)),
                        seed=seed + 11, max_examples=job["n"], rec=rec, known=known)
        for x in f4:
            x["case"] = ["rels"] + list(x["case"])
        def fn5(case):
            ok = check_load(case)
            if ok:
                rec.note(["load"] + list(case), True)
            else:
                rec.discarded += 1

        f5 = hyp_search(fn5, st.tuples(name, ref), seed=seed + 13, max_examples=job["n"], rec=rec, known=known)
        for x in f5:
            x["case"] = ["load"] + list(x["case"])
        nonslash = st.text(min_size=0, max_size=8).filter(lambda s: not s.startswith("/"))

        def fn3(s):
            check_reject(s)
            rec.note(["reject", s], False)

        f3 = hyp_search(fn3, nonslash, seed=seed + 9, max_examples=300, rec=rec, known=known)
        for x in f3:
            x["case"] = ["reject", x["case"]]
        return f + f2 + f3 + f4 + f5
    raise ValueError(k)


def replay(case):
    kind = case[0]
    if kind in ("pair", "hpair"):
        out = collect(check_pair, (case[1], case[2]))
        return out + collect(check_accessors, case[1])
    if kind == "name":
        return collect(check_accessors, case[1])
    if kind == "resolve":
        return collect(check_resolve, (case[1], case[2]))
    if kind == "reject":
        return collect(check_reject, case[1])
    if kind == "load":
        return collect(check_load, (case[1], case[2]))
    if kind == "rels":
        return collect(check_rels, (case[1], case[2]))
    raise ValueError(kind)
