"""C16 — recoverable irregular packages open intact; non-packages are refused cleanly.

Fault enumeration over the corpus decks with an independent OPC rewriter (vlib.opcmodel): each listed
irregularity at every applicable location, singly and in (sampled) pairs, in zip / stream / directory
form; plus non-packages. Oracle: independent reachability of the *faulted* package, C01's comparison of
the saved output, closure of XML references, and the documented exception class per refusal case.
"""
import io
import os
import shutil
import tempfile
import zipfile

from lxml import etree

from vlib.core import Violation, hyp_search, run_plain, collect, sut, REPO
from vlib import opcmodel as O
from vlib.corpus import corpus_decks
from checks.c01 import compare

PROPERTY = "C16"
LEVEL = "fault_enumeration"
RULE = ("per corpus deck: every internal relationship made dangling, every .rels item deleted, every "
        "Default/Override entry case-flipped, extra unreferenced members (files and directory entries), core "
        "properties removed, a non-structural part given an unknown content type, slide parts renamed by "
        "permutation / with gaps, directory form of each; pairs of these (Hypothesis-sampled); non-packages: "
        "empty, random bytes, text, zip truncated at 64 evenly spaced and the last 64 byte positions, zip "
        "without [Content_Types].xml / _rels/.rels / main part, .docx/.xlsx, main part of template / slideshow / "
        "slide / unknown content type, missing path, directory that is not a package - each as path and stream. "
        "Every fault case is non-trivial; distinct by (deck, fault list, form).")
ASSUMPTIONS = [
    "only open + save (+ slide iteration for faults that do not remove relationships) must work on irregular input",
    "corruption inside XML members or zip CRC damage are outside the listed fault kinds",
    "vlib.opcmodel is the reference reader/rewriter",
]

PRES_TYPES = ("application/vnd.openxmlformats-officedocument.presentationml.presentation.main+xml",
              "application/vnd.ms-powerpoint.presentation.macroEnabled.main+xml")
STRUCTURAL = ("presentationml.presentation", "presentationml.slide", "presentationml.notes", "drawingml.chart",
              "presentationml.template", "presentationml.slideshow", "macroEnabled")
_cache = {}


def load_deck(rel):
    if rel not in _cache:
        _cache[rel] = O.Pkg.read(os.path.join(REPO, rel))
    return _cache[rel].copy()


# ------------------------------------------------------------------ fault catalogue

def fault_locations(pkg):
    """list of JSON-able faults applicable to this package."""
    out = []
    reach, relmap, dangling = pkg.reachable()
    for src in ["/"] + reach:
        for r in relmap.get(src, []):
            if r.mode == "Internal" and r.resolved in pkg.members:
                out.append(["dangle", src, r.id])
    for name in sorted(pkg.members):
        if name.endswith(".rels") and "/_rels/" in name:
            out.append(["del_rels", name])
    root = etree.fromstring(pkg.members["/[Content_Types].xml"])
    for i, el in enumerate(root):
        if isinstance(el.tag, str):
            out.append(["caseflip_ct", i])
    out.append(["extra", "stray.bin"])
    out.append(["extra", "ppt/slides/unreferenced.xml"])
    out.append(["extra_dir", "ppt/emptydir/"])
    out.append(["extra", "docProps/thumbnail.jpeg"])
    if any(r.type == O.RT_CORE_PROPS for r in relmap.get("/", [])):
        out.append(["no_core"])
    for p in reach:
        ct = pkg.ctype(p) or ""
        if not any(s in ct for s in STRUCTURAL):
            out.append(["unknown_ct", p])
    slides = slide_parts(pkg)
    if len(slides) >= 1:
        out.append(["rename", "gap"])
        out.append(["rename", "shift100"])
        out.append(["rename", "shift1"])
    if len(slides) >= 2:
        out.append(["rename", "reverse"])
        out.append(["rename", "rotate"])
    if 3 <= len(slides) <= 4:
        import itertools
        for perm in itertools.permutations(range(len(slides))):
            if list(perm) != list(range(len(slides))):
                out.append(["rename", "perm", list(perm)])
    return out


def pres_part(pkg):
    for r in pkg.rels("/"):
        if r.type == O.RT_OFFICE_DOCUMENT and r.mode == "Internal":
            return r.resolved
    return None


def slide_parts(pkg):
    """slide part names in presentation (sldIdLst) order, via the presentation part's relationships."""
    pp = pres_part(pkg)
    if pp is None or pp not in pkg.members:
        return []
    rels = {r.id: r for r in pkg.rels(pp)}
    root = etree.fromstring(pkg.members[pp])
    out = []
    ns = "{http://schemas.openxmlformats.org/presentationml/2006/main}"
    lst = root.find(ns + "sldIdLst")
    if lst is None:
        return []
    for sid in lst:
        rid = sid.get("{%s}id" % O.NS_R)
        r = rels.get(rid)
        if r is not None and r.resolved in pkg.members:
            out.append(r.resolved)
    return out


def apply_fault(pkg, f):
    """mutate pkg in place; returns False if the location no longer exists (after an earlier fault)."""
    kind = f[0]
    if kind == "dangle":
        src, rid = f[1], f[2]
        name = O.rels_name(src)
        if name not in pkg.members:
            return False
        root = etree.fromstring(pkg.members[name])
        hit = False
        for el in root:
            if isinstance(el.tag, str) and el.get("Id") == rid and el.get("TargetMode", "Internal") == "Internal":
                t = el.get("Target")
                el.set("Target", (t.rsplit("/", 1)[0] + "/NULL") if "/" in t else "NULL")
                hit = True
        if not hit:
            return False
        pkg.set_member(name, etree.tostring(root, xml_declaration=True, encoding="UTF-8", standalone=True))
        return True
    if kind == "del_rels":
        if f[1] not in pkg.members:
            return False
        pkg.del_member(f[1])
        return True
    if kind == "caseflip_ct":
        root = etree.fromstring(pkg.members["/[Content_Types].xml"])
        els = [e for e in root]
        if f[1] >= len(els) or not isinstance(els[f[1]].tag, str):
            return False
        el = els[f[1]]
        if el.get("Extension") is not None:
            el.set("Extension", el.get("Extension").swapcase())
        elif el.get("PartName") is not None:
            el.set("PartName", el.get("PartName").swapcase())
        pkg.set_member("/[Content_Types].xml", etree.tostring(root, xml_declaration=True, encoding="UTF-8", standalone=True))
        return True
    if kind == "extra":
        name = "/" + f[1]
        if name in pkg.members:
            return False
        pkg.set_member(name, b"\x00\x01extra")
        return True
    if kind == "extra_dir":
        pkg.extra_dirs = getattr(pkg, "extra_dirs", []) + [f[1]]
        return True
    if kind == "no_core":
        name = "/_rels/.rels"
        if name not in pkg.members:
            return False
        root = etree.fromstring(pkg.members[name])
        hit = False
        for el in list(root):
            if isinstance(el.tag, str) and el.get("Type") == O.RT_CORE_PROPS:
                tgt = O.resolve("/", el.get("Target"))
                root.remove(el)
                if tgt in pkg.members:
                    pkg.del_member(tgt)
                hit = True
        if not hit:
            return False
        pkg.set_member(name, etree.tostring(root, xml_declaration=True, encoding="UTF-8", standalone=True))
        return True
    if kind == "unknown_ct":
        p = f[1]
        if p not in pkg.members:
            return False
        root = etree.fromstring(pkg.members["/[Content_Types].xml"])
        ns = "{%s}" % O.NS_CT
        for el in list(root):
            if isinstance(el.tag, str) and el.tag == ns + "Override" and el.get("PartName").lower() == p.lower():
                root.remove(el)
        e = etree.SubElement(root, ns + "Override")
        e.set("PartName", p)
        e.set("ContentType", "application/x-verif-unknown+thing")
        pkg.set_member("/[Content_Types].xml", etree.tostring(root, xml_declaration=True, encoding="UTF-8", standalone=True))
        return True
    if kind == "rename":
        slides = slide_parts(pkg)
        if not slides:
            return False
        d = O.dirname(slides[0])
        n = len(slides)
        how = f[1]
        if how == "gap":
            new = ["%s/slide%d.xml" % (d, 2 * i + 3) for i in range(n)]
        elif how == "shift1":
            # what a deck looks like after its first slide was deleted and it was saved: slide2..slide(n+1)
            new = ["%s/slide%d.xml" % (d, i + 2) for i in range(n)]
        elif how == "shift100":
            new = ["%s/slide%d.xml" % (d, 100 + i) for i in range(n)]
        elif how == "reverse":
            new = ["%s/slide%d.xml" % (d, n - i) for i in range(n)]
        elif how == "rotate":
            new = ["%s/slide%d.xml" % (d, (i + 1) % n + 1) for i in range(n)]
        else:
            perm = f[2]
            if len(perm) != n:
                return False
            new = ["%s/slide%d.xml" % (d, perm[i] + 1) for i in range(n)]
        # avoid collisions with non-slide members
        taken = set(pkg.members) - set(slides)
        if any(x in taken for x in new):
            return False
        # two-phase rename through temporary names (permutations)
        tmpn = ["%s/verifTmp%d.xml" % (d, i) for i in range(n)]
        pkg.rename_parts(dict(zip(slides, tmpn)))
        pkg.rename_parts(dict(zip(tmpn, new)))
        return True
    raise ValueError(kind)


def pkg_bytes(pkg):
    buf = io.BytesIO()
    with zipfile.ZipFile(buf, "w", zipfile.ZIP_DEFLATED) as z:
        for d in getattr(pkg, "extra_dirs", []):
            z.writestr(zipfile.ZipInfo(d), b"")
        for name in pkg.order:
            z.writestr(name[1:], pkg.members[name])
    return buf.getvalue()


# ------------------------------------------------------------------ expectation

def expectation(pkg):
    """-> ('ok',) | ('raises', exception class name)"""
    if "/[Content_Types].xml" not in pkg.members:
        return ("raises", "KeyError")
    pp = None
    for r in pkg.rels("/"):
        if r.type == O.RT_OFFICE_DOCUMENT and r.mode == "Internal" and r.resolved in pkg.members:
            pp = r.resolved
    if pp is None:
        return ("raises", "KeyError")
    if pkg.ctype(pp) not in PRES_TYPES:
        return ("raises", "ValueError")
    return ("ok",)


def present(pkg, form, tmp):
    data = pkg_bytes(pkg)
    if form == "stream":
        return io.BytesIO(data)
    if form == "zip":
        p = os.path.join(tmp, "in.pptx")
        with open(p, "wb") as fh:
            fh.write(data)
        return p
    d = os.path.join(tmp, "indir")
    if os.path.exists(d):
        shutil.rmtree(d)
    os.makedirs(d)
    pkg.to_dir(d)
    for x in getattr(pkg, "extra_dirs", []):
        os.makedirs(os.path.join(d, x), exist_ok=True)
    return d


def fault_key(faults):
    return "+".join(sorted({f[0] + (":" + f[1] if f[0] == "rename" else "") for f in faults}))


def run_fault_case(case, rec=None):
    from pptx import Presentation

    deck, faults, form = case["deck"], case["faults"], case["form"]
    pkg = load_deck(deck)
    applied = []
    for f in faults:
        if apply_fault(pkg, f):
            applied.append(f)
    if not applied:
        if rec is not None:
            rec.discarded += 1
        return
    fk = fault_key(applied)
    exp = expectation(pkg)
    tmp = tempfile.mkdtemp(prefix="verif-c16-")
    try:
        arg = present(pkg, form, tmp)
        try:
            prs = Presentation(arg)
        except Exception as e:
            if exp[0] == "raises" and type(e).__name__ == exp[1]:
                if rec is not None:
                    rec.note(case, True, classes=["refused:" + exp[1], "form:" + form] + ["fault:" + f[0] for f in applied])
                return
            if exp[0] == "raises":
                raise Violation("C16:refusal-class:%s:got=%s" % (exp[1], type(e).__name__),
                                "%s with %s (%s form): expected %s, got %r" % (deck, applied, form, exp[1], e))
            raise Violation("C16:open-fails:%s:%s" % (fk, type(e).__name__),
                            "%s with %s (%s form): open raised %r" % (deck, applied, form, e))
        if exp[0] == "raises":
            raise Violation("C16:accepted-non-presentation:%s" % exp[1],
                            "%s with %s opened although %s was expected" % (deck, applied, exp[1]))
        # loaded graph == reachability of the faulted package
        reach, relmap, dangling = pkg.reachable()
        pk = prs.part.package
        with sut("C16:iter"):
            got_parts = sorted(str(p.partname) for p in pk.iter_parts())
        if got_parts != sorted(reach):
            raise Violation("C16:loaded-parts:%s" % fk, "%s with %s: loaded %s, reachable %s"
                            % (deck, applied, [p for p in got_parts if p not in reach][:4],
                               [p for p in reach if p not in got_parts][:4]))
        with sut("C16:iter"):
            by_src = {}
            parts = {str(p.partname): p for p in pk.iter_parts()}
            def relkeys(rels):
                out = []
                for r in rels.values():
                    out.append((r.rId, r.reltype, "External" if r.is_external else "Internal",
                                r.target_ref if r.is_external else str(r.target_part.partname)))
                return sorted(out)
            by_src["/"] = relkeys(pk._rels)
            for n, p in parts.items():
                by_src[n] = relkeys(p.rels)
        for s in ["/"] + reach:
            expk = sorted(r.key() for r in relmap.get(s, []) if r.mode != "Internal" or r.resolved in pkg.members)
            if by_src.get(s) != expk:
                raise Violation("C16:loaded-rels:%s" % fk, "%s with %s: source %s has %s, expected %s"
                                % (deck, applied, s, by_src.get(s), expk))
        # loaded content types
        for n, p in parts.items():
            if p.content_type != pkg.ctype(n):
                raise Violation("C16:loaded-content-type:%s" % fk, "%s: %r vs %r" % (n, p.content_type, pkg.ctype(n)))
        # save and compare
        out = io.BytesIO()
        with sut("C16:save:" + fk):
            prs.save(out)
        o1 = O.Pkg.read(out.getvalue())
        compare(pkg, o1, "C16:saved:" + fk, drop_dangling=True)
        check_refs(pkg, o1, fk)
        # a deck that came without core properties gains them on first access: nothing it had may get lost by that
        # (also with core properties present: a part of another declared type in their place must not be doubled)
        if True:
            with sut("C16:core-properties-after-open:" + fk):
                was = prs.core_properties.author if any(f[0] == "no_core" for f in applied) else None
                prs.core_properties.author = "verif"
                out4 = io.BytesIO()
                prs.save(out4)
            if any(f[0] == "no_core" for f in applied) and was != "":
                raise Violation("C16:core-properties-after-open:not-its-own:%s" % fk,
                                "%s with %s: the deck came without core properties, yet its author reads %r right after "
                                "opening (decks opened earlier in this process had theirs set to 'verif')"
                                % (deck, applied, was))
            o4 = O.Pkg.read(out4.getvalue())
            r1, _m1, _d1 = o1.reachable()
            r4, _m4, _d4 = o4.reachable()
            lost = [n for n in r1 if n not in r4]
            if lost or o4.dups:
                raise Violation("C16:core-properties-after-open:parts-lost:%s" % fk,
                                "%s with %s: after the first access to core_properties the saved package lacks %s "
                                "(duplicates %s)" % (deck, applied, lost[:4], o4.dups[:4]))
            k1 = sorted(r.key() for r in o1.rels("/"))
            k4 = sorted(r.key() for r in o4.rels("/"))
            gone = [k for k in k1 if k not in k4]
            if gone:
                raise Violation("C16:core-properties-after-open:package-rels-lost:%s" % fk,
                                "%s with %s: package relationships %s disappeared" % (deck, applied, gone[:3]))
        # slide order / content preserved (only for faults that remove no relationship)
        if all(f[0] in ("rename", "caseflip_ct", "extra", "extra_dir", "no_core", "unknown_ct") for f in applied):
            exp_slides = slide_parts(pkg)
            with sut("C16:slides:" + fk):
                got = [O.c14n(s.part.blob) for s in prs.slides]
            want = [O.c14n(pkg.members[n]) for n in exp_slides]
            if got != want:
                raise Violation("C16:slide-order:%s" % fk, "%s with %s: slides differ from presentation order of the input"
                                % (deck, applied))
            out2 = io.BytesIO()
            with sut("C16:save-after-slides:" + fk):
                prs.save(out2)
            o2 = O.Pkg.read(out2.getvalue())
            _r, _m, dang = o2.reachable()
            if dang:
                raise Violation("C16:dangling-after-slides-access:%s" % fk, "%s with %s: %s" % (deck, applied, dang[:3]))
            with sut("C16:reopen:" + fk):
                prs2 = Presentation(io.BytesIO(out2.getvalue()))
                got2 = [O.c14n(s.part.blob) for s in prs2.slides]
            if got2 != want:
                raise Violation("C16:slide-order-after-reopen:%s" % fk, "%s with %s" % (deck, applied))
            # the opened deck is then used: the bytes of an image part the package declares with an unknown content
            # type are added as a picture (the part itself is kept as an opaque part, the picture gets its own)
            for f in applied:
                if f[0] != "unknown_ct" or not f[1].lower().startswith("/ppt/media/") or f[1] not in pkg.members:
                    continue
                blob = pkg.members[f[1]]
                try:
                    from PIL import Image as _PI
                    if _PI.open(io.BytesIO(blob)).format not in ("PNG", "JPEG", "GIF", "BMP", "TIFF"):
                        continue
                except Exception:
                    continue
                if not len(prs.slides):
                    continue
                with sut("C16:add-picture-of-unknown-typed-image:" + fk):
                    pic = prs.slides[0].shapes.add_picture(io.BytesIO(blob), 0, 0)
                    back = pic.image.blob
                    out5 = io.BytesIO()
                    prs.save(out5)
                o5 = O.Pkg.read(out5.getvalue())
                if back != blob or o5.members.get(f[1]) != blob or o5.dups:
                    raise Violation("C16:picture-of-unknown-typed-image:%s" % fk,
                                    "%s with %s: picture made from the bytes of %s returns %s bytes; part kept: %s; "
                                    "duplicates %s" % (deck, applied, f[1], "the same" if back == blob else "other",
                                                       o5.members.get(f[1]) == blob, o5.dups[:3]))
                pic._element.getparent().remove(pic._element)
                if rec is not None:
                    rec.cls("picture-of-unknown-typed-image")
                break
            # the opened deck is then used: slides added to it must not displace the ones it came with
            if any(f[0] == "rename" for f in applied):
                with sut("C16:add-slides-after-open:" + fk):
                    lay = prs.slide_layouts[0] if len(prs.slide_layouts) else None
                    nadd = 0
                    if lay is not None:
                        for _ in range(3):
                            prs.slides.add_slide(lay)
                            nadd += 1
                    out3 = io.BytesIO()
                    prs.save(out3)
                o3 = O.Pkg.read(out3.getvalue())
                if o3.dups:
                    raise Violation("C16:slides-added-after-open:duplicate-member:%s" % fk,
                                    "%s with %s: after adding %d slides the saved package has members %r twice"
                                    % (deck, applied, nadd, o3.dups[:4]))
                with sut("C16:reopen-after-add:" + fk):
                    prs3 = Presentation(io.BytesIO(out3.getvalue()))
                    got3 = [O.c14n(s.part.blob) for s in prs3.slides]
                if got3[:len(want)] != want or len(got3) != len(want) + nadd:
                    raise Violation("C16:slides-added-after-open:originals-changed:%s" % fk,
                                    "%s with %s: after adding %d slides, save and re-open the deck has %d slides and "
                                    "the first %d %s the input's" % (deck, applied, nadd, len(got3), len(want),
                                                                      "equal" if got3[:len(want)] == want else "differ from"))
    finally:
        shutil.rmtree(tmp, ignore_errors=True)
    if rec is not None:
        rec.note(case, True, classes=["opened", "form:" + form, "nfaults:%d" % len(applied)] + ["fault:" + f[0] for f in applied])


def check_refs(inp, outp, fk):
    """every r:* reference in an output XML part exists in its rels, unless it was dangling in the input"""
    reach, relmap, _ = outp.reachable()
    for p in reach:
        refs = outp.xml_refs(p)
        if not refs:
            continue
        ids = {r.id for r in relmap.get(p, [])}
        bad = {x for x in refs if x and x not in ids}
        if not bad:
            continue
        in_refs = inp.xml_refs(p) or set() if p in inp.members else set()
        in_ids = {r.id for r in inp.rels(p) if r.mode != "Internal" or r.resolved in inp.members} if p in inp.members else set()
        pre = {x for x in in_refs if x and x not in in_ids}
        new = bad - pre
        if new:
            raise Violation("C16:saved-dangling-xml-ref:%s" % fk, "part %s references %s not in its relationships" % (p, sorted(new)[:4]))


# ------------------------------------------------------------------ non-packages

def nonpackage_cases(tier):
    cases = []
    blobs = {
        "empty": ["lit", ""],
        "text": ["lit", "this is not a zip file\n" * 10],
        "pk-prefix": ["lit", "PK\x03\x04 but not really a zip"],
        "random": ["rand", 997],
    }
    for name, spec in blobs.items():
        for form in ("path", "stream"):
            cases.append({"np": name, "spec": spec, "form": form, "expect": "PackageNotFoundError" if form == "path" else "BadZipFile"})
    cases.append({"np": "missing-path", "spec": None, "form": "path", "expect": "PackageNotFoundError"})
    cases.append({"np": "non-package-dir", "spec": None, "form": "dir", "expect": "KeyError"})
    decks = ["tests/test_files/minimal.pptx", "tests/test_files/test.pptx"]
    if tier == "thorough":
        decks += ["features/steps/test_files/cht-charts.pptx", "tests/test_files/no-core-props.pptx"]
    for d in decks:
        for k in range(64):
            for form in ("path", "stream"):
                cases.append({"np": "trunc-frac", "deck": d, "k": k, "form": form,
                              "expect": "PackageNotFoundError" if form == "path" else "BadZipFile"})
                cases.append({"np": "trunc-tail", "deck": d, "k": k + 1, "form": form,
                              "expect": "PackageNotFoundError" if form == "path" else "BadZipFile"})
        for form in ("path", "stream", "dir"):
            cases.append({"np": "no-content-types", "deck": d, "form": form, "expect": "KeyError"})
            cases.append({"np": "no-root-rels", "deck": d, "form": form, "expect": "KeyError"})
            cases.append({"np": "no-main-part", "deck": d, "form": form, "expect": "KeyError"})
            for ct in ("application/vnd.openxmlformats-officedocument.presentationml.template.main+xml",
                       "application/vnd.openxmlformats-officedocument.presentationml.slideshow.main+xml",
                       "application/vnd.openxmlformats-officedocument.presentationml.slide+xml",
                       "application/x-unknown", "application/xml"):
                cases.append({"np": "main-ct", "deck": d, "ct": ct, "form": form, "expect": "ValueError"})
    for f in ("features/steps/test_files/shp-embedded-docx.docx", "features/steps/test_files/shp-embedded-xlsx.xlsx"):
        for form in ("path", "stream"):
            cases.append({"np": "other-office", "deck": f, "form": form, "expect": "ValueError"})
    return cases


def run_nonpackage(case, rec=None):
    from pptx import Presentation

    tmp = tempfile.mkdtemp(prefix="verif-c16n-")
    try:
        kind = case["np"]
        data = None
        pkg = None
        if kind in ("empty", "text", "pk-prefix"):
            data = case["spec"][1].encode("latin-1")
        elif kind == "random":
            # deterministic pseudo-random bytes (LCG), not a zip
            x = 12345
            b = bytearray()
            for _ in range(case["spec"][1]):
                x = (x * 1103515245 + 12345) & 0x7FFFFFFF
                b.append((x >> 16) & 0xFF)
            data = bytes(b)
        elif kind in ("trunc-frac", "trunc-tail"):
            full = open(os.path.join(REPO, case["deck"]), "rb").read()
            n = (len(full) * case["k"]) // 64 if kind == "trunc-frac" else len(full) - case["k"]
            data = full[:n]
        elif kind == "other-office":
            data = open(os.path.join(REPO, case["deck"]), "rb").read()
        elif kind in ("no-content-types", "no-root-rels", "no-main-part", "main-ct"):
            pkg = load_deck(case["deck"])
            if kind == "no-content-types":
                pkg.del_member("/[Content_Types].xml")
            elif kind == "no-root-rels":
                pkg.del_member("/_rels/.rels")
            elif kind == "no-main-part":
                pkg.del_member(pres_part(pkg))
            else:
                pp = pres_part(pkg)
                root = etree.fromstring(pkg.members["/[Content_Types].xml"])
                for el in root:
                    if isinstance(el.tag, str) and (el.get("PartName") or "").lower() == pp.lower():
                        el.set("ContentType", case["ct"])
                pkg.set_member("/[Content_Types].xml", etree.tostring(root, xml_declaration=True, encoding="UTF-8", standalone=True))
        form = case["form"]
        if kind == "missing-path":
            arg = os.path.join(tmp, "does-not-exist.pptx")
        elif kind == "non-package-dir":
            arg = os.path.join(tmp, "plaindir")
            os.makedirs(arg)
            open(os.path.join(arg, "readme.txt"), "w").write("x")
        elif pkg is not None:
            arg = present(pkg, {"path": "zip"}.get(form, form), tmp)
        elif form == "stream":
            arg = io.BytesIO(data)
        else:
            arg = os.path.join(tmp, "f.pptx")
            open(arg, "wb").write(data)
        expect = case["expect"]
        if data is not None and kind in ("trunc-frac", "trunc-tail") and zipfile.is_zipfile(io.BytesIO(data)):
            # a truncated deck can still be a zip: a stored (uncompressed) embedded .xlsx/.docx carries its own
            # end-of-central-directory record, so the prefix is that inner package with leading junk. It is then
            # judged as the package it is (missing member -> KeyError, non-presentation main part -> ValueError).
            try:
                inner = expectation(O.Pkg.read(data))
            except Exception:
                inner = ("raises", "KeyError")
            if inner[0] == "ok":
                return
            expect = inner[1]
        try:
            Presentation(arg)
        except Exception as e:
            got = type(e).__name__
            if got != expect:
                raise Violation("C16:refusal-class:%s:%s:got=%s" % (kind, expect, got),
                                "%s (%s form): expected %s, got %r" % (kind, form, expect, e))
        else:
            raise Violation("C16:non-package-accepted:%s" % kind, "%s (%s form) was opened" % (kind, form))
    finally:
        shutil.rmtree(tmp, ignore_errors=True)
    if rec is not None:
        rec.note(case, True, classes=["nonpackage:" + case["np"], "form:" + case["form"]])


# ------------------------------------------------------------------ jobs

QUICK_DECKS = ["tests/test_files/minimal.pptx", "tests/test_files/test.pptx", "tests/test_files/no-core-props.pptx",
               "features/steps/test_files/cht-charts.pptx", "features/steps/test_files/shp-shapes.pptx",
               "features/steps/test_files/sld-slides.pptx", "features/steps/test_files/prs-notes.pptx",
               "src/pptx/templates/default.pptx", "features/steps/test_files/mst-slide-layouts.pptx",
               "features/steps/test_files/shp-movie-props.pptx", "features/steps/test_files/act-props.pptx",
               "features/steps/test_files/tbl-cell.pptx"]


def jobs(tier):
    decks = corpus_decks()
    if tier != "thorough":
        have = set(decks)
        decks = [d for d in QUICK_DECKS if d in have]
    js = [{"kind": "single", "deck": d} for d in decks]
    js += [{"kind": "pairs", "deck": d, "n": 400 if tier == "thorough" else 150} for d in decks]
    js.append({"kind": "nonpackage"})
    if tier == "thorough":
        # coverage-guided supplement (atheris): 4 independent campaigns with different libFuzzer seeds
        js += [{"kind": "atheris", "i": i, "seconds": 90} for i in range(4)]
    return js


FORMS = ["zip", "stream", "dir"]


def run_job(job, seed, tier, rec, known):
    if job["kind"] == "atheris":
        return run_atheris(job, seed, rec, known)
    if job["kind"] == "nonpackage":
        fails = run_plain(lambda c: run_nonpackage(c, rec), nonpackage_cases(tier), rec=rec, known=known)
        return fails
    deck = job["deck"]
    locs = fault_locations(load_deck(deck))
    if job["kind"] == "single":
        cases = []
        for i, f in enumerate(locs):
            # every fault in one form (rotating), the structural kinds in all three
            forms = FORMS if (tier == "thorough" or f[0] in ("rename", "no_core", "extra_dir")) else [FORMS[i % 3]]
            for form in forms:
                cases.append({"deck": deck, "faults": [f], "form": form})
        return run_plain(lambda c: run_fault_case(c, rec), cases, rec=rec, known=known)
    from hypothesis import strategies as st
    n = len(locs)
    strat = st.tuples(st.integers(0, n - 1), st.integers(0, n - 1), st.sampled_from(FORMS)).filter(lambda t: t[0] != t[1])

    def fn(t):
        run_fault_case({"deck": deck, "faults": [locs[t[0]], locs[t[1]]], "form": t[2]}, rec)

    fails = hyp_search(fn, strat, seed=seed, max_examples=job["n"], rec=rec, known=known, shrink_budget=60)
    for f in fails:
        t = f["case"]
        f["case"] = {"deck": deck, "faults": [locs[t[0]], locs[t[1]]], "form": t[2]}
    return fails


def run_atheris(job, seed, rec, known):
    """coverage-guided campaign in a subprocess; unavailable atheris is recorded, never an error"""
    import json
    import subprocess
    import sys
    from vlib.core import VERIF
    target = os.path.join(VERIF, "fuzz", "c16_target.py")
    if not os.path.isdir(os.path.join(VERIF, ".deps", "atheris")):
        rec.cls("atheris:unavailable")
        return []
    tmp = tempfile.mkdtemp(prefix="verif-c16fz-")
    try:
        out = os.path.join(tmp, "out.json")
        cdir = os.path.join(tmp, "corpus")
        os.makedirs(cdir)
        env = dict(os.environ, PYTHONHASHSEED="0")
        subprocess.run([sys.executable, target, out, str(job["seconds"]), str(seed % 100000 + 1), cdir],
                       env=env, capture_output=True, timeout=job["seconds"] + 120)
        if not os.path.exists(out):
            rec.cls("atheris:no-output")
            return []
        res = json.load(open(out))
        rec.note_enum(res["runs"], res["distinct_cases"],
                      sample={"atheris_campaign": job["i"], "runs": res["runs"], "distinct_cases": res["distinct_cases"]})
        rec.cls("atheris:campaign")
        rec.extra["atheris_executions"] = rec.extra.get("atheris_executions", 0) + res["runs"]
        return [v for v in res["violations"] if v["key"] not in known]
    except subprocess.TimeoutExpired:
        rec.cls("atheris:timeout")
        return []
    finally:
        shutil.rmtree(tmp, ignore_errors=True)


def replay(case):
    if "np" in case:
        return collect(run_nonpackage, case)
    return collect(run_fault_case, case)
