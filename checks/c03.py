"""C03 — every XML part stays schema-valid after any operation sequence.

Generator: deckops op sequences (in- and out-of-domain arguments, rejected calls) over the default template
(bare / with a rich prelude) and the corpus decks. Oracle: ISO 29500 transitional XSDs (libxml2) after
markup-compatibility preprocessing; after every op each XML part whose serialisation changed is validated and
only errors that were not present for that part at load are reported; the final save is validated member by member.
"""
import hashlib
import io
import os

from vlib.core import Violation, hyp_search, collect, sut, REPO
from vlib import deckops as D
from vlib import xsdoracle as X
from vlib import opcmodel as O
from vlib.corpus import corpus_decks

PROPERTY = "C03"
LEVEL = "exploration"
RULE = ("operation sequences (8-25 ops quick, 8-50 thorough) from the deck operation language (shapes of every kind, "
        "placeholders inserts, text/paragraph/run edits, fill/line/font/geometry/table/chart formatting with in- and "
        "out-of-domain values, hyperlinks, notes, background, rejected calls, saves and re-opens) on the default "
        "template (bare or after a fixed rich prelude) and on corpus decks; every XML part whose blob changed is "
        "validated after each op. Non-trivial: the sequence changed >=1 part on >=3 steps or contained a rejected "
        "call. Distinct by hash of (start deck, op list).")
ASSUMPTIONS = [
    "libxml2's XSD validator on the transitional schemas shipped in /repo/spec is the judge",
    "only errors that were absent for that part when the deck was loaded count (corpus decks are not all valid)",
    "parts whose root namespace has no schema in /repo/spec are not validated",
]


def _digest(b):
    return hashlib.sha1(b).digest()


class XsdHook:
    def __init__(self, prs):
        self.base = {}     # id(part) -> baseline error set
        self.seen = {}     # id(part) -> digest of last validated blob
        self.changed_steps = 0
        self.validated = 0
        self.global_base = set()
        self._scan(prs, baseline=True)

    def _parts(self, prs):
        for part in prs.part.package.iter_parts():
            if hasattr(part, "_element"):
                yield part

    def _scan(self, prs, baseline=False, op=None, outcome=None):
        changed = False
        for part in self._parts(prs):
            blob = part.blob
            dg = _digest(blob)
            k = id(part)
            if self.seen.get(k) == dg:
                continue
            self.seen[k] = dg
            self._keep = getattr(self, "_keep", [])
            self._keep.append(part)  # keep parts alive so id() stays unique
            errs = X.errors(blob)
            if errs is None:
                continue
            self.validated += 1
            if baseline or k not in self.base:
                if baseline:
                    self.base[k] = errs
                    self.global_base |= errs
                    continue
                # a part created by an operation: must be valid outright
                self.base[k] = set()
            changed = True
            new = errs - self.base[k]
            if new:
                kinds = sorted(X.error_kinds(new))
                raise Violation("C03:%s" % kinds[0],
                                "after %s (%s) part %s has new schema errors: %s"
                                % (op, outcome, part.partname, sorted(new)[:3]))
        return changed

    def after_op(self, it, op, outcome, info):
        if op[0] in ("save", "read") or outcome.startswith("crashed"):
            return
        if self._scan(it.prs, op=op, outcome=outcome):
            self.changed_steps += 1

    def at_reopen(self, it):
        # new part objects: re-baseline with the *current* global errors only (nothing new may appear)
        old_global = set(self.global_base)
        self.base = {}
        self.seen = {}
        for part in self._parts(it.prs):
            blob = part.blob
            errs = X.errors(blob)
            self.seen[id(part)] = _digest(blob)
            self._keep.append(part)
            if errs is None:
                continue
            new = errs - old_global
            if new:
                kinds = sorted(X.error_kinds(new))
                raise Violation("C03:%s" % kinds[0], "after save+reopen part %s has schema errors: %s"
                                % (part.partname, sorted(new)[:3]))
            self.base[id(part)] = errs


def validate_saved(data, global_base, what):
    pkg = O.Pkg.read(data)
    for name in pkg.order:
        if not (name.endswith(".xml") or name.endswith(".rels")):
            continue
        errs = X.errors(pkg.members[name])
        if errs is None:
            continue
        new = errs - global_base
        if new:
            kinds = sorted(X.error_kinds(new))
            raise Violation("C03:saved:%s" % kinds[0], "%s: member %s of the saved file has schema errors: %s"
                            % (what, name, sorted(new)[:3]))


def start_deck(start):
    from pptx import Presentation
    if start in ("bare", "rich"):
        return Presentation()
    return Presentation(os.path.join(REPO, start))


def run_case(case, rec=None):
    start, ops = case["start"], case["ops"]
    with sut("C03:open"):
        prs = start_deck(start)
    hook = XsdHook(prs)
    # an undocumented exception is outside what C03 states (it is reported in evidence, class 'crashed');
    # the history stops there because the property promises nothing about the state it leaves behind
    it = D.Interp(prs, [hook], crash="stop", prefix="C03")
    if start == "rich":
        it.run(D.RICH_PRELUDE)
    it.run(ops)
    if not it.stopped:
        data = it.save_bytes()
        validate_saved(data, hook.global_base, "final save")
    if rec is not None:
        rejected = sum(v for k, v in it.counts.items() if k.endswith(":rejected"))
        nt = hook.changed_steps >= 3 or rejected > 0
        cls = ["start:" + ("corpus" if start not in ("bare", "rich") else start)]
        cls += ["op:" + k for k in it.counts]
        rec.note(case, nt, classes=cls)
        rec.extra["parts_validated"] = rec.extra.get("parts_validated", 0) + hook.validated
        rec.extra["steps_changing_a_part"] = rec.extra.get("steps_changing_a_part", 0) + hook.changed_steps
        rec.extra["rejected_calls"] = rec.extra.get("rejected_calls", 0) + rejected
        if it.crashes:
            rec.extra.setdefault("undocumented_exceptions_seen", [])
            for c in it.crashes:
                if c not in rec.extra["undocumented_exceptions_seen"]:
                    rec.extra["undocumented_exceptions_seen"].append(c)


WEIGHTS = {"fmt": 10, "seq": 10, "chart_fmt": 8, "table_op": 6, "set_text": 5, "para_op": 5, "core_prop": 0, "read": 1, "save": 1,
           "save_reopen": 1, "turbo": 0}


def jobs(tier):
    n = 60 if tier == "thorough" else 40
    decks = corpus_decks()
    js = []
    for i in range(16):
        mine = decks[i::16] if tier == "thorough" else decks[i::16][: 2]
        js.append({"shard": i, "n_template": n * 4, "decks": mine, "n_deck": n if tier == "thorough" else 6,
                   "max_ops": 50 if tier == "thorough" else 25})
    return js


def run_job(job, seed, tier, rec, known):
    from hypothesis import strategies as st
    fails = []
    ops = D.ops_strategy(job["max_ops"], WEIGHTS, min_ops=8)
    strat = st.builds(lambda s, o: {"start": s, "ops": o}, st.sampled_from(["bare", "rich", "rich"]), ops)
    fails += hyp_search(lambda c: run_case(c, rec), strat, seed=seed, max_examples=job["n_template"], rec=rec,
                        known=known, shrink_budget=120)
    for d in job["decks"]:
        strat = st.builds(lambda o, d=d: {"start": d, "ops": o}, ops)
        fails += hyp_search(lambda c: run_case(c, rec), strat, seed=seed + 1, max_examples=job["n_deck"], rec=rec,
                            known=known, shrink_budget=80, max_rounds=3)
    return fails


def replay(case):
    return collect(run_case, case)
