"""C17 — connector endpoints, group extents and freeform bounds obey their geometry.

Three generated-input searches against explicit models (all through the public API of a real
`Presentation`, observations through the API *and* through the raw XML attributes):

* connector: creation with arbitrary begin/end, then 1..12 endpoint assignments whose value is
  expressed relative to the other endpoint (before / on / beyond), to itself, or absolute; at slide
  level and inside groups nested 1..2.  Model = the four numbers.
* group: a self-contained op-sequence language (this module; the shared `deckops` engine of the
  design does not exist) — add a member of every kind into a container chosen modulo the current
  population of containers, groups nested <= 4, plus `add_group_shape(shapes=[...])` over shapes
  just created on the slide (which brings in table and movie members).  Model = tree of leaf boxes.
* freeform: start point, 1..4 contours (first one implicit, others through `move_to`), fractional /
  negative / repeated vertices, closed or open, scalar or (x, y) scale, origin offsets, converted
  once or twice, on the slide or inside a group.  Model = exact rational arithmetic.
"""
import math
from fractions import Fraction

from vlib.core import Violation, hyp_search, sut

PROPERTY = "C17"
LEVEL = "exploration"
EXHAUSTIVE = False
RULE = ("Hypothesis-generated cases of three kinds. connector: (type, container depth 0..2, begin/end, "
        "1..12 moves (attr, relative-to other endpoint|self|absolute, delta)); non-trivial = at least one "
        "move strictly crosses the other endpoint in its axis (sign of begin-end changes). group: 1..14 ops "
        "(kind in shape/textbox/picture/connector/chart/ole/freeform/group/group_of(members incl. table, "
        "movie), container index modulo population, x, y, w, h, aux); non-trivial = some group at nesting "
        "depth >= 2 holds members, >= 2 member kinds occur and at least one group state was actually "
        "compared. freeform: non-trivial = a negative or non-integer coordinate or x-scale != y-scale. "
        "distinct = distinct case hashes among non-trivial cases.")
ASSUMPTIONS = [
    "coordinates are int EMU within +-2*10^7 (connector / group) and local freeform units within +-10^6 "
    "with scales 10^-3..10^4, i.e. well inside ST_Coordinate; sizes are >= 0",
    "a group state is compared only when no group in the compared subtree is empty (bounding box of an "
    "empty group is undefined in the statement); skipped states are counted in `group_states_skipped_empty`",
    "members are never moved out of another group; add_group_shape(shapes=...) only receives shapes that "
    "were just created directly on the slide",
    "endpoint moves of a connector inside a group are judged by the connector clause only (the group "
    "clause speaks about additions)",
    "freeform vertices at an exact .5 tie may round either way (docstring: 'rounded to the nearest integer'); "
    "scaled position/size may differ by 1 EMU from the exact rational value",
    "picture / OLE members added without explicit size: the size reported by the API after creation is "
    "taken as the member's size (only the position is pinned)",
]

PIC = "/repo/tests/test_files/python-icon.jpeg"
MOVIE = "/repo/tests/test_files/dummy.mp4"
XLSX = "/repo/features/steps/test_files/shp-embedded-xlsx.xlsx"

NS_A = "http://schemas.openxmlformats.org/drawingml/2006/main"
NS_P = "http://schemas.openxmlformats.org/presentationml/2006/main"
A = "{%s}" % NS_A
P = "{%s}" % NS_P

ATTRS = ["begin_x", "begin_y", "end_x", "end_y"]
GROUP_KINDS = ["shape", "textbox", "picture", "connector", "chart", "ole", "freeform", "group", "group_of"]
SUB_KINDS = ["shape", "textbox", "picture", "connector", "chart", "ole", "freeform", "table", "movie"]
MAX_NEST = 4


# ------------------------------------------------------------------ violation sinks

class Raise:
    """search mode: known keys are counted and the case continues behind them."""

    def __init__(self, known, rec):
        self.known = known
        self.rec = rec

    def __call__(self, v):
        if v.key in self.known:
            if self.rec is not None:
                self.rec.known[v.key] += 1
            return
        raise v


class Collect:
    """replay mode: every violation is collected (first per key), the case continues."""

    def __init__(self):
        self.out = {}

    def __call__(self, v):
        self.out.setdefault(v.key, v)


# ------------------------------------------------------------------ shared helpers

def _new_slide():
    from pptx import Presentation

    prs = Presentation()
    return prs, prs.slides.add_slide(prs.slide_layouts[6])


def _api_box(shape):
    return (int(shape.left), int(shape.top), int(shape.width), int(shape.height))


def _bbox(boxes):
    x0 = min(b[0] for b in boxes)
    y0 = min(b[1] for b in boxes)
    x1 = max(b[0] + b[2] for b in boxes)
    y1 = max(b[1] + b[3] for b in boxes)
    return (x0, y0, x1 - x0, y1 - y0)


def _xml_xfrm(elm, parent_tag):
    """raw attribute reading of <parent_tag>/a:xfrm of a shape element -> dict of ints / flags."""
    xfrm = elm.find(parent_tag + "/" + A + "xfrm")
    if xfrm is None:
        return None
    out = {"flipH": xfrm.get("flipH") in ("1", "true"), "flipV": xfrm.get("flipV") in ("1", "true")}
    for tag, names in (("off", ("x", "y")), ("ext", ("cx", "cy")), ("chOff", ("x", "y")), ("chExt", ("cx", "cy"))):
        e = xfrm.find(A + tag)
        out[tag] = None if e is None else tuple(int(e.get(n)) for n in names)
    return out


# ------------------------------------------------------------------ connector part

def _connector_type(i):
    from pptx.enum.shapes import MSO_CONNECTOR

    return [MSO_CONNECTOR.STRAIGHT, MSO_CONNECTOR.ELBOW, MSO_CONNECTOR.CURVE][i % 3]


def check_connector_readings(cxn, model, phase):
    """model = [bx, by, ex, ey]; phase = 'create' or 'set=<attr>'."""
    for i, attr in enumerate(ATTRS):
        with sut("C17:connector:%s:read=%s" % (phase, attr)):
            got = getattr(cxn, attr)
        if got != model[i]:
            raise Violation("C17:connector:%s:wrong=%s" % (phase, attr),
                            "after %s the connector reports %s=%r, model says %r (model b=(%d,%d) e=(%d,%d))"
                            % (phase, attr, got, model[i], model[0], model[1], model[2], model[3]))
    w, h = int(cxn.width), int(cxn.height)
    if w < 0 or h < 0:
        raise Violation("C17:connector:%s:negative-extent" % phase, "width=%d height=%d" % (w, h))
    exp_box = (min(model[0], model[2]), min(model[1], model[3]),
               abs(model[2] - model[0]), abs(model[3] - model[1]))
    if _api_box(cxn) != exp_box:
        raise Violation("C17:connector:%s:box" % phase,
                        "left/top/width/height %r but endpoints span %r" % (_api_box(cxn), exp_box))
    x = _xml_xfrm(cxn._element, P + "spPr")
    if x is None or x["off"] is None or x["ext"] is None:
        raise Violation("C17:connector:%s:xml-no-xfrm" % phase, "p:cxnSp has no a:off/a:ext")
    (ox, oy), (cx, cy) = x["off"], x["ext"]
    xml_pts = [ox + cx if x["flipH"] else ox, oy + cy if x["flipV"] else oy,
               ox if x["flipH"] else ox + cx, oy if x["flipV"] else oy + cy]
    if cx < 0 or cy < 0 or xml_pts != list(model):
        raise Violation("C17:connector:%s:xml" % phase,
                        "a:xfrm off=%r ext=%r flipH=%r flipV=%r encodes %r, model %r"
                        % (x["off"], x["ext"], x["flipH"], x["flipV"], xml_pts, list(model)))


def run_connector(case, emit):
    """case = {ctype, depth, pts:[bx,by,ex,ey], moves:[[attr_i, mode, delta],...]} -> stats"""
    prs, slide = _new_slide()
    shapes = slide.shapes
    groups = []
    for _ in range(case["depth"]):
        g = shapes.add_group_shape()
        groups.append(g)
        shapes = g.shapes
    bx, by, ex, ey = [int(v) for v in case["pts"]]
    with sut("C17:connector:create"):
        cxn = shapes.add_connector(_connector_type(case["ctype"]), bx, by, ex, ey)
    model = [bx, by, ex, ey]
    check_connector_readings(cxn, model, "create")
    # the addition clause for the enclosing groups (innermost outwards)
    box = _api_box(cxn)
    for depth_i, g in enumerate(reversed(groups)):
        if _api_box(g) != box:
            emit(Violation("C17:group-bbox:after=add_connector:group=%s" % ("target" if depth_i == 0 else "ancestor"),
                           "group box %r, its only member spans %r" % (_api_box(g), box)))
            break
    crossed = landed = 0
    for ai, mode, delta in case["moves"]:
        attr = ATTRS[ai]
        other = model[ai ^ 2]
        val = other + delta if mode == "other" else model[ai] + delta if mode == "self" else delta
        before = (model[ai] > other) - (model[ai] < other)
        after = (val > other) - (val < other)
        if before * after < 0:
            crossed += 1
        if after == 0:
            landed += 1
        with sut("C17:connector:set=%s" % attr):
            setattr(cxn, attr, val)
        model[ai] = val
        check_connector_readings(cxn, model, "set=%s" % attr)
    return {"crossed": crossed, "landed": landed}


# ------------------------------------------------------------------ freeform model + oracle

def _round_variants(v):
    """acceptable integer roundings of v ('nearest'; an exact .5 tie may go either way)."""
    f = math.floor(v)
    if v - f == 0.5:
        return (int(f), int(f) + 1)
    return (int(f) if v - f < 0.5 else int(f) + 1,)


def _rounders():
    def half_even(v):
        return int(round(v))

    def half_up(v):
        return int(math.floor(v + 0.5)) if v - math.floor(v) == 0.5 else _round_variants(v)[0]

    def half_down(v):
        return int(math.ceil(v - 0.5)) if v - math.floor(v) == 0.5 else _round_variants(v)[0]

    def half_away(v):
        if v - math.floor(v) == 0.5:
            return int(math.floor(v)) if v < 0 else int(math.floor(v)) + 1
        return _round_variants(v)[0]

    return [half_even, half_up, half_down, half_away]


def freeform_model(ff, rnd):
    """-> (ops, xs, ys): ops = [('moveTo'|'lnTo', x, y) | ('close',)] in rounded local coordinates."""
    sx, sy = rnd(ff["start"][0]), rnd(ff["start"][1])
    ops = [("moveTo", sx, sy)]
    for i, c in enumerate(ff["contours"]):
        if i > 0:
            ops.append(("moveTo", rnd(c["move"][0]), rnd(c["move"][1])))
        for vx, vy in c["verts"]:
            ops.append(("lnTo", rnd(vx), rnd(vy)))
        if c["close"] is None or c["close"]:
            ops.append(("close",))
    xs = [o[1] for o in ops if len(o) == 3]
    ys = [o[2] for o in ops if len(o) == 3]
    return ops, xs, ys


def _as_iterable(verts, k):
    """the vertices as the kinds of iterable callers pass: list, tuple, or a one-shot iterator / generator"""
    k %= 4
    if k == 0:
        return verts
    if k == 1:
        return tuple(verts)
    if k == 2:
        return iter(verts)
    return (v for v in verts)


def _scales(scale):
    if isinstance(scale, (list, tuple)):
        return scale[0], scale[1]
    return scale, scale


def _check_freeform_against(shape, ff, origin, rnd):
    """raises Violation for the first clause that fails under rounding function rnd."""
    from lxml import etree

    ops, xs, ys = freeform_model(ff, rnd)
    min_x, max_x, min_y, max_y = min(xs), max(xs), min(ys), max(ys)
    sx, sy = _scales(ff["scale"])
    fx, fy = Fraction(sx), Fraction(sy)
    ox, oy = origin if origin is not None else (0, 0)
    left, top, width, height = _api_box(shape)
    for name, got, exact in (("left", left, ox + min_x * fx), ("top", top, oy + min_y * fy),
                             ("width", width, (max_x - min_x) * fx), ("height", height, (max_y - min_y) * fy)):
        if abs(got - exact) > 1:
            raise Violation("C17:freeform:%s" % name,
                            "%s=%d but scaled bounding box gives %s (local x %d..%d y %d..%d, scale %r, origin %r)"
                            % (name, got, float(exact), min_x, max_x, min_y, max_y, ff["scale"], origin))
    if width < 0 or height < 0:
        raise Violation("C17:freeform:negative-extent", "width=%d height=%d" % (width, height))
    # raw XML (re-parsed with plain lxml)
    root = etree.fromstring(etree.tostring(shape._element))
    x = _xml_xfrm(root, P + "spPr")
    if x is None or (x["off"] + x["ext"]) != (left, top, width, height):
        raise Violation("C17:freeform:xml-xfrm", "a:xfrm %r differs from API box %r" % (x, (left, top, width, height)))
    paths = root.findall(".//" + A + "pathLst/" + A + "path")
    if len(paths) != 1:
        raise Violation("C17:freeform:path-count", "%d a:path elements" % len(paths))
    path = paths[0]
    w, h = int(path.get("w")), int(path.get("h"))
    if w != max_x - min_x:
        raise Violation("C17:freeform:path-w", "a:path/@w=%d, local extent %d" % (w, max_x - min_x))
    if h != max_y - min_y:
        raise Violation("C17:freeform:path-h", "a:path/@h=%d, local extent %d" % (h, max_y - min_y))
    got_ops = []
    for child in path:
        tag = etree.QName(child).localname
        if tag == "close":
            got_ops.append(("close",))
            continue
        pts = child.findall(A + "pt")
        if len(pts) != 1:
            raise Violation("C17:freeform:pt-count", "a:%s has %d a:pt" % (tag, len(pts)))
        got_ops.append((tag, int(pts[0].get("x")), int(pts[0].get("y"))))
    for o in got_ops:
        if len(o) == 3 and not (0 <= o[1] <= w and 0 <= o[2] <= h):
            raise Violation("C17:freeform:pt-out-of-extents",
                            "a:pt (%d,%d) outside path extents w=%d h=%d" % (o[1], o[2], w, h))
    if [o[0] for o in got_ops] != [o[0] for o in ops]:
        raise Violation("C17:freeform:op-sequence", "path has %r, pen history %r"
                        % ([o[0] for o in got_ops], [o[0] for o in ops]))
    for i, (g, e) in enumerate(zip(got_ops, ops)):
        if len(e) != 3:
            continue
        if g[1] != e[1] - min_x:
            raise Violation("C17:freeform:first-moveTo-x" if i == 0 else "C17:freeform:pt-x",
                            "op %d a:%s x=%d, expected %d-(%d)" % (i, g[0], g[1], e[1], min_x))
        if g[2] != e[2] - min_y:
            raise Violation("C17:freeform:first-moveTo-y" if i == 0 else "C17:freeform:pt-y",
                            "op %d a:%s y=%d, expected %d-(%d)" % (i, g[0], g[2], e[2], min_y))


def check_freeform(shape, ff, origin):
    first = None
    for rnd in _rounders():
        try:
            _check_freeform_against(shape, ff, origin, rnd)
            return
        except Violation as v:
            if first is None:
                first = v
            if not _has_tie(ff):
                break
    raise first


def _has_tie(ff):
    vals = list(ff["start"])
    for i, c in enumerate(ff["contours"]):
        if i > 0:
            vals += list(c["move"])
        for v in c["verts"]:
            vals += list(v)
    return any(isinstance(v, float) and v - math.floor(v) == 0.5 for v in vals)


def build_freeform(shapes, ff):
    scale = ff["scale"]
    if isinstance(scale, list):
        scale = tuple(scale)
    with sut("C17:freeform:build"):
        fb = shapes.build_freeform(ff["start"][0], ff["start"][1], scale=scale)
        for i, c in enumerate(ff["contours"]):
            if i > 0:
                fb.move_to(c["move"][0], c["move"][1])
            verts = _as_iterable([(v[0], v[1]) for v in c["verts"]], i + len(c["verts"]))
            if c["close"] is None:
                fb.add_line_segments(verts)
            else:
                fb.add_line_segments(verts, close=c["close"])
    return fb


def convert_freeform(fb, origin):
    with sut("C17:freeform:convert"):
        if origin is None:
            return fb.convert_to_shape()
        return fb.convert_to_shape(origin[0], origin[1])


def ff_nontrivial(ff):
    vals = list(ff["start"])
    for i, c in enumerate(ff["contours"]):
        if i > 0:
            vals += list(c["move"])
        for v in c["verts"]:
            vals += list(v)
    sx, sy = _scales(ff["scale"])
    return any(v < 0 or v != int(v) for v in vals) or sx != sy


def run_freeform(case, emit):
    """case = {depth, ff:{start, scale, contours}, origins:[origin|None, ...]}"""
    prs, slide = _new_slide()
    shapes = slide.shapes
    groups = []
    for _ in range(case["depth"]):
        g = shapes.add_group_shape()
        groups.append(g)
        shapes = g.shapes
    ff = case["ff"]
    fb = build_freeform(shapes, ff)
    boxes = []
    for origin in case["origins"]:
        shape = convert_freeform(fb, origin)
        check_freeform(shape, ff, origin)
        boxes.append(_api_box(shape))
        if groups:
            g = groups[-1]
            members = [_api_box(m) for m in g.shapes]
            if len(members) != len(boxes):
                raise Violation("C17:group-structure:after=add_freeform", "group has %d members, %d were added"
                                % (len(members), len(boxes)))
            if _api_box(g) != _bbox(members):
                emit(Violation("C17:freeform-in-group-no-recalc",
                               "group box %r after convert_to_shape, members span %r" % (_api_box(g), _bbox(members))))
    # the same builder extended after it was converted (more contours reaching further), converted again
    if case.get("extend"):
        import copy as _copy
        ff2 = _copy.deepcopy(ff)
        with sut("C17:freeform:build"):
            for c in case["extend"]:
                fb.move_to(c["move"][0], c["move"][1])
                verts = [(v[0], v[1]) for v in c["verts"]]
                if c["close"] is None:
                    fb.add_line_segments(verts)
                else:
                    fb.add_line_segments(verts, close=c["close"])
                ff2["contours"].append(c)
        origin = case["origins"][0]
        shape = convert_freeform(fb, origin)
        check_freeform(shape, ff2, origin)
    return {}


# ------------------------------------------------------------------ group part: op language

class Node:
    __slots__ = ("kind", "children", "box", "parent", "depth")

    def __init__(self, kind, parent=None, box=None):
        self.kind = kind
        self.children = [] if kind in ("slide", "group") else None
        self.box = box
        self.parent = parent
        self.depth = 0 if parent is None else parent.depth + (1 if kind == "group" else 0)

    def ancestors(self):
        n = self.parent
        while n is not None:
            yield n
            n = n.parent

    def has_empty(self):
        if self.children is None:
            return False
        if self.kind == "group" and not self.children:
            return True
        return any(c.has_empty() for c in self.children)

    def leaf_boxes(self):
        if self.children is None:
            return [self.box]
        out = []
        for c in self.children:
            out += c.leaf_boxes()
        return out

    def subtree_groups(self):
        if self.children is None:
            return
        if self.kind == "group":
            yield self
        for c in self.children:
            for g in c.subtree_groups():
                yield g


_SHAPES = None


def _mso_shapes():
    global _SHAPES
    if _SHAPES is None:
        from pptx.enum.shapes import MSO_SHAPE

        _SHAPES = [MSO_SHAPE.RECTANGLE, MSO_SHAPE.OVAL, MSO_SHAPE.RIGHT_ARROW, MSO_SHAPE.ROUNDED_RECTANGLE,
                   MSO_SHAPE.CLOUD, MSO_SHAPE.STAR_5_POINT, MSO_SHAPE.CHEVRON, MSO_SHAPE.DONUT]
    return _SHAPES


def _group_ff(x, y, w, h, aux):
    """the freeform a group op stands for: rectangle-ish contour from (0,0), origin (x, y)."""
    gx = -1 if aux & 1 else 1
    gy = -1 if aux & 2 else 1
    scale = [1.0, 2.0, [0.5, 3.0], 1.0][(aux >> 2) & 3]
    ff = {"start": [0, 0], "scale": scale,
          "contours": [{"move": None, "verts": [[gx * w, 0], [gx * w, gy * h], [0, gy * h]], "close": True}]}
    return ff, [x, y]


def add_leaf(shapes, kind, x, y, w, h, aux):
    """add one non-group member through the public API; verify its reported box against the request;
    -> the member's box (l, t, w, h)."""
    from pptx.chart.data import CategoryChartData
    from pptx.enum.chart import XL_CHART_TYPE
    from pptx.enum.shapes import PROG_ID

    exp_pos, exp_size = (x, y), (w, h)
    what = "C17:group:add_%s" % kind
    if kind == "shape":
        with sut(what):
            s = shapes.add_shape(_mso_shapes()[aux % 8], x, y, w, h)
    elif kind == "textbox":
        with sut(what):
            s = shapes.add_textbox(x, y, w, h)
    elif kind == "picture":
        mode = aux % 4
        pw = max(w, 1) if mode in (1, 3) else None
        ph = max(h, 1) if mode in (2, 3) else None
        with sut(what):
            s = shapes.add_picture(PIC, x, y, pw, ph)
        exp_size = (pw, ph)
    elif kind == "connector":
        bx, ex = (x + w, x) if aux & 1 else (x, x + w)
        by, ey = (y + h, y) if aux & 2 else (y, y + h)
        with sut(what):
            s = shapes.add_connector(_connector_type(aux >> 2), bx, by, ex, ey)
        check_connector_readings(s, [bx, by, ex, ey], "create")
    elif kind == "chart":
        cd = CategoryChartData()
        cd.categories = ["a", "b"]
        cd.add_series("s", (1, 2))
        ct = [XL_CHART_TYPE.PIE, XL_CHART_TYPE.COLUMN_CLUSTERED, XL_CHART_TYPE.LINE][aux % 3]
        with sut(what):
            s = shapes.add_chart(ct, x, y, w, h, cd)
    elif kind == "ole":
        with sut(what):
            if aux & 1:
                s = shapes.add_ole_object(XLSX, PROG_ID.XLSX, x, y, w, h)
            else:
                s = shapes.add_ole_object(XLSX, PROG_ID.XLSX, x, y)
                exp_size = (None, None)
    elif kind == "table":
        with sut(what):
            s = shapes.add_table(1 + aux % 2, 1 + (aux >> 1) % 2, x, y, w, h)
    elif kind == "movie":
        with sut(what):
            s = shapes.add_movie(MOVIE, x, y, w, h)
    elif kind == "freeform":
        ff, origin = _group_ff(x, y, w, h, aux)
        fb = build_freeform(shapes, ff)
        s = convert_freeform(fb, origin)
        check_freeform(s, ff, origin)
        return _api_box(s)
    else:
        raise ValueError(kind)
    box = _api_box(s)
    if (box[0], box[1]) != exp_pos:
        raise Violation("C17:member-box:kind=%s:position" % kind,
                        "added at %r, API reports left/top %r" % (exp_pos, box[:2]))
    for got, exp, nm in ((box[2], exp_size[0], "width"), (box[3], exp_size[1], "height")):
        if exp is not None and got != exp:
            raise Violation("C17:member-box:kind=%s:size" % kind, "%s requested %r, API reports %r" % (nm, exp, got))
    if box[2] < 0 or box[3] < 0:
        raise Violation("C17:member-box:kind=%s:negative" % kind, "box %r" % (box,))
    return box


def _verify_groups(slide, root, op_kind, target, stale, emit, stats):
    """walk API tree and model tree in parallel; compare every group."""
    from pptx.enum.shapes import MSO_SHAPE_TYPE

    pairs = []  # (node, api group shape)

    def walk(api_shapes, node):
        members = list(api_shapes)
        if len(members) != len(node.children):
            raise Violation("C17:group-structure:after=add_%s" % op_kind,
                            "container holds %d members, %d were added" % (len(members), len(node.children)))
        for m, c in zip(members, node.children):
            if c.kind == "group":
                if m.shape_type != MSO_SHAPE_TYPE.GROUP:
                    raise Violation("C17:group-structure:after=add_%s" % op_kind, "member is %r, expected a group"
                                    % (m.shape_type,))
                pairs.append((c, m))
                walk(m.shapes, c)
            else:
                if _api_box(m) != c.box:
                    raise Violation("C17:member-moved:after=add_%s:kind=%s" % (op_kind, c.kind),
                                    "member box was %r at creation, now %r" % (c.box, _api_box(m)))

    walk(slide.shapes, root)
    anc = set(id(a) for a in target.ancestors())

    def rel(node):
        return "target" if node is target else "ancestor" if id(node) in anc else "other"

    # pass 1: raw XML consistency + local rule (box == bbox of the members' reported boxes)
    for node, g in pairs:
        x = _xml_xfrm(g._element, P + "grpSpPr")
        if x is None or None in (x["off"], x["ext"], x["chOff"], x["chExt"]):
            raise Violation("C17:group-xfrm-incomplete:after=add_%s" % op_kind, "a:xfrm of group: %r" % (x,))
        if x["off"] + x["ext"] != _api_box(g):
            raise Violation("C17:group-xml-vs-api", "a:off/a:ext %r, API box %r" % (x["off"] + x["ext"], _api_box(g)))
        if x["chOff"] != x["off"] or x["chExt"] != x["ext"]:
            emit(Violation("C17:group-chOff-chExt:after=add_%s:group=%s" % (op_kind, rel(node)),
                           "a:chOff/a:chExt %r differ from a:off/a:ext %r"
                           % (x["chOff"] + x["chExt"], x["off"] + x["ext"])))
        if node.has_empty():
            stats["skipped_empty"] += 1
            continue
        if id(node) in stale:
            stats["skipped_stale"] += 1
            continue
        got = _api_box(g)
        exp = _bbox([_api_box(m) for m in g.shapes])
        stats["checked"] += 1
        if got != exp:
            if op_kind == "freeform" and rel(node) in ("target", "ancestor"):
                # one root cause: convert_to_shape never triggers the (upward) recalculation
                key = "C17:freeform-in-group-no-recalc"
            else:
                key = "C17:group-bbox:after=add_%s:group=%s" % (op_kind, rel(node))
            stale.add(id(node))
            emit(Violation(key, "group at depth %d reports %r, members' reported boxes span %r" % (node.depth, got, exp)))
    # pass 2: recursive rule against the model (box == bbox of all leaf descendants as requested)
    for node, g in pairs:
        if node.has_empty() or any(id(s) in stale for s in node.subtree_groups()):
            continue
        got = _api_box(g)
        exp = _bbox(node.leaf_boxes())
        if got != exp:
            stale.add(id(node))
            emit(Violation("C17:group-bbox-recursive:after=add_%s:group=%s" % (op_kind, rel(node)),
                           "group at depth %d reports %r, leaf members span %r" % (node.depth, got, exp)))


def _expand(ops):
    """a 'group' op with odd aux is followed by a first member added into the new group (container
    index 0 = the most recently created container)."""
    for op in ops:
        yield op
        if op["k"] == "group" and op["aux"] & 1:
            first = dict(op)
            first["k"] = ["shape", "textbox", "connector", "picture"][(op["aux"] >> 1) % 4]
            first["c"] = 0
            yield first


def run_group(case, emit):
    """case = {ops:[{k, c, x, y, w, h, aux, m?}, ...]} -> stats"""
    prs, slide = _new_slide()
    root = Node("slide")
    containers = [(root, slide.shapes)]  # creation order; index 0 = the slide itself
    stale = set()
    stats = {"checked": 0, "skipped_empty": 0, "skipped_stale": 0, "max_depth": 0, "kinds": set(), "ops": 0}
    for op in _expand(case["ops"]):
        kind = op["k"]
        makes_group = kind in ("group", "group_of")
        eligible = [c for c in containers if not makes_group or c[0].depth < MAX_NEST]
        # index counts from the most recently created container so new groups get populated
        node, shapes = eligible[-1 - (op["c"] % len(eligible))]
        x, y, w, h, aux = op["x"], op["y"], op["w"], op["h"], op["aux"]
        if kind == "move":
            # reposition an existing leaf member (not an addition: the enclosing groups are stale until the
            # next addition into that subtree, which must then repair the whole chain of ancestors)
            leaf_idx = [i for i, c in enumerate(node.children) if c.children is None]
            if not leaf_idx:
                continue
            i = leaf_idx[aux % len(leaf_idx)]
            member = list(shapes)[i]
            with sut("C17:group:move-member"):
                member.left = x
                member.top = y
            node.children[i].box = _api_box(member)
            for n in [node] + list(node.ancestors()):
                if n.kind == "group":
                    stale.add(id(n))
            stats["kinds"].add("move")
            stats["ops"] += 1
            _verify_groups(slide, root, "move", node, stale, emit, stats)
            continue
        if kind == "group":
            with sut("C17:group:add_group_shape"):
                g = shapes.add_group_shape()
            child = Node("group", node)
            node.children.append(child)
            containers.append((child, g.shapes))
        elif kind == "group_of":
            made = []
            child = Node("group", node)
            for sk, mx, my, mw, mh, maux in op["m"]:
                before = len(slide.shapes)
                box = add_leaf(slide.shapes, sk, mx, my, mw, mh, maux)
                made.append(list(slide.shapes)[before])
                child.children.append(Node(sk, child, box))
                stats["kinds"].add(sk)
            with sut("C17:group:add_group_shape(shapes)"):
                g = shapes.add_group_shape(shapes=made)
            node.children.append(child)
            containers.append((child, g.shapes))
            for n in [child, node] + list(node.ancestors()):
                stale.discard(id(n))
        else:
            box = add_leaf(shapes, kind, x, y, w, h, aux)
            node.children.append(Node(kind, node, box))
            if kind != "freeform":
                for n in [node] + list(node.ancestors()):
                    stale.discard(id(n))
        stats["kinds"].add(kind)
        stats["ops"] += 1
        target = node if kind != "group_of" else child
        if target.kind == "group" and target.children:
            stats["max_depth"] = max(stats["max_depth"], target.depth)
        _verify_groups(slide, root, kind, target, stale, emit, stats)
    return stats


# ------------------------------------------------------------------ strategies

def _strategies():
    from hypothesis import strategies as st

    big = 2 * 10 ** 7
    coord = st.one_of(st.integers(-big, big), st.integers(-big, big), st.integers(-100, 100),
                      st.sampled_from([0, 1, -1, 914400, -914400, 12700]))
    size = st.one_of(st.integers(0, big), st.integers(0, 100), st.sampled_from([0, 1, 914400]))
    delta = st.one_of(st.sampled_from([0, 1, -1]), st.integers(-2 * big, 2 * big), st.integers(-1000, 1000))
    move = st.tuples(st.integers(0, 3), st.sampled_from(["other", "other", "self", "abs"]), delta)
    pts = st.one_of(
        st.tuples(coord, coord, coord, coord),
        st.tuples(coord, coord, coord, coord),
        st.tuples(coord, coord, coord, coord),
        st.tuples(coord, coord, coord, coord),
        st.tuples(coord, coord, coord, coord),
        st.tuples(coord, coord, coord, coord).map(lambda t: (min(t[0], t[2]), max(t[1], t[3]),
                                                              max(t[0], t[2]), min(t[1], t[3]))),
        st.tuples(coord, coord, coord, coord).map(lambda t: (max(t[0], t[2]), max(t[1], t[3]),
                                                              min(t[0], t[2]), min(t[1], t[3]))),
        st.tuples(coord, coord).map(lambda t: (t[0], t[1], t[0], t[1])),  # degenerate: begin == end
        st.tuples(coord, coord, coord).map(lambda t: (t[0], t[1], t[0], t[2])),  # vertical line
        st.tuples(coord, coord, coord).map(lambda t: (t[0], t[1], t[2], t[1])),  # horizontal line
    )
    cxn = st.fixed_dictionaries({
        "ctype": st.integers(0, 2),
        "depth": st.sampled_from([0, 0, 1, 2]),
        "pts": pts,
        "moves": st.lists(move, min_size=1, max_size=12),
    })

    sub = st.tuples(st.sampled_from(SUB_KINDS), coord, coord, size, size, st.integers(0, 15))
    def op_of(kind_strategy):
        return st.fixed_dictionaries({
            "k": kind_strategy, "c": st.sampled_from([0, 0, 0, 0, 1, 1, 2, 3, 4, 5]), "x": coord, "y": coord,
            "w": size, "h": size, "aux": st.integers(0, 15),
            "m": st.lists(sub, min_size=1, max_size=3),
        }).map(lambda d: d if d["k"] == "group_of" else {k: v for k, v in d.items() if k != "m"})

    op = op_of(st.sampled_from(GROUP_KINDS + ["shape", "group", "group", "group", "freeform", "connector", "move", "move"]))
    first = op_of(st.sampled_from(["group", "group", "group_of"]))  # cases that start by making a group
    grp = st.fixed_dictionaries({"ops": st.one_of(
        st.lists(op, min_size=1, max_size=14),
        st.tuples(first, st.lists(op, min_size=1, max_size=13)).map(lambda t: [t[0]] + t[1]),
        st.tuples(first, st.lists(op, min_size=1, max_size=13)).map(lambda t: [t[0]] + t[1]),
    )})

    lim = 10 ** 6
    num = st.one_of(
        st.integers(-lim, lim), st.integers(-50, 50),
        st.floats(min_value=-lim, max_value=lim, allow_nan=False, allow_infinity=False),
        st.integers(-1000, 1000).map(lambda k: k + 0.5),
        st.integers(-4000, 4000).map(lambda k: k / 4.0),
    )
    pt = st.tuples(num, num)
    verts = st.one_of(
        st.lists(pt, min_size=1, max_size=12),
        st.tuples(pt, st.integers(2, 5)).map(lambda t: [t[0]] * t[1]),  # repeated vertex
    )
    contour = st.fixed_dictionaries({"move": pt, "verts": verts, "close": st.sampled_from([True, False, None])})
    sc = st.one_of(st.sampled_from([1.0, 1, 2, 0.5, 914.4, 0.001, 10000.0, 1.0 / 3, 360.0]),
                   st.floats(min_value=0.001, max_value=10000.0, allow_nan=False, allow_infinity=False))
    scale = st.one_of(sc, sc, st.tuples(sc, sc))
    origin = st.one_of(st.none(), st.tuples(coord, coord))
    ff = st.fixed_dictionaries({
        "depth": st.sampled_from([0, 0, 0, 1, 2]),
        "ff": st.fixed_dictionaries({"start": pt, "scale": scale,
                                     "contours": st.lists(contour, min_size=1, max_size=4)}),
        "origins": st.lists(origin, min_size=1, max_size=2),
        "extend": st.one_of(st.just([]), st.just([]), st.lists(contour, min_size=1, max_size=2)),
    })
    return cxn, grp, ff


# ------------------------------------------------------------------ harness interface

def jobs(tier):
    t = tier == "thorough"
    js = []
    for i in range(16):
        js.append({"kind": "cxn", "shard": i, "n": 6000 if t else 400})
    for i in range(16):
        js.append({"kind": "grp", "shard": i, "n": 3000 if t else 300})
    for i in range(16):
        js.append({"kind": "ff", "shard": i, "n": 5000 if t else 400})
    return js


def _jsonify(o):
    if isinstance(o, tuple):
        return [_jsonify(x) for x in o]
    if isinstance(o, list):
        return [_jsonify(x) for x in o]
    if isinstance(o, dict):
        return {k: _jsonify(v) for k, v in o.items()}
    return o


def run_job(job, seed, tier, rec, known):
    cxn, grp, ff = _strategies()
    kind = job["kind"]
    emit = Raise(known, rec)
    if kind == "cxn":
        def fn(case):
            case = _jsonify(case)
            st_ = run_connector(case, emit)
            b = case["pts"]
            classes = ["cxn", "cxn:depth=%d" % case["depth"],
                       "cxn:create:flipH=%d:flipV=%d" % (b[0] > b[2], b[1] > b[3])]
            if b[0] == b[2] or b[1] == b[3]:
                classes.append("cxn:create:equal-coordinate")
            if st_["crossed"]:
                classes.append("cxn:crossing-move")
            if st_["crossed"] >= 2:
                classes.append("cxn:crossing-moves>=2")
            if st_["landed"]:
                classes.append("cxn:lands-on-other-endpoint")
            rec.note(["cxn", case], st_["crossed"] > 0, classes)
            rec.extra["connector_moves"] = rec.extra.get("connector_moves", 0) + len(case["moves"])
            rec.extra["connector_crossing_moves"] = rec.extra.get("connector_crossing_moves", 0) + st_["crossed"]

        strat, tag = cxn, "cxn"
    elif kind == "grp":
        def fn(case):
            case = _jsonify(case)
            st_ = run_group(case, emit)
            classes = ["grp", "grp:max-depth=%d" % st_["max_depth"]] + ["grp:kind=%s" % k for k in sorted(st_["kinds"])]
            nt = st_["max_depth"] >= 2 and len(st_["kinds"] - {"group", "group_of"}) >= 2 and st_["checked"] > 0
            rec.note(["grp", case], nt, classes)
            rec.states += st_["checked"]
            rec.transitions += st_["ops"]
            for k in ("skipped_empty", "skipped_stale"):
                rec.extra["group_states_" + k] = rec.extra.get("group_states_" + k, 0) + st_[k]

        strat, tag = grp, "grp"
    elif kind == "ff":
        def fn(case):
            case = _jsonify(case)
            run_freeform(case, emit)
            f = case["ff"]
            sx, sy = _scales(f["scale"])
            classes = ["ff", "ff:depth=%d" % case["depth"], "ff:contours=%d" % len(f["contours"])]
            if sx != sy:
                classes.append("ff:non-uniform-scale")
            if _has_tie(f):
                classes.append("ff:half-tie")
            if len(case["origins"]) > 1:
                classes.append("ff:converted-twice")
            if case.get("extend"):
                classes.append("ff:builder-extended-after-conversion")
            if any(c["close"] is False for c in f["contours"]):
                classes.append("ff:open-contour")
            rec.note(["ff", case], ff_nontrivial(f), classes)

        strat, tag = ff, "ff"
    else:
        raise ValueError(kind)
    fails = hyp_search(fn, strat, seed=seed, max_examples=job["n"], rec=rec, known=known)
    for f in fails:
        f["case"] = [tag, _jsonify(f["case"])]
    return fails


def replay(case):
    tag, body = case[0], case[1]
    sink = Collect()
    fn = {"cxn": run_connector, "grp": run_group, "ff": run_freeform}[tag]
    try:
        fn(body, sink)
    except Violation as v:
        sink(v)
    return [{"key": v.key, "message": v.message, "case": case} for v in sink.out.values()]
