"""C10 — a child is inserted where the schema allows it, whatever siblings exist.

Exhaustive enumeration: registered element class x XSD complex type(s) of its tag x child
declaration (recovered from the closures of the generated methods) x sibling contexts derived
from the XSD content model. Oracle: relaxed content-model regex (order + max cardinality).
Part B drives the public, non-xmlchemy adders on parents pre-populated with schema-permitted
siblings that python-pptx itself never writes (p:extLst etc.).
"""
import copy
import itertools
import re

from lxml import etree

from vlib.core import Violation, run_plain, collect, origin_of
from vlib import contentmodel as CM

PROPERTY = "C10"
LEVEL = "exploration"
EXHAUSTIVE = True
RULE = ("exhaustive over (registered element class, XSD type of its tag, child declaration, generated "
        "method in {_add_x, get_or_add_x, get_or_change_to_x, add_x, _insert_x}, sibling context); contexts = "
        "empty, each single other permitted child, all earlier, all later, all permitted children (choice "
        "alternative containing the child, then every other alternative through the singles), the full "
        "sequence including an existing instance for repeatable children, and for repeatable mixed content "
        "every ordered pair (thorough: triple) of kinds; contexts are kept only if they satisfy the relaxed "
        "content model and admit the child somewhere. Part B: every public shape/text adder on spTree/grpSp/"
        "a:p/p:sld parents pre-populated with each such context, and background.fill on slide / layout / master "
        "whose p:bg is absent, a property sheet or a theme reference. Non-trivial = context non-empty; all cases "
        "distinct by construction.")
ASSUMPTIONS = [
    "libxml2-independent: the oracle is a regex compiled from the XSD particles with all minOccurs relaxed to 0 "
    "(judges order and maximum cardinality only)",
    "context children are empty elements; a generated method that raises on such a synthetic sibling is counted "
    "(class 'method-raised'), not reported",
]


# ------------------------------------------------------------------------- discovery

def _setup():
    import pptx  # noqa
    import pptx.opc.oxml  # noqa  registers ct:/pr: element classes
    from pptx.oxml import element_class_lookup
    from pptx.oxml.ns import _nsmap, pfxmap
    from pptx.opc.oxml import nsmap as opc_nsmap

    uris = dict(_nsmap)
    uris.update(opc_nsmap)
    reg = {}
    for pfx, uri in sorted(uris.items()):
        try:
            nsobj = element_class_lookup.get_namespace(uri)
        except Exception:
            continue
        for local, cls in nsobj.items():
            if local is None:
                continue
            local = local.decode() if isinstance(local, bytes) else local
            reg[(uri, local)] = cls
    pf = dict(pfxmap)
    for p, u in opc_nsmap.items():
        pf.setdefault(u, p)
    return reg, uris, pf


def _decls(cls):
    """child tag -> {'decl': _BaseChildElement, 'methods': set(method names)} from closures."""
    from pptx.oxml.xmlchemy import _BaseChildElement

    out = {}
    for name in dir(cls):
        if not (name.startswith("_insert_") or name.startswith("_add_") or name.startswith("get_or_add_")
                or name.startswith("get_or_change_to_") or name.startswith("add_")
                or name.startswith("_remove_")):
            continue
        f = getattr(cls, name, None)
        clo = getattr(f, "__closure__", None)
        if not clo:
            continue
        for c in clo:
            try:
                v = c.cell_contents
            except ValueError:
                continue
            if isinstance(v, _BaseChildElement) and hasattr(v, "_nsptagname"):
                out.setdefault(v._nsptagname, {"decl": v, "methods": set()})["methods"].add(name)
    # the declaration also names its methods: a generated method that no longer closes over the declaration (after
    # a refactor of the generator) is still that child's method
    for info in out.values():
        for attr in ("_insert_method_name", "_add_method_name", "_remove_method_name", "_get_or_add_method_name",
                     "_get_or_change_to_method_name", "_public_add_method_name"):
            try:
                mname = getattr(info["decl"], attr)
            except Exception:
                continue
            if isinstance(mname, str) and callable(getattr(cls, mname, None)):
                info["methods"].add(mname)
    return out


_S = {}


def _world():
    if not _S:
        reg, uris, pf = _setup()
        S = CM.Schemas()
        _S.update(reg=reg, uris=uris, pf=pf, S=S, ET=S.element_types(), models={})
    return _S


def _model(tyq):
    w = _world()
    if tyq not in w["models"]:
        w["models"][tyq] = CM.Model(w["S"], tyq)
    return w["models"][tyq]


def _mk(parent_tag, ctx, parser_parent=True, foreign_prefixes=False):
    """parent element of the registered class with empty context children. `foreign_prefixes`: the document binds
    the namespaces to prefixes of its own (ns0, ns1 ... as JAXB-style writers do) instead of a: / p: / c:."""
    from pptx.oxml import parse_xml
    w = _world()
    uri, local = parent_tag
    nsdecl = {}
    def pfx(u):
        if u not in nsdecl:
            nsdecl[u] = ("ns%d" % len(nsdecl)) if foreign_prefixes else (w["pf"].get(u) or "n%d" % len(nsdecl))
        return nsdecl[u]
    inner = "".join("<%s:%s/>" % (pfx(c[0]), c[1]) for c in ctx)
    root = "%s:%s" % (pfx(uri), local)
    xml = "<%s %s>%s</%s>" % (root, " ".join('xmlns:%s="%s"' % (p, u) for u, p in nsdecl.items()), inner, root)
    return parse_xml(xml)


def _seq(parent):
    out = []
    for ch in parent:
        if not isinstance(ch.tag, str):
            continue
        t = etree.QName(ch)
        out.append((t.namespace, t.localname))
    return out


def _contexts(model, q, tier):
    """list of contexts (each a list of (ns,name)) for child q under this model."""
    M = model.canon(q)
    if q not in M:
        return []
    i = M.index(q)
    ctxs = [[], M[:i], M[i + 1:], M[:i] + M[i + 1:]]
    ctxs += [[y] for y in model.names if y != q]
    rep = model.repeatable()
    if q in rep:
        ctxs += [M, [q], [q, q]]
        ctxs += [[y, q] for y in model.names if y != q] + [[q, y] for y in model.names if y != q]
    # repeatable mixed content: ordered pairs (and triples) of kinds
    reps = [n for n in model.names if n in rep]
    if len(reps) >= 2:
        for a, b in itertools.product(reps, repeat=2):
            ctxs.append([a, b])
        if tier == "thorough" and len(reps) <= 12:
            for t in itertools.product(reps, repeat=3):
                ctxs.append(list(t))
        # pairs surrounded by the non-repeatable head and tail of the canonical sequence
        head = [n for n in M[:i] if n not in rep]
        tail = [n for n in M[i + 1:] if n not in rep]
        for a, b in itertools.product(reps, repeat=2):
            ctxs.append(head + [a, b] + tail)
    seen = set()
    out = []
    for c in ctxs:
        if not model.accepts(c):
            continue
        # add the required siblings the context lacks: only parents that are schema-permitted once the
        # child is present are judged (a c:area3DChart always has its c:axId children, etc.)
        c = model.complete(c, q)
        if c is None:
            DISCARDED[0] += 1
            continue
        t = tuple(c)
        if t in seen:
            continue
        seen.add(t)
        out.append(c)
    return out


DISCARDED = [0]


def _short(n):
    w = _world()
    return "%s:%s" % (w["pf"].get(n[0], "?"), n[1])


def enumerate_cases(tier):
    """yield case dicts for part A."""
    w = _world()
    for (uri, local), cls in sorted(w["reg"].items()):
        d = _decls(cls)
        if not d:
            continue
        types = sorted(t for t in w["ET"].get((uri, local), set()) if t is not None)
        for ty in types:
            model = _model(ty)
            if model.cm is None:
                continue
            for tag in sorted(d):
                info = d[tag]
                pfx, l = tag.split(":")
                q = (w["uris"].get(pfx), l)
                if q not in model.codes:
                    continue
                for ci, ctx in enumerate(_contexts(model, q, tier)):
                    for m in sorted(info["methods"]):
                        yield {"parent": [uri, local], "type": list(ty), "child": [q[0], q[1]],
                               "method": m, "ctx": [list(c) for c in ctx]}
                        if ctx and ci % 5 == 0:
                            # the same case in a document that binds the namespaces to prefixes of its own
                            yield {"parent": [uri, local], "type": list(ty), "child": [q[0], q[1]],
                                   "method": m, "ctx": [list(c) for c in ctx], "foreign_prefixes": True}


# ------------------------------------------------------------------------- oracle (part A)

def check_case(case, rec=None):
    from pptx.oxml import parse_xml
    from pptx.oxml.xmlchemy import OxmlElement

    w = _world()
    parent_tag = tuple(case["parent"])
    ty = tuple(case["type"])
    q = tuple(case["child"])
    ctx = [tuple(c) for c in case["ctx"]]
    m = case["method"]
    model = _model(ty)
    cls = w["reg"][parent_tag]
    keybase = "cls=%s:child=%s" % (cls.__name__, _short(q))
    group = None
    d = _decls(cls)
    decl = d["%s:%s" % (w["pf"][q[0]], q[1])]["decl"]
    group_tags = None
    if m.startswith("get_or_change_to_"):
        gname = getattr(decl, "_group_prop_name", None)
        # members of the choice group: found through the group remover's closure
        rm = getattr(cls, "_remove_%s" % gname, None)
        for c in (getattr(rm, "__closure__", None) or ()):
            v = c.cell_contents
            if hasattr(v, "_member_nsptagnames"):
                group_tags = [(w["uris"][t.split(":")[0]], t.split(":")[1]) for t in v._member_nsptagnames]
    # applicability of the context for this method
    if m.startswith("get_or_change_to_"):
        # other group members may be present (they get removed); after removal child must be admissible
        rest = [c for c in ctx if not group_tags or c not in group_tags or c == q]
        if not model.admits_somewhere_strict([c for c in rest if c != q], q):
            return "n/a"
    elif m.startswith("_remove_"):
        pass
    elif m.startswith("get_or_add_"):
        if q in ctx:
            if not model.accepts_strict(ctx):
                return "n/a"
        elif not model.admits_somewhere_strict(ctx, q):
            return "n/a"
    else:
        if not model.admits_somewhere_strict(ctx, q):
            return "n/a"
    parent = _mk(parent_tag, ctx, foreign_prefixes=bool(case.get("foreign_prefixes")))
    before = _seq(parent)
    try:
        if m.startswith("_insert_"):
            child = OxmlElement("%s:%s" % (w["pf"][q[0]], q[1]))
            getattr(parent, m)(child)
        elif m.startswith("_remove_"):
            getattr(parent, m)()
        elif m.startswith("get_or_add_"):
            getattr(parent, m)()
            getattr(parent, m)()
        else:
            getattr(parent, m)()
    except TypeError as e:
        if "required positional argument" in str(e) or "missing" in str(e):
            return "needs-args"
        return "method-raised"
    except Exception:
        return "method-raised"
    after = _seq(parent)
    nq_before = before.count(q)
    nq_after = after.count(q)
    if m.startswith("_remove_"):
        # remover of a single child kind or of a whole choice group
        removed = [q]
        for c in (getattr(getattr(cls, m), "__closure__", None) or ()):
            v = c.cell_contents
            if hasattr(v, "_member_nsptagnames"):
                removed = [(w["uris"][t.split(":")[0]], t.split(":")[1]) for t in v._member_nsptagnames]
        left = [x for x in after if x in removed]
        if left:
            raise Violation("C10:remove-leaves:%s" % keybase, "%s on %s left %s" % (m, _fmt(before), _fmt(after)))
        if [x for x in before if x not in removed] != after:
            raise Violation("C10:remove-disturbs:%s" % keybase, "%s on %s gave %s" % (m, _fmt(before), _fmt(after)))
        return "ok"
    if m.startswith("get_or_add_"):
        exp = max(nq_before, 1)
        if nq_after != exp:
            raise Violation("C10:get-or-add-count:%s" % keybase,
                            "%s twice on %s gave %d x %s" % (m, _fmt(before), nq_after, _short(q)))
        if nq_before:
            if after != before:
                raise Violation("C10:get-or-add-disturbs:%s" % keybase, "%s -> %s" % (_fmt(before), _fmt(after)))
            return "ok"
    elif m.startswith("get_or_change_to_"):
        members = [x for x in after if group_tags and x in group_tags]
        if group_tags and len(members) != 1:
            raise Violation("C10:change-to-count:%s" % keybase,
                            "%s on %s left group members %s" % (m, _fmt(before), _fmt(members)))
        if nq_after != 1 and q not in before:
            raise Violation("C10:change-to-count:%s" % keybase, "%s -> %s" % (_fmt(before), _fmt(after)))
    else:
        if nq_after != nq_before + 1:
            raise Violation("C10:add-count:%s" % keybase,
                            "%s on %s gave %s" % (m, _fmt(before), _fmt(after)))
    # other children keep their relative order
    if not m.startswith("get_or_change_to_"):
        rest = list(after)
        # remove one inserted q: the result must equal before for some position
        okrest = any(rest[:j] + rest[j + 1:] == before for j, x in enumerate(rest) if x == q)
        if not okrest:
            raise Violation("C10:siblings-disturbed:%s" % keybase, "%s on %s gave %s" % (m, _fmt(before), _fmt(after)))
    if not model.accepts_strict(after):
        raise Violation("C10:order:%s" % keybase,
                        "%s on <%s> (type %s) holding [%s] gave [%s], which the schema's content model does not allow"
                        % (m, _short(parent_tag), ty[1], _fmt(before), _fmt(after)))
    return "ok"


def _fmt(seq):
    return " ".join(_short(x) for x in seq)


# ------------------------------------------------------------------------- part B: public adders

NS_P = "http://schemas.openxmlformats.org/presentationml/2006/main"
NS_A = "http://schemas.openxmlformats.org/drawingml/2006/main"

SHAPE_ADDERS = ["add_shape", "add_textbox", "add_connector", "add_picture", "add_table", "add_chart",
                "add_group_shape", "add_movie", "add_ole_object", "freeform", "clone_placeholder",
                "add_group_with_members"]
TREE_KINDS = ["sp", "grpSp", "graphicFrame", "cxnSp", "pic", "contentPart"]


def _prs():
    from pptx import Presentation
    return Presentation()


def _do_shape_adder(shapes, name, slide):
    from pptx.util import Emu
    from pptx.enum.shapes import MSO_SHAPE, MSO_CONNECTOR, PROG_ID
    from pptx.chart.data import CategoryChartData
    from pptx.enum.chart import XL_CHART_TYPE
    from vlib.core import REPO
    if name == "add_shape":
        return shapes.add_shape(MSO_SHAPE.RECTANGLE, 0, 0, 10, 10)
    if name == "add_textbox":
        return shapes.add_textbox(0, 0, 10, 10)
    if name == "add_connector":
        return shapes.add_connector(MSO_CONNECTOR.STRAIGHT, 0, 0, 10, 10)
    if name == "add_picture":
        return shapes.add_picture(REPO + "/tests/test_files/python-icon.jpeg", 0, 0)
    if name == "add_table":
        return shapes.add_table(1, 1, 0, 0, 10, 10)
    if name == "add_chart":
        cd = CategoryChartData()
        cd.categories = ["a"]
        cd.add_series("s", (1,))
        return shapes.add_chart(XL_CHART_TYPE.PIE, 0, 0, 10, 10, cd)
    if name == "add_group_shape":
        return shapes.add_group_shape()
    if name == "add_group_with_members":
        member = shapes.add_shape(MSO_SHAPE.RECTANGLE, 0, 0, 10, 10)
        return shapes.add_group_shape(shapes=[member])
    if name == "add_movie":
        return shapes.add_movie(REPO + "/tests/test_files/dummy.mp4", 0, 0, 10, 10)
    if name == "add_ole_object":
        return shapes.add_ole_object(REPO + "/features/steps/test_files/shp-embedded-xlsx.xlsx", PROG_ID.XLSX, 0, 0)
    if name == "freeform":
        fb = shapes.build_freeform(1, 1)
        fb.add_line_segments([(5, 5), (9, 1)])
        return fb.convert_to_shape()
    if name == "clone_placeholder":
        layout = slide.slide_layout
        ph = list(layout.placeholders)[0]
        return shapes.clone_placeholder(ph)
    raise ValueError(name)


def _tree_ctx_elements(kinds):
    """empty-ish but schema-shaped sibling elements for a p:spTree/p:grpSp."""
    from pptx.oxml import parse_xml
    out = []
    for k in kinds:
        if k == "extLst":
            out.append(parse_xml('<p:extLst xmlns:p="%s"/>' % NS_P))
        else:
            out.append(parse_xml('<p:%s xmlns:p="%s"/>' % (k, NS_P)))
    return out


def adder_cases(tier):
    # contexts for a shape tree: after the two mandatory heads; siblings PowerPoint may write
    # "#comment" / "#pi": a comment or processing instruction after the last element (valid XML spelled differently)
    tree_ctxs = [["extLst"], ["sp", "extLst"], ["contentPart", "extLst"], ["pic", "grpSp", "extLst"], [],
                 ["extLst", "#comment"], ["sp", "extLst", "#pi"], ["sp", "#comment"]]
    for container in ("spTree", "grpSp", "nested-grpSp"):
        for ctx in tree_ctxs:
            for ad in SHAPE_ADDERS:
                if ad in ("add_table", "add_chart", "add_movie", "add_ole_object", "clone_placeholder") and container != "spTree":
                    continue
                yield {"b": "tree", "container": container, "ctx": ctx, "adder": ad}
    para_kinds = ["pPr", "r", "br", "fld", "endParaRPr"]
    pctx = [[]]
    for n in (1, 2, 3):
        for t in itertools.product(para_kinds, repeat=n):
            pctx.append(list(t))
    for ctx in pctx:
        for ad in ("add_run", "add_line_break", "text", "font", "alignment", "clear"):
            yield {"b": "para", "ctx": ctx, "adder": ad}
    # paragraph spacing: a choice (percent | points) inside a:lnSpc / a:spcBef / a:spcAft, re-assigned with the other
    # kind through the API and over a PowerPoint-written member
    for ctx in ([], ["pPr"], ["pPr", "r"], ["r", "endParaRPr"]):
        for ad in ("line_spacing_pct_pts", "line_spacing_pts_pct", "space_before_foreign_pct", "space_after_foreign_pct",
                   "line_spacing_foreign_pts"):
            yield {"b": "para", "ctx": ctx, "adder": ad}
    body_ctx = [[], ["p"], ["p", "p"]]
    for lst in (False, True):
        for ctx in body_ctx:
            for ad in ("add_paragraph", "text", "word_wrap", "auto_size", "fit"):
                yield {"b": "body", "lst": lst, "ctx": ctx, "adder": ad}
    sld_tail = ["clrMapOvr", "transition", "timing", "extLst"]
    for n in range(0, len(sld_tail) + 1):
        for comb in itertools.combinations(sld_tail, n):
            for ad in ("add_movie", "background_fill", "name"):
                yield {"b": "sld", "ctx": list(comb), "adder": ad}
    # p:bg in every state PowerPoint writes (python-pptx itself only writes bgPr): property sheet, theme reference
    for host in ("slide", "layout", "master"):
        for ctx in ("none", "bgPr-noFill", "bgPr-solid", "bgRef", "bgRef-bwMode"):
            for ad in ("background_fill_access", "background_fill_solid", "background_fill_none"):
                yield {"b": "bg", "host": host, "ctx": ctx, "adder": ad}
    # "get or add" through the boolean has_* setters: assigned True twice (the second time on the still empty element)
    for prop in ("chart.has_legend", "chart.has_title", "category_axis.has_title", "value_axis.has_title",
                 "value_axis.has_major_gridlines", "category_axis.has_minor_gridlines", "plot.has_data_labels",
                 "chart_title.has_text_frame", "axis_title.has_text_frame"):
        for reopen in (False, True):
            yield {"b": "twice", "prop": prop, "reopen": reopen, "adder": "twice:" + prop, "ctx": [prop]}
    # chart / axis titles whose text is linked to a worksheet cell (c:tx/c:strRef, as PowerPoint and Excel write it)
    for which in ("chart", "category_axis", "value_axis"):
        for ad in ("text_frame", "has_text_frame_true", "has_text_frame_false", "text"):
            yield {"b": "title", "which": which, "adder": ad, "ctx": ["strRef"]}
    # timing subtrees for add_movie: p:timing with/without tnLst, bldLst, extLst
    for comb in (["tnLst"], ["bldLst"], ["tnLst", "bldLst"], ["tnLst", "bldLst", "extLst"], ["extLst"], []):
        yield {"b": "timing", "ctx": comb, "adder": "add_movie"}


def _model_for(tag_ns, local, typename):
    return _model((tag_ns, typename))


def check_adder(case):
    from pptx.oxml import parse_xml
    w = _world()
    b = case["b"]
    prs = _prs()
    slide = prs.slides.add_slide(prs.slide_layouts[1])
    key = "C10:adder=%s:parent=%s" % (case["adder"], b if b != "tree" else case["container"])
    if b == "tree":
        shapes = slide.shapes
        if case["container"] in ("grpSp", "nested-grpSp"):
            g = slide.shapes.add_group_shape()
            if case["container"] == "nested-grpSp":
                g = g.shapes.add_group_shape()
            shapes = g.shapes
        tree = shapes._spTree
        for k in case["ctx"]:
            # real sibling shapes through the API; only the siblings python-pptx never writes are injected
            if k == "sp":
                _do_shape_adder(shapes, "add_shape", slide)
            elif k == "pic":
                _do_shape_adder(shapes, "add_picture", slide)
            elif k == "grpSp":
                _do_shape_adder(shapes, "add_group_shape", slide)
            elif k == "#comment":
                tree.append(etree.Comment(" written by another producer "))
            elif k == "#pi":
                tree.append(etree.ProcessingInstruction("verif", "x"))
            elif k == "contentPart":
                if case["container"] != "spTree":
                    return "ctx-n/a"  # group extents are not defined over ink content parts
                tree.append(parse_xml('<p:contentPart xmlns:p="%s" xmlns:r="http://schemas.openxmlformats.org/officeDocument/2006/relationships" r:id="rId99"/>' % NS_P))
            else:
                tree.append(parse_xml('<p:%s xmlns:p="%s"/>' % (k, NS_P)))
        model = _model((NS_P, "CT_GroupShape"))
        before = _seq(tree)
        if not model.accepts(before):
            return "ctx-invalid"
        try:
            _do_shape_adder(shapes, case["adder"], slide)
        except Exception as e:
            where, frame = origin_of(e)
            raise Violation(key + ":raises=%s" % type(e).__name__, "%s with siblings [%s] raised %r"
                            % (case["adder"], _fmt(before), e))
        after = _seq(tree)
        if not model.accepts(after):
            raise Violation(key + ":order", "%s on <p:%s> holding [%s] gave [%s]"
                            % (case["adder"], "spTree" if case["container"] == "spTree" else "grpSp",
                               _fmt(before), _fmt(after)))
        # enclosing trees stay valid too (group extents recalculated etc. do not reorder)
        sp = slide.shapes._spTree
        if not model.accepts(_seq(sp)):
            raise Violation(key + ":order-outer", "outer spTree [%s]" % _fmt(_seq(sp)))
        return "ok"
    if b == "para":
        tb = slide.shapes.add_textbox(0, 0, 10, 10)
        p = tb.text_frame.paragraphs[0]
        pe = p._p
        for k in case["ctx"]:
            if k == "fld":
                pe.append(parse_xml('<a:fld xmlns:a="%s" id="{11111111-2222-3333-4444-555555555555}" type="slidenum"><a:t>1</a:t></a:fld>' % NS_A))
            elif k == "r":
                pe.append(parse_xml('<a:r xmlns:a="%s"><a:t>x</a:t></a:r>' % NS_A))
            else:
                pe.append(parse_xml('<a:%s xmlns:a="%s"/>' % (k, NS_A)))
        model = _model((NS_A, "CT_TextParagraph"))
        before = _seq(pe)
        if not model.accepts(before):
            return "ctx-invalid"
        try:
            ad = case["adder"]
            if ad == "add_run":
                p.add_run()
            elif ad == "add_line_break":
                p.add_line_break()
            elif ad == "text":
                p.text = "a\vb"
            elif ad == "font":
                from pptx.util import Pt
                p.font.size = Pt(12)
            elif ad == "alignment":
                from pptx.enum.text import PP_ALIGN
                p.alignment = PP_ALIGN.CENTER
            elif ad == "clear":
                p.clear()
                p.add_run()
            elif ad.startswith("line_spacing") or ad.startswith("space_"):
                from pptx.util import Pt
                if "foreign" in ad:
                    pPr = pe.get_or_add_pPr()
                    tag = {"space_before": "spcBef", "space_after": "spcAft", "line_spacing": "lnSpc"}[ad.rsplit("_", 2)[0]]
                    member = '<a:spcPct val="50000"/>' if ad.endswith("pct") else '<a:spcPts val="1200"/>'
                    el = parse_xml('<a:%s xmlns:a="%s">%s</a:%s>' % (tag, NS_A, member, tag))
                    # a:lnSpc, a:spcBef, a:spcAft lead the children of a:pPr in this order
                    pos = {"lnSpc": 0, "spcBef": 0, "spcAft": 0}[tag]
                    pPr.insert(pos, el)
                if ad == "line_spacing_pct_pts":
                    p.line_spacing = 1.5
                    p.line_spacing = Pt(14)
                elif ad == "line_spacing_pts_pct":
                    p.line_spacing = Pt(14)
                    p.line_spacing = 1.5
                elif ad == "space_before_foreign_pct":
                    p.space_before = Pt(6)
                elif ad == "space_after_foreign_pct":
                    p.space_after = Pt(6)
                elif ad == "line_spacing_foreign_pts":
                    p.line_spacing = 0.9
        except Exception as e:
            raise Violation(key + ":raises=%s" % type(e).__name__, "%s on a:p [%s] raised %r" % (case["adder"], _fmt(before), e))
        after = _seq(pe)
        if not model.accepts(after):
            raise Violation(key + ":order", "%s on <a:p> holding [%s] gave [%s]" % (case["adder"], _fmt(before), _fmt(after)))
        pPr = pe.find("{%s}pPr" % NS_A)
        if pPr is not None:
            if not _model((NS_A, "CT_TextParagraphProperties")).accepts(_seq(pPr)):
                raise Violation(key + ":order-pPr", "%s gave <a:pPr> [%s]" % (case["adder"], _fmt(_seq(pPr))))
            for sp in pPr:
                if etree.QName(sp).localname in ("lnSpc", "spcBef", "spcAft"):
                    kids = _seq(sp)
                    if len(kids) != 1 or not _model((NS_A, "CT_TextSpacing")).accepts(kids):
                        raise Violation(key + ":choice-spacing", "%s gave <a:%s> [%s]: exactly one of a:spcPct / a:spcPts "
                                        "is allowed" % (case["adder"], etree.QName(sp).localname, _fmt(kids)))
        return "ok"
    if b == "body":
        tb = slide.shapes.add_textbox(0, 0, 10, 10)
        tf = tb.text_frame
        body = tf._txBody
        for ch in list(body):
            body.remove(ch)
        body.append(parse_xml('<a:bodyPr xmlns:a="%s"/>' % NS_A))
        if case["lst"]:
            body.append(parse_xml('<a:lstStyle xmlns:a="%s"/>' % NS_A))
        for k in case["ctx"]:
            body.append(parse_xml('<a:p xmlns:a="%s"/>' % NS_A))
        model = _model((NS_A, "CT_TextBody"))
        before = _seq(body)
        try:
            ad = case["adder"]
            if ad == "add_paragraph":
                tf.add_paragraph()
            elif ad == "text":
                tf.text = "a\nb"
            elif ad == "word_wrap":
                tf.word_wrap = True
            elif ad == "auto_size":
                from pptx.enum.text import MSO_AUTO_SIZE
                tf.auto_size = MSO_AUTO_SIZE.SHAPE_TO_FIT_TEXT
            elif ad == "fit":
                tf.auto_size = None
                tf.vertical_anchor = None
        except Exception as e:
            if not case["ctx"] and ad in ("text",):
                return "ctx-invalid"  # a body without any paragraph is itself schema-invalid
            raise Violation(key + ":raises=%s" % type(e).__name__, "%s raised %r" % (case["adder"], e))
        after = _seq(body)
        if not model.accepts(after):
            raise Violation(key + ":order", "%s on <p:txBody> [%s] gave [%s]" % (case["adder"], _fmt(before), _fmt(after)))
        return "ok"
    if b == "twice":
        import io as _io
        from pptx import Presentation as _P
        from pptx.chart.data import CategoryChartData
        from pptx.enum.chart import XL_CHART_TYPE
        NS_C = "http://schemas.openxmlformats.org/drawingml/2006/chart"
        cd = CategoryChartData()
        cd.categories = ["a", "b"]
        cd.add_series("s", (1, 2))
        slide.shapes.add_chart(XL_CHART_TYPE.COLUMN_CLUSTERED, 0, 0, 3000000, 2000000, cd)
        owner_path, prop = case["prop"].split(".")

        def owner(p_):
            ch = [sh for sh in p_.slides[0].shapes if getattr(sh, "has_chart", False)][-1].chart
            if owner_path == "chart":
                return ch
            if owner_path == "plot":
                return ch.plots[0]
            if owner_path == "chart_title":
                ch.has_title = True
                return ch.chart_title
            if owner_path == "axis_title":
                ch.value_axis.has_title = True
                return ch.value_axis.axis_title
            return getattr(ch, owner_path)
        try:
            setattr(owner(prs), prop, False)
            setattr(owner(prs), prop, True)
            cur = prs
            if case["reopen"]:
                buf = _io.BytesIO()
                prs.save(buf)
                cur = _P(_io.BytesIO(buf.getvalue()))
            setattr(owner(cur), prop, True)
        except Exception as e:
            raise Violation(key + ":raises=%s" % type(e).__name__, "%s = True twice raised %r" % (case["prop"], e))
        cs = [sh for sh in cur.slides[0].shapes if getattr(sh, "has_chart", False)][-1].chart._chartSpace
        for el in cs.iter():
            if not isinstance(el.tag, str):
                continue
            q = etree.QName(el)
            ty = {"chart": "CT_Chart", "valAx": "CT_ValAx", "catAx": "CT_CatAx", "barChart": "CT_BarChart",
                  "title": "CT_Title", "tx": "CT_Tx", "plotArea": "CT_PlotArea", "legend": "CT_Legend"}.get(q.localname)
            if q.namespace == NS_C and ty and not _model((NS_C, ty)).accepts(_seq(el)):
                raise Violation(key + ":count", "%s = True assigned twice%s gave <c:%s> [%s]"
                                % (case["prop"], " (re-opened in between)" if case["reopen"] else "", q.localname,
                                   _fmt(_seq(el))))
        return "ok"
    if b == "title":
        NS_C = "http://schemas.openxmlformats.org/drawingml/2006/chart"
        from pptx.chart.data import CategoryChartData
        from pptx.enum.chart import XL_CHART_TYPE
        cd = CategoryChartData()
        cd.categories = ["a", "b"]
        cd.add_series("s", (1, 2))
        chart = slide.shapes.add_chart(XL_CHART_TYPE.COLUMN_CLUSTERED, 0, 0, 3000000, 2000000, cd).chart
        owner = chart if case["which"] == "chart" else getattr(chart, case["which"])
        owner.has_title = True
        t = (owner.chart_title if case["which"] == "chart" else owner.axis_title)
        title = t._element
        for old in title.findall("{%s}tx" % NS_C):
            title.remove(old)
        title.insert(0, parse_xml(
            '<c:tx xmlns:c="%s"><c:strRef><c:f>Sheet1!$A$1</c:f><c:strCache><c:ptCount val="1"/><c:pt idx="0"><c:v>T</c:v>'
            '</c:pt></c:strCache></c:strRef></c:tx>' % NS_C))
        before = _seq(title)
        t = (owner.chart_title if case["which"] == "chart" else owner.axis_title)
        try:
            ad = case["adder"]
            if ad == "text_frame":
                t.text_frame
            elif ad == "has_text_frame_true":
                t.has_text_frame = True
            elif ad == "has_text_frame_false":
                t.has_text_frame = False
            else:
                t.text_frame.text = "literal"
        except Exception as e:
            raise Violation(key + ":raises=%s" % type(e).__name__, "%s on a cell-linked %s title raised %r"
                            % (case["adder"], case["which"], e))
        after = _seq(title)
        if not _model((NS_C, "CT_Title")).accepts(after) or after.count((NS_C, "tx")) > 1:
            raise Violation(key + ":count-tx", "%s on a cell-linked %s title: <c:title> [%s] became [%s]"
                            % (case["adder"], case["which"], _fmt(before), _fmt(after)))
        for tx in title.findall("{%s}tx" % NS_C):
            kids = _seq(tx)
            if len(kids) != 1:
                raise Violation(key + ":choice-tx", "%s on a cell-linked %s title gave <c:tx> [%s]"
                                % (case["adder"], case["which"], _fmt(kids)))
        return "ok"
    if b == "bg":
        obj = {"slide": slide, "layout": slide.slide_layout, "master": slide.slide_layout.slide_master}[case["host"]]
        cs = obj._element.find("{%s}cSld" % NS_P)
        for old in cs.findall("{%s}bg" % NS_P):
            cs.remove(old)
        bgs = {
            "none": None,
            "bgPr-noFill": '<p:bg %s><p:bgPr><a:noFill/><a:effectLst/></p:bgPr></p:bg>',
            "bgPr-solid": '<p:bg %s><p:bgPr><a:solidFill><a:srgbClr val="112233"/></a:solidFill><a:effectLst/></p:bgPr></p:bg>',
            "bgRef": '<p:bg %s><p:bgRef idx="1001"><a:schemeClr val="bg1"/></p:bgRef></p:bg>',
            "bgRef-bwMode": '<p:bg %s bwMode="white"><p:bgRef idx="1002"><a:schemeClr val="bg2"/></p:bgRef></p:bg>',
        }[case["ctx"]]
        if bgs is not None:
            cs.insert(0, parse_xml(bgs % ('xmlns:p="%s" xmlns:a="%s"' % (NS_P, NS_A))))
        before = _seq(cs)
        try:
            fill = obj.background.fill
            if case["adder"] == "background_fill_solid":
                fill.solid()
            elif case["adder"] == "background_fill_none":
                fill.background()
        except Exception as e:
            raise Violation(key + ":raises=%s" % type(e).__name__, "%s on %s p:cSld [%s] raised %r"
                            % (case["adder"], case["host"], _fmt(before), e))
        if not _model((NS_P, "CT_CommonSlideData")).accepts(_seq(cs)):
            raise Violation(key + ":order-cSld", "%s gave <p:cSld> [%s]" % (case["adder"], _fmt(_seq(cs))))
        for bg in cs.findall("{%s}bg" % NS_P):
            if not _model((NS_P, "CT_Background")).accepts(_seq(bg)):
                raise Violation(key + ":choice-bg", "%s on %s <p:bg> holding [%s] gave <p:bg> [%s]"
                                % (case["adder"], case["host"], case["ctx"], _fmt(_seq(bg))))
            for bgPr in bg.findall("{%s}bgPr" % NS_P):
                if not _model((NS_P, "CT_BackgroundProperties")).accepts(_seq(bgPr)):
                    raise Violation(key + ":order-bgPr", "%s on %s <p:bg> holding [%s] gave <p:bgPr> [%s]"
                                    % (case["adder"], case["host"], case["ctx"], _fmt(_seq(bgPr))))
        return "ok"
    if b in ("sld", "timing"):
        sld = slide._element
        model = _model((NS_P, "CT_Slide"))
        if b == "sld":
            for k in case["ctx"]:
                if k == "clrMapOvr":
                    sld.append(parse_xml('<p:clrMapOvr xmlns:p="%s" xmlns:a="%s"><a:masterClrMapping/></p:clrMapOvr>' % (NS_P, NS_A)))
                else:
                    sld.append(parse_xml('<p:%s xmlns:p="%s"/>' % (k, NS_P)))
            # the default slide template already has clrMapOvr: drop duplicates
            seen = set()
            for ch in list(sld):
                t = etree.QName(ch).localname
                if t in seen:
                    sld.remove(ch)
                seen.add(t)
            # canonical order of the tail
            order = ["cSld", "clrMapOvr", "transition", "timing", "extLst"]
            kids = sorted(list(sld), key=lambda ch: order.index(etree.QName(ch).localname))
            for ch in kids:
                sld.remove(ch)
            for ch in kids:
                sld.append(ch)
        else:
            timing = parse_xml('<p:timing xmlns:p="%s"/>' % NS_P)
            for k in case["ctx"]:
                timing.append(parse_xml('<p:%s xmlns:p="%s"/>' % (k, NS_P)))
            # insert timing before extLst / at end
            sld.append(timing)
        before = _seq(sld)
        if not model.accepts(before):
            return "ctx-invalid"
        tmodel = _model((NS_P, "CT_SlideTiming"))
        try:
            ad = case["adder"]
            if ad == "add_movie":
                _do_shape_adder(slide.shapes, "add_movie", slide)
            elif ad == "background_fill":
                slide.background.fill.solid()
            elif ad == "name":
                slide.name = "x"
        except Exception as e:
            raise Violation(key + ":raises=%s" % type(e).__name__, "%s on p:sld [%s] raised %r" % (case["adder"], _fmt(before), e))
        after = _seq(sld)
        if not model.accepts(after):
            raise Violation(key + ":order", "%s on <p:sld> holding [%s] gave [%s]" % (case["adder"], _fmt(before), _fmt(after)))
        for t in sld.findall("{%s}timing" % NS_P):
            if not tmodel.accepts(_seq(t)):
                raise Violation(key + ":order-timing", "%s gave <p:timing> [%s]" % (case["adder"], _fmt(_seq(t))))
        cs = sld.find("{%s}cSld" % NS_P)
        if not _model((NS_P, "CT_CommonSlideData")).accepts(_seq(cs)):
            raise Violation(key + ":order-cSld", "%s gave <p:cSld> [%s]" % (case["adder"], _fmt(_seq(cs))))
        return "ok"
    raise ValueError(b)


# ------------------------------------------------------------------------- jobs

NSH = 16


def jobs(tier):
    return [{"part": "A", "shard": i} for i in range(NSH)] + [{"part": "B", "shard": i} for i in range(NSH)]


def run_job(job, seed, tier, rec, known):
    fails = {}
    if job["part"] == "A":
        n = nt = 0
        stats = {}
        sample = None
        for i, case in enumerate(enumerate_cases(tier)):
            if i % NSH != job["shard"]:
                continue
            try:
                r = check_case(case)
            except Violation as v:
                r = "violation"
                if v.key in known:
                    rec.known[v.key] += 1
                elif v.key not in fails or len(case["ctx"]) < len(fails[v.key]["case"]["ctx"]):
                    fails[v.key] = {"key": v.key, "message": v.message, "case": dict(case, part="A")}
            stats[r] = stats.get(r, 0) + 1
            if r in ("ok", "violation"):
                n += 1
                if case["ctx"]:
                    nt += 1
                    if sample is None and len(case["ctx"]) >= 2:
                        sample = case
        rec.note_enum(n, nt, sample=sample)
        rec.discarded += DISCARDED[0]
        for k, v in stats.items():
            rec.classes["A:" + k] += v
        return list(fails.values())
    n = nt = 0
    sample = None
    for i, case in enumerate(adder_cases(tier)):
        if i % NSH != job["shard"]:
            continue
        try:
            r = check_adder(case)
        except Violation as v:
            r = "violation"
            if v.key in known:
                rec.known[v.key] += 1
            elif v.key not in fails:
                fails[v.key] = {"key": v.key, "message": v.message, "case": dict(case, part="B")}
        rec.classes["B:" + r] += 1
        if r in ("ok", "violation"):
            n += 1
            if case["ctx"]:
                nt += 1
                sample = sample or case
    rec.note_enum(n, nt, sample=sample)
    return list(fails.values())


def replay(case):
    if case.get("part") == "B" or "b" in case:
        return collect(check_adder, case)
    return collect(check_case, case)
