"""C14 — tables stay rectangular and merges consistent under any merge/split sequence.

Three parts, all against the reference model of vlib/c14_model.py (set of disjoint rectangles +
per-cell list of non-empty paragraph texts + row heights / column widths):
  bfs     bounded-exhaustive: every table shape, every distinct model state reachable with <= 2
          state-changing ops, from each of them every merge (every rectangle, every corner-pair
          orientation) and every split -> all sequences of depth <= 3.
  create  enumeration of (rows, cols, width, height) for shapes.add_table and
          TablePlaceholder.insert_table.
  hyp     Hypothesis op sequences on one or two tables up to 12x12.
The table is observed twice after every op: through the public API (Table/_Cell/_Row/_Column) and
from the serialized XML re-parsed with plain lxml.
"""
import copy

from vlib import c14_model as M
from vlib.core import Violation, collect, hyp_search, sut

PROPERTY = "C14"
LEVEL = "exploration"
EXHAUSTIVE = True
RULE = ("bfs: bounded-exhaustive over model states (set of merged rectangles + text layout) of every "
        "table shape up to 3x3 (quick; 4xN/Nx4 shapes one level shallower) / 4x4 (thorough): every "
        "state reachable with <=2 state-changing ops is built with the real API and every merge "
        "(every rectangle x every distinct corner-pair orientation) and every split (every cell) is "
        "applied to a clone of it, i.e. all op sequences of depth <=3; `transitions` counts them, "
        "`states` the expanded states. A transition is non-trivial when path+op contains two accepted "
        "merges, a refused merge or a split; (state, op) pairs are distinct by construction. "
        "create: every (rows, cols) up to 12x12 x a width list x a height list incl. sizes smaller "
        "than / not divisible by the counts, via add_table and insert_table; non-trivial when width "
        "or height is not divisible. hyp: Hypothesis sequences of 1-15 ops (merge in any orientation "
        "incl. into a second table, split of any cell, cell.text / add_paragraph on any cell, row "
        "height, column width) on 1-2 tables up to 12x12 made by add_table or insert_table; same "
        "non-trivial rule on the executed sequence, distinct by case hash.")
ASSUMPTIONS = [
    "rows, cols >= 1 and positive integer EMU sizes (documented domain); a 1x1 merge of a free cell is a no-op",
    "text is compared as the list of non-empty paragraph texts per cell (empty paragraphs may or may not "
    "move with a merge); spanned cells must be left with exactly one empty paragraph by the merge itself",
    "span_height/span_width are only asserted on merge origins and unmerged cells (documented as unreliable "
    "on spanned cells); raw hMerge/vMerge are asserted per ECMA-376 (hMerge iff not in the leftmost column "
    "of its region, vMerge iff not in its top row), gridSpan/rowSpan of spanned cells may be 1 or the region's",
    "initial distribution: only the sums, non-negativity and max-min < count ('evenly distributed') are asserted",
    "insert_table: requested width = placeholder width at the time of the call, requested height = frame "
    "height reported afterwards (documented only as proportional to the row count)",
    "a state of the bfs part is cloned by deep-copying the p:graphicFrame element the real API produced",
]

DECK = "/repo/features/steps/test_files/ph-unpopulated-placeholders.pptx"
NS_A = "http://schemas.openxmlformats.org/drawingml/2006/main"
A = "{%s}" % NS_A


# ------------------------------------------------------------------ environment (one per process)

class Env(object):
    _inst = None

    @classmethod
    def get(cls):
        if cls._inst is None:
            cls._inst = cls()
        return cls._inst

    def __init__(self):
        from pptx import Presentation
        from pptx.shapes.placeholder import TablePlaceholder

        self.TablePlaceholder = TablePlaceholder
        prs = Presentation(DECK)
        self.prs = prs
        self.slide = None
        for s in prs.slides:
            if any(isinstance(ph, TablePlaceholder) for ph in s.placeholders):
                self.slide = s
        if self.slide is None:
            raise RuntimeError("no slide with a table placeholder in %s" % DECK)
        self.spTree = self.slide.shapes._spTree
        self.pristine = [copy.deepcopy(ch) for ch in self.spTree]

    def reset(self):
        """restore the slide's shape tree to its pristine content (no state leaks between cases)"""
        for ch in list(self.spTree):
            self.spTree.remove(ch)
        for ch in self.pristine:
            self.spTree.append(copy.deepcopy(ch))

    def snapshot(self):
        from lxml import etree

        return etree.tostring(self.spTree)

    def make(self, spec):
        """-> (graphic frame, requested width, requested height or None)"""
        rows, cols = spec["rows"], spec["cols"]
        if spec["how"] == "add":
            from pptx.util import Emu

            w, h = spec["w"], spec["h"]
            with sut("C14:create:add_table"):
                gf = self.slide.shapes.add_table(rows, cols, Emu(91440), Emu(91440), Emu(w), Emu(h))
            return gf, w, h
        ph = [p for p in self.slide.placeholders if isinstance(p, self.TablePlaceholder)]
        if not ph:
            raise RuntimeError("table placeholder already consumed")
        ph = ph[0]
        with sut("C14:create:insert_table"):
            if spec.get("phw") is not None:
                ph.width = spec["phw"]
            w = int(ph.width)
            gf = ph.insert_table(rows, cols)
        return gf, w, None

    def clone(self, gf):
        """append a deep copy of the frame's element to the slide, return its GraphicFrame proxy"""
        el = copy.deepcopy(gf._element)
        self.spTree.append(el)
        new = self.slide.shapes[len(self.slide.shapes) - 1]
        if new._element is not el:
            raise RuntimeError("clone lookup failed")
        return new


# ------------------------------------------------------------------ observation

def _bool(v):
    return v in ("1", "true")


def observe_xml(gf):
    """Independent reading: serialize, re-parse with plain lxml, walk the a:tbl."""
    from lxml import etree

    root = etree.fromstring(etree.tostring(gf._element))
    tbls = list(root.iter(A + "tbl"))
    if len(tbls) != 1:
        raise Violation("C14:xml:tbl-count", "%d a:tbl in graphic frame" % len(tbls))
    tbl = tbls[0]
    grid = tbl.find(A + "tblGrid")
    colw = [int(g.get("w")) for g in grid.findall(A + "gridCol")]
    rowh, cells = [], []
    for tr in tbl.findall(A + "tr"):
        rowh.append(int(tr.get("h")))
        row = []
        for tc in tr.findall(A + "tc"):
            paras = []
            tx = tc.find(A + "txBody")
            for p in (tx.findall(A + "p") if tx is not None else []):
                s = ""
                for ch in p:
                    if ch.tag in (A + "r", A + "fld"):
                        t = ch.find(A + "t")
                        s += (t.text or "") if t is not None else ""
                    elif ch.tag == A + "br":
                        s += "\v"
                paras.append(s)
            row.append((int(tc.get("gridSpan", "1")), int(tc.get("rowSpan", "1")),
                        _bool(tc.get("hMerge", "0")), _bool(tc.get("vMerge", "0")), paras))
        cells.append(row)
    xfrm = [e for e in root if e.tag.endswith("}xfrm")]
    ext = xfrm[0].find(A + "ext") if xfrm else None
    fw = int(ext.get("cx")) if ext is not None else None
    fh = int(ext.get("cy")) if ext is not None else None
    return colw, rowh, cells, fw, fh


def get_cell(tb, r, c, acc, cols):
    if acc == 1:
        return tb.rows[r].cells[c]
    if acc == 2:
        return list(tb.iter_cells())[r * cols + c]
    return tb.cell(r, c)


def check_state(gf, m, after):
    """compare real table with model; `after` names the op class just executed (finding key site)"""
    def bad(clause, msg):
        raise Violation("C14:%s:after=%s" % (clause, after), msg)

    with sut("C14:observe:after=%s" % after):
        tb = gf.table
        nrows, ncols = len(tb.rows), len(tb.columns)
        row_lens = [len(row.cells) for row in tb.rows]
        cells = list(tb.iter_cells())
        api = [(c.is_merge_origin, c.is_spanned, c.span_height, c.span_width,
                [p.text for p in c.text_frame.paragraphs]) for c in cells]
        colw = [int(col.width) for col in tb.columns]
        rowh = [int(row.height) for row in tb.rows]
        fw, fh = int(gf.width), int(gf.height)
    x_colw, x_rowh, x_cells, x_fw, x_fh = observe_xml(gf)

    # -- rectangular
    if nrows != m.r or len(x_cells) != m.r:
        bad("row-count", "table has %d rows (xml %d), expected %d" % (nrows, len(x_cells), m.r))
    if ncols != m.c or len(x_colw) != m.c:
        bad("gridcol-count", "table has %d columns (xml %d), expected %d" % (ncols, len(x_colw), m.c))
    if any(n != m.c for n in row_lens) or any(len(r) != m.c for r in x_cells):
        bad("cells-per-row", "cells per row %r (xml %r), expected %d each"
            % (row_lens, [len(r) for r in x_cells], m.c))
    if len(cells) != m.r * m.c:
        bad("iter-cells", "iter_cells yields %d cells, expected %d" % (len(cells), m.r * m.c))

    # -- sizes
    if colw != x_colw or rowh != x_rowh or fw != x_fw or fh != x_fh:
        bad("size-api-vs-xml", "API widths/heights/frame %r %r %r differ from XML %r %r %r"
            % (colw, rowh, (fw, fh), x_colw, x_rowh, (x_fw, x_fh)))
    if m.colw is not None and colw != m.colw:
        bad("col-widths", "column widths %r, expected %r" % (colw, m.colw))
    if m.rowh is not None and rowh != m.rowh:
        bad("row-heights", "row heights %r, expected %r" % (rowh, m.rowh))
    exp_fw = sum(colw) if getattr(m, "frame_w", None) is None else m.frame_w
    exp_fh = sum(rowh) if getattr(m, "frame_h", None) is None else m.frame_h
    if exp_fw != fw:
        bad("frame-width", "frame width %d, expected %d (%s; column widths %r)"
            % (fw, exp_fw, "the sum of the column widths" if m.frame_w is None else "as assigned to the frame", colw))
    if exp_fh != fh:
        bad("frame-height", "frame height %d, expected %d (%s; row heights %r)"
            % (fh, exp_fh, "the sum of the row heights" if m.frame_h is None else "as assigned to the frame", rowh))

    # -- merge flags and text
    for i in range(m.r):
        for j in range(m.c):
            exp = m.expected_cell(i, j)
            is_o, is_s, sh, sw, paras = api[i * m.c + j]
            gs, rs, hm, vm, x_paras = x_cells[i][j]
            where = "cell (%d,%d) of %dx%d, regions %r" % (i, j, m.r, m.c, sorted(m.rects.items()))
            if bool(is_o) != exp[0]:
                bad("origin-flag" if exp[0] else
                    ("stray-origin-flag" if not exp[1] else "spanned-reports-origin"),
                    "is_merge_origin=%r, expected %r at %s" % (is_o, exp[0], where))
            if bool(is_s) != exp[1]:
                bad("spanned-flag" if exp[1] else "stray-spanned-flag",
                    "is_spanned=%r, expected %r at %s" % (is_s, exp[1], where))
            if exp[2] is not None and (sh, sw) != (exp[2], exp[3]):
                bad("span" if exp[0] else "stray-span",
                    "span_height/width=%r, expected %r at %s" % ((sh, sw), exp[2:], where))
            o = m.owner[i][j]
            if o is None:
                if (gs, rs, hm, vm) != (1, 1, False, False):
                    bad("xml-stray-merge-attrs", "gridSpan/rowSpan/hMerge/vMerge=%r on unmerged %s"
                        % ((gs, rs, hm, vm), where))
            else:
                h, w = m.rects[o]
                if o == (i, j):
                    if (gs, rs, hm, vm) != (w, h, False, False):
                        bad("xml-origin-attrs", "gridSpan/rowSpan/hMerge/vMerge=%r, expected %r at %s"
                            % ((gs, rs, hm, vm), (w, h, False, False), where))
                else:
                    if hm != (j > o[1]) or vm != (i > o[0]):
                        bad("xml-hmerge-vmerge", "hMerge/vMerge=%r, expected %r at %s"
                            % ((hm, vm), (j > o[1], i > o[0]), where))
                    if gs not in (1, w) or rs not in (1, h):
                        bad("xml-spanned-span-attrs", "gridSpan/rowSpan=%r in a %dx%d region at %s"
                            % ((gs, rs), h, w, where))
            if paras != x_paras:
                bad("text-api-vs-xml", "paragraph texts %r (API) vs %r (XML) at %s" % (paras, x_paras, where))
            got = [p for p in paras if p != ""]
            if got != m.content[i][j]:
                want = m.content[i][j]
                if sorted(got) == sorted(want):
                    clause = "text-order"
                elif len(got) < len(want):
                    clause = "text-lost"
                else:
                    clause = "text"
                bad(clause, "non-empty paragraphs %r, expected %r at %s" % (got, want, where))
            if not paras:
                bad("no-paragraph", "cell without a:p at %s" % where)
    return api


def check_created(gf, m, spec, req_w, req_h):
    """creation clause; fills m.colw/m.rowh from the real table once the sums are verified"""
    how = "add_table" if spec["how"] == "add" else "insert_table"
    with sut("C14:observe:create=%s" % how):
        tb = gf.table
        colw = [int(col.width) for col in tb.columns]
        rowh = [int(row.height) for row in tb.rows]
        fw, fh = int(gf.width), int(gf.height)
    if len(colw) != spec["cols"] or len(rowh) != spec["rows"]:
        raise Violation("C14:create-shape:%s" % how, "%dx%d requested, got %d rows %d cols"
                        % (spec["rows"], spec["cols"], len(rowh), len(colw)))
    if req_h is None:
        req_h = fh
    if sum(colw) != req_w or fw != req_w:
        raise Violation("C14:create-width-sum:%s" % how,
                        "requested width %d over %d columns: widths %r sum %d, frame %d"
                        % (req_w, len(colw), colw, sum(colw), fw))
    if sum(rowh) != req_h or fh != req_h:
        raise Violation("C14:create-height-sum:%s" % how,
                        "requested height %d over %d rows: heights %r sum %d, frame %d"
                        % (req_h, len(rowh), rowh, sum(rowh), fh))
    for name, xs in (("width", colw), ("height", rowh)):
        if min(xs) < 0 or max(xs) - min(xs) >= len(xs):
            raise Violation("C14:create-uneven-%s:%s" % (name, how), "%ss %r not evenly distributed" % (name, xs))
    m.colw, m.rowh = colw, rowh
    check_state(gf, m, "create")


# ------------------------------------------------------------------ op execution

def _tbl(env, gfs, t):
    """the Table proxy for table t: the same object for the whole case, as user code holding
    `table = shape.table` has it (state kept on proxies - caches, memos - then matters)"""
    held = getattr(env, "held", None)
    if held is None:
        return gfs[t].table
    k = id(gfs[t])
    if k not in held:
        held[k] = gfs[t].table
    return held[k]


def apply_op(env, gfs, models, op, kinds):
    """execute one op on the real tables and the models, check, append the op class to kinds"""
    kind = op[0]
    if kind == "merge":
        _, t1, r1, c1, t2, r2, c2, acc = op
        m = models[t1]
        a = get_cell(_tbl(env, gfs, t1), r1, c1, acc, m.c)
        b = get_cell(_tbl(env, gfs, t2), r2, c2, acc, models[t2].c)
        if t1 != t2:
            verdict = "cross"
        else:
            verdict = m.merge_verdict(r1, c1, r2, c2)
        cls = {"cross": "merge-cross", "overlap": "merge-overlap", "noop": "merge-1x1", "ok": "merge-ok"}[verdict]
        before = env.snapshot() if verdict in ("cross", "overlap") else None
        try:
            with sut("C14:merge:%s" % cls, allow=(ValueError,)):
                a.merge(b)
            raised = False
        except ValueError as e:
            raised = True
            err = e
        if verdict in ("cross", "overlap"):
            if not raised:
                raise Violation("C14:%s-accepted" % cls,
                                "merge (%d,%d)-(%d,%d) tables %d/%d was accepted; regions %r"
                                % (r1, c1, r2, c2, t1, t2, sorted(m.rects.items())))
            if env.snapshot() != before:
                raise Violation("C14:%s-mutates" % cls, "refused merge (%d,%d)-(%d,%d) changed the XML"
                                % (r1, c1, r2, c2))
        else:
            if raised:
                raise Violation("C14:%s-refused" % cls,
                                "merge (%d,%d)-(%d,%d) on %dx%d refused (%s); regions %r"
                                % (r1, c1, r2, c2, m.r, m.c, err, sorted(m.rects.items())))
            if verdict == "ok":
                m.merge(r1, c1, r2, c2)
        kinds.append(cls)
        obs = {}
        for t in sorted({t1, t2}):
            obs[t] = check_state(gfs[t], models[t], cls)
        if verdict == "ok":
            # the merge itself leaves every spanned cell with exactly one empty paragraph
            t, l, b_, r_ = m.norm(r1, c1, r2, c2)
            for i in range(t, b_ + 1):
                for j in range(l, r_ + 1):
                    if (i, j) == (t, l):
                        continue
                    ps = obs[t1][i * m.c + j][4]
                    if ps != [""]:
                        raise Violation("C14:spanned-not-emptied:after=merge-ok",
                                        "spanned cell (%d,%d) has paragraphs %r after merge" % (i, j, ps))
        return
    if kind == "split":
        _, t, r, c, acc = op
        m = models[t]
        cell = get_cell(_tbl(env, gfs, t), r, c, acc, m.c)
        ok = m.split_ok(r, c)
        cls = "split-ok" if ok else ("split-spanned" if m.owner[r][c] is not None else "split-unmerged")
        before = None if ok else env.snapshot()
        try:
            with sut("C14:split:%s" % cls, allow=(ValueError,)):
                cell.split()
            raised = False
        except ValueError as e:
            raised = True
            err = e
        if ok:
            if raised:
                raise Violation("C14:split-ok-refused", "split of origin (%d,%d) refused: %s" % (r, c, err))
            m.split(r, c)
        else:
            if not raised:
                raise Violation("C14:%s-accepted" % cls, "split of non-origin (%d,%d) accepted; regions %r"
                                % (r, c, sorted(m.rects.items())))
            if env.snapshot() != before:
                raise Violation("C14:%s-mutates" % cls, "refused split of (%d,%d) changed the XML" % (r, c))
        kinds.append(cls)
        check_state(gfs[t], m, cls)
        return
    if kind in ("text", "para"):
        _, t, r, c, s = op
        m = models[t]
        cell = _tbl(env, gfs, t).cell(r, c)
        cls = kind + ("-on-spanned" if m.owner[r][c] not in (None, (r, c)) else "")
        with sut("C14:text:%s" % kind):
            if kind == "text":
                cell.text = s
            else:
                cell.text_frame.add_paragraph().text = s
        (m.set_text if kind == "text" else m.add_para)(r, c, s)
        kinds.append(cls)
        check_state(gfs[t], m, kind)
        return
    if kind == "frame":
        from pptx.util import Emu

        _, t, which, v = op
        with sut("C14:size:frame"):
            if which:
                gfs[t].width = Emu(v)
            else:
                gfs[t].height = Emu(v)
        if which:
            models[t].frame_w = v
        else:
            models[t].frame_h = v
        kinds.append("frame-size")
        check_state(gfs[t], models[t], "frame-size")
        return
    if kind == "rowh":
        from pptx.util import Emu

        _, t, i, v = op
        with sut("C14:size:row-height"):
            _tbl(env, gfs, t).rows[i].height = Emu(v)
        models[t].rowh[i] = v
        models[t].frame_h = None
        kinds.append("row-height")
        check_state(gfs[t], models[t], "row-height")
        return
    if kind == "colw":
        _, t, j, v = op
        with sut("C14:size:col-width"):
            _tbl(env, gfs, t).columns[j].width = v
        models[t].colw[j] = v
        models[t].frame_w = None
        kinds.append("col-width")
        check_state(gfs[t], models[t], "col-width")
        return
    raise ValueError(kind)


def run_case(case, rec=None):
    env = Env.get()
    env.reset()
    # two of three cases keep one Table proxy per table for the whole sequence, the others take a fresh one per op
    env.held = {} if case.get("hold", True) else None
    kinds = []
    try:
        gfs, models = [], []
        for spec in case["tables"]:
            gf, w, h = env.make(spec)
            m = M.TModel(spec["rows"], spec["cols"])
            check_created(gf, m, spec, w, h)
            gfs.append(gf)
            models.append(m)
        for op in case["ops"]:
            apply_op(env, gfs, models, op, kinds)
        # final: every table still consistent (an op on one table must not disturb the other)
        for gf, m in zip(gfs, models):
            check_state(gf, m, "end")
    finally:
        env.reset()
        held = env.held is not None
        env.held = None
        if rec is not None:
            classes = list(kinds) + ["table-proxy-held" if held else "table-proxy-fresh-per-op"]
            for spec in case["tables"]:
                classes.append("table-" + spec["how"])
                if spec["how"] == "add" and (spec["w"] % spec["cols"] or spec["h"] % spec["rows"]):
                    classes.append("size-not-divisible")
                if max(spec["rows"], spec["cols"]) >= 9:
                    classes.append("dim>=9")
            if len(case["tables"]) == 2:
                classes.append("two-tables")
            if kinds.count("merge-ok") >= 2:
                classes.append("seq>=2-merges")
            if "split-ok" in kinds and kinds.index("split-ok") < len(kinds) - 1 and \
                    "merge-ok" in kinds[kinds.index("split-ok"):]:
                classes.append("merge-after-split")
            rec.note(case, M.seq_nontrivial(kinds), classes=classes)


# ------------------------------------------------------------------ bfs job

def _bfs_case(rows, cols, path, op):
    return {"tables": [{"how": "add", "rows": rows, "cols": cols, "w": 1000003 * cols + 1, "h": 700001}],
            "ops": _bfs_text_ops(rows, cols) + [_full(o) for o in path] + ([_full(op)] if op else [])}


def _bfs_text_ops(rows, cols):
    return [["text", 0, i, j, M.bfs_initial_text(rows, cols, i, j)]
            for i in range(rows) for j in range(cols) if M.bfs_initial_text(rows, cols, i, j) != ""]


def _full(op):
    if op[0] == "merge":
        return ["merge", 0, op[1], op[2], 0, op[3], op[4], 0]
    return ["split", 0, op[1], op[2], 0]


def run_bfs(job, rec, known):
    rows, cols, depth = job["rows"], job["cols"], job["depth"]
    states, ops = M.bfs_states(rows, cols, depth - 1)
    mine = states[job["shard"]::job["nshard"]]
    env = Env.get()
    fails = {}
    n = nt = 0
    hist = {}

    def record(v, case):
        if v.key in known:
            rec.known[v.key] += 1
        elif v.key not in fails:
            fails[v.key] = {"key": v.key, "message": v.message, "case": case}

    for m_state, path in mine:
        # build the state with the real API (checked after every op)
        env.reset()
        base = _bfs_case(rows, cols, path, None)
        try:
            gf, w, h = env.make(base["tables"][0])
            m = M.TModel(rows, cols)
            check_created(gf, m, base["tables"][0], w, h)
            pk = []
            for op in base["ops"]:
                apply_op(env, [gf], [m], op, pk)
        except Violation as v:
            record(v, base)
            continue
        if m.key() != m_state.key():
            raise RuntimeError("model replay diverged")
        pk = [k for k in pk if not k.startswith("text")]
        for op in ops:
            g2 = env.clone(gf)
            m2 = m.copy()
            kinds = list(pk)
            try:
                apply_op(env, [g2], [m2], _full(op), kinds)
            except Violation as v:
                record(v, _bfs_case(rows, cols, path, op))
                kinds.append("violation")
            finally:
                env.spTree.remove(g2._element)
            n += 1
            if M.seq_nontrivial(kinds):
                nt += 1
            hist[kinds[-1]] = hist.get(kinds[-1], 0) + 1
        rec.states += 1
    env.reset()
    rec.transitions += n
    for k, v in hist.items():
        rec.classes["bfs:" + k] += v
    sample = _bfs_case(rows, cols, mine[-1][1], ops[len(ops) // 2]) if mine else None
    rec.note_enum(n, nt, sample=sample)
    return list(fails.values())


# ------------------------------------------------------------------ create job

def _sizes(n, tier):
    base = [1, n - 1, n, n + 1, 2 * n - 1, 914400, 1000003, 12192000]
    if tier == "thorough":
        base += [7, 3 * n, 914400 * n, 914400 * n - 1, 6858000, 2 ** 31 - 1]
    return sorted({x for x in base if x >= 1})


def run_create(job, tier, rec, known):
    fails = {}
    n = nt = 0
    env = Env.get()
    dims = range(1, 13)
    for rows in dims:
        if rows % job["nshard"] != job["shard"]:
            continue
        for cols in dims:
            cases = []
            ws, hs = _sizes(cols, tier), _sizes(rows, tier)
            if tier == "thorough":
                pairs = [(w, h) for w in ws for h in hs]
            else:  # the two axes are independent code paths: pair them up instead of the full product
                k = max(len(ws), len(hs))
                pairs = sorted({(ws[i % len(ws)], hs[(i + rows + cols) % len(hs)]) for i in range(k)})
            for w, h in pairs:
                cases.append({"tables": [{"how": "add", "rows": rows, "cols": cols, "w": w, "h": h}],
                              "ops": []})
            for phw in [None] + _sizes(cols, tier):
                cases.append({"tables": [{"how": "ph", "rows": rows, "cols": cols, "phw": phw}], "ops": []})
            for case in cases:
                spec = case["tables"][0]
                n += 1
                w = spec.get("w", spec.get("phw") or 3657600)
                if w % cols or spec.get("h", 0) % rows:
                    nt += 1
                rec.cls("create:" + spec["how"])
                try:
                    run_case(case)
                except Violation as v:
                    if v.key in known:
                        rec.known[v.key] += 1
                    elif v.key not in fails:
                        fails[v.key] = {"key": v.key, "message": v.message, "case": case}
    rec.note_enum(n, nt, sample={"tables": [{"how": "add", "rows": 7, "cols": 5, "w": 9, "h": 1000003}], "ops": []})
    env.reset()
    return list(fails.values())


# ------------------------------------------------------------------ jobs

def _bfs_jobs(tier):
    js = []
    maxd = 4
    target = 60000 if tier == "thorough" else 6000
    for rows in range(1, maxd + 1):
        for cols in range(1, maxd + 1):
            depth = 3
            if tier != "thorough" and max(rows, cols) > 3:
                depth = 2
            states, ops = M.bfs_states(rows, cols, depth - 1)
            cost = len(states) * len(ops) * (4 + rows * cols)
            k = max(1, min(64, round(cost / float(target * 10))))
            for s in range(k):
                js.append({"kind": "bfs", "rows": rows, "cols": cols, "depth": depth, "shard": s, "nshard": k})
    return js


def jobs(tier):
    js = _bfs_jobs(tier)
    ncreate = 6 if tier == "thorough" else 3
    for s in range(ncreate):
        js.append({"kind": "create", "shard": s, "nshard": ncreate})
    nh = 32 if tier == "thorough" else 16
    for s in range(nh):
        js.append({"kind": "hyp", "shard": s, "n": 3000 if tier == "thorough" else 500})
    # big jobs first
    js.sort(key=lambda j: {"bfs": 0, "hyp": 1, "create": 2}[j["kind"]])
    return js


def run_job(job, seed, tier, rec, known):
    k = job["kind"]
    if k == "bfs":
        return run_bfs(job, rec, known)
    if k == "create":
        return run_create(job, tier, rec, known)
    if k == "hyp":
        return hyp_search(lambda case: run_case(case, rec), M.case_strategy(), seed=seed,
                          max_examples=job["n"], rec=rec, known=known)
    raise ValueError(k)


def replay(case):
    return collect(run_case, case)
