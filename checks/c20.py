"""C20 — enumerations and the preset-shape table agree with the standard (exhaustive enumeration).

Oracle side (independent of pptx): vlib/c20_xsd.py reads the transitional XSDs and
presetShapeDefinitions.xml shipped under /repo/spec. The association enum -> XSD simple type is
recovered at run time from the attribute declarations of the registered oxml element classes
(closures of the generated attribute properties) and the XSD attribute declaration of the same
element/attribute; MSO_CONNECTOR_TYPE (used through to_xml only) is bound by an explicit entry
that is verified by the connector case (add_connector writes the token into a:prstGeom/@prst).
"""
import importlib
import inspect
import io
import os
import itertools

from vlib import core
from vlib.core import Violation, collect, run_plain
from vlib.c20_xsd import Schemas, preset_definitions

PROPERTY = "C20"
LEVEL = "exploration"
EXHAUSTIVE = True
RULE = ("exhaustive enumeration: every member and alias name of every BaseXmlEnum subclass in "
        "pptx.enum.* (round trip, distinctness, schema membership, ValueError for token-less "
        "members); every schema token the enum does not map and '' (from_xml must reject); every "
        "(oxml element class, enum-typed attribute, member) binding set/get on a real element with "
        "the schema-effective token (attribute or XSD default); every MSO_SHAPE member x "
        "{slide, group} added, adjustments read/assigned per index, saved and re-opened; "
        "autoshape_types entry vs avLst of presetShapeDefinitions.xml; every MSO_CONNECTOR_TYPE "
        "member through add_connector; every XL_CHART_TYPE member x chart-data shapes through "
        "add_chart, save and re-open; public-API set/get/re-open for the enum-typed properties. "
        "Non-trivial: the case exercises a member that has an XML token (or a shape/chart/"
        "connector/table case); token-less members, rejection probes and chart types outside the "
        "documented-writable set (answered by NotImplementedError) are counted as trivial. "
        "All cases are distinct by construction.")
ASSUMPTIONS = [
    "the XSDs under spec/ISO-IEC-29500-4/xsd and presetShapeDefinitions.xml under "
    "spec/ISO-IEC-29500-1 are the standard; lxml parses them correctly",
    "ST_Lang (a:rPr/@lang) is an unconstrained xsd:string: language tokens are checked for round "
    "trip and distinctness only",
    "presets of ST_ShapeType absent from presetShapeDefinitions.xml (computed at run time: upArrow) "
    "are checked against the schema only, their adjustment table is not compared",
    "whether a member NAME denotes the preset/token it is mapped to (e.g. RECTANGLE <-> 'rect') is "
    "not decidable from the shipped standard files and is not checked",
    "charts are created with >= 1 series and >= 1 point (chart type is encoded in series-level XML)",
    "the 29 chart types python-pptx documents as supported must be writable; any other type may "
    "either raise NotImplementedError or must read back as itself",
    "an optional attribute whose oxml declaration has no default reads None when absent (library "
    "convention for 'inherited'); only declared defaults are compared with the XSD default",
]

ENUM_MODULES = ["pptx.enum.shapes", "pptx.enum.text", "pptx.enum.dml", "pptx.enum.chart",
                "pptx.enum.lang", "pptx.enum.action"]

# enum used via EnumCls.to_xml() only (no attribute declaration): explicit, verified by the
# connector case which observes the token in that attribute of the written XML.
EXTRA_BINDINGS = {"MSO_CONNECTOR_TYPE": [("a", "prstGeom", "prst")]}

# chart types python-pptx documents as supported (docs/user/charts.rst, docs/dev/analysis);
# these must be accepted by add_chart.
WRITABLE_CHART_TYPES = [
    "AREA", "AREA_STACKED", "AREA_STACKED_100", "BAR_CLUSTERED", "BAR_STACKED", "BAR_STACKED_100",
    "BUBBLE", "BUBBLE_THREE_D_EFFECT", "COLUMN_CLUSTERED", "COLUMN_STACKED", "COLUMN_STACKED_100",
    "DOUGHNUT", "DOUGHNUT_EXPLODED", "LINE", "LINE_MARKERS", "LINE_MARKERS_STACKED",
    "LINE_MARKERS_STACKED_100", "LINE_STACKED", "LINE_STACKED_100", "PIE", "PIE_EXPLODED", "RADAR",
    "RADAR_FILLED", "RADAR_MARKERS", "XY_SCATTER", "XY_SCATTER_LINES",
    "XY_SCATTER_LINES_NO_MARKERS", "XY_SCATTER_SMOOTH", "XY_SCATTER_SMOOTH_NO_MARKERS",
]

NS_A = "http://schemas.openxmlformats.org/drawingml/2006/main"
NS_P = "http://schemas.openxmlformats.org/presentationml/2006/main"
NS_C = "http://schemas.openxmlformats.org/drawingml/2006/chart"
NSMAP = {"a": NS_A, "p": NS_P, "c": NS_C}

NSHAPE_SHARDS = 8
NCHART_SHARDS = 8


# ------------------------------------------------------------------ standard side (cached)

_cache = {}


def std():
    if "std" not in _cache:
        s = Schemas(core.REPO)
        _cache["std"] = (s, preset_definitions(core.REPO))
    return _cache["std"]


def schema_enum(pfx, local, attr):
    """-> (tokens or None, type name, xsd default) for attribute @attr of element pfx:local.
    All declarations of that element must agree (else harness error)."""
    s, _ = std()
    decls = s.attribute_decl(NSMAP[pfx], local, attr)
    if not decls or any(d["type"] is None for d in decls):
        raise core.HarnessError("no XSD attribute declaration for %s:%s/@%s" % (pfx, local, attr))
    types = {d["type"] for d in decls}
    if len(types) != 1:
        raise core.HarnessError("ambiguous XSD type for %s:%s/@%s: %r" % (pfx, local, attr, types))
    (t,) = types
    toks, _base = s.enumeration(*t)
    defaults = {d["default"] for d in decls}
    return toks, t[1], (defaults.pop() if len(defaults) == 1 else None)


# ------------------------------------------------------------------ library side discovery

def xml_enums():
    """-> {class name: class} of BaseXmlEnum subclasses defined in pptx.enum.* (+ module alias
    names in 'aliases': {alias: class name})."""
    if "enums" in _cache:
        return _cache["enums"]
    from pptx.enum.base import BaseXmlEnum

    classes, aliases = {}, {}
    for mn in ENUM_MODULES:
        mod = importlib.import_module(mn)
        for n, c in inspect.getmembers(mod, inspect.isclass):
            if not (issubclass(c, BaseXmlEnum) and c is not BaseXmlEnum):
                continue
            if c.__module__ != mn:
                continue
            if n == c.__name__:
                classes[n] = c
            else:
                aliases[n] = c.__name__
    _cache["enums"] = (classes, aliases)
    return _cache["enums"]


def bindings():
    """-> sorted list of (pfx, local, prop name, attr name, enum class name, kind, default name)
    recovered from the registered element classes."""
    if "bind" in _cache:
        return _cache["bind"]
    import pptx.oxml as ox
    from pptx.enum.base import BaseXmlEnum
    from pptx.oxml.xmlchemy import BaseAttribute

    out = set()
    for pfx, uri in sorted(NSMAP.items()):
        ns = ox.element_class_lookup.get_namespace(uri)
        for local, cls in ns.items():
            if isinstance(local, bytes):
                local = local.decode()
            if local is None:
                continue
            for klass in cls.__mro__:
                for pname, p in vars(klass).items():
                    if not (isinstance(p, property) and p.fget is not None and p.fget.__closure__):
                        continue
                    for cell in p.fget.__closure__:
                        try:
                            v = cell.cell_contents
                        except ValueError:
                            continue
                        if not isinstance(v, BaseAttribute):
                            continue
                        st = v._simple_type
                        if isinstance(st, type) and issubclass(st, BaseXmlEnum):
                            d = getattr(v, "_default", None)
                            out.add((pfx, local, pname, v._attr_name, st.__name__,
                                     type(v).__name__, d.name if d is not None else None))
    _cache["bind"] = sorted(out, key=lambda t: tuple("" if x is None else x for x in t))
    return _cache["bind"]


def enum_schema_tokens(enum_name):
    """-> (set of allowed tokens or None if unconstrained, [type names], bound?)"""
    sites = [(b[0], b[1], b[3]) for b in bindings() if b[4] == enum_name]
    sites += EXTRA_BINDINGS.get(enum_name, [])
    if not sites:
        return None, [], False
    allowed, names = None, []
    for pfx, local, attr in sites:
        toks, tname, _d = schema_enum(pfx, local, attr)
        names.append(tname)
        if toks is None:
            continue
        allowed = set(toks) if allowed is None else (allowed & set(toks))
    return allowed, sorted(set(names)), True


# ------------------------------------------------------------------ oracle: enum members

def check_member(case):
    """case = [enum class name, attribute name on the class (member or alias name)]"""
    ename, aname = case
    classes, _ = xml_enums()
    cls = classes[ename]
    m = getattr(cls, aname)
    tok = m.xml_value
    if not tok:
        # member without an XML value: to_xml must raise ValueError
        try:
            with core.sut("C20:to_xml-tokenless:%s" % ename, allow=(ValueError,)):
                got = cls.to_xml(m)
        except ValueError:
            return
        raise Violation("C20:tokenless-has-xml:%s" % ename,
                        "%s.%s has no XML value but to_xml returned %r" % (ename, aname, got))
    if not isinstance(tok, str):
        raise Violation("C20:token-not-str:%s:%s" % (ename, m.name), "xml_value %r" % (tok,))
    with core.sut("C20:to_xml:%s" % ename):
        t1 = cls.to_xml(m)
        t2 = cls.to_xml(m.value)
    if t1 != tok or t2 != tok:
        raise Violation("C20:to_xml-differs:%s:%s" % (ename, m.name),
                        "to_xml(%s)=%r, to_xml(%d)=%r, xml_value=%r" % (m.name, t1, m.value, t2, tok))
    with core.sut("C20:from_xml:%s" % ename):
        back = cls.from_xml(t1)
    if back is not m:
        if back.xml_value == tok:
            raise Violation("C20:alias:%s:%s:%s" % (ename, tok, m.name),
                            "%s.%s (%d) -> %r -> %s.%s (%d): token shared, member does not map back "
                            "to itself" % (ename, m.name, m.value, tok, ename, back.name, back.value))
        raise Violation("C20:roundtrip:%s:%s" % (ename, m.name),
                        "from_xml(to_xml(%s)) = %s" % (m.name, back.name))
    allowed, tnames, bound = enum_schema_tokens(ename)
    if bound and allowed is not None and tok not in allowed:
        raise Violation("C20:token-not-in-schema:%s:%s" % (ename, m.name),
                        "%s.%s -> %r is not in the enumeration of %s" % (ename, m.name, tok,
                                                                        "/".join(tnames)))


def check_reject(case):
    """case = [enum class name, token]: token not mapped by the enum -> from_xml raises ValueError"""
    ename, tok = case
    classes, _ = xml_enums()
    cls = classes[ename]
    try:
        with core.sut("C20:from_xml-unmapped:%s" % ename, allow=(ValueError,)):
            got = cls.from_xml(tok)
    except ValueError:
        return
    raise Violation("C20:from_xml-accepts-unmapped:%s" % ename,
                    "%s.from_xml(%r) returned %r" % (ename, tok, got))


def enum_cases():
    classes, _ = xml_enums()
    members, rejects = [], []
    for ename in sorted(classes):
        cls = classes[ename]
        for aname in cls.__members__:  # includes python-level alias names
            members.append([ename, aname])
        mapped = {m.xml_value for m in cls if m.xml_value}
        allowed, _t, _b = enum_schema_tokens(ename)
        extra = sorted((allowed or set()) - mapped)
        for tok in [""] + extra + ["__no_such_token__"]:
            rejects.append([ename, tok])
    return members, rejects


# ------------------------------------------------------------------ oracle: element bindings

def _new_element(pfx, local):
    from pptx.oxml import parse_xml

    return parse_xml('<%s:%s xmlns:%s="%s"/>' % (pfx, local, pfx, NSMAP[pfx]))


def check_binding(case):
    """case = [pfx, local, prop, attr, enum name, kind, default name, member name]"""
    pfx, local, prop, attr, ename, kind, dname, mname = case
    classes, _ = xml_enums()
    cls = classes[ename]
    m = cls[mname]
    toks, tname, xsd_default = schema_enum(pfx, local, attr)
    what = "%s:%s/@%s" % (pfx, local, attr)
    elm = _new_element(pfx, local)
    if not m.xml_value:
        if dname is not None and cls[dname] is m:
            return
        try:
            with core.sut("C20:binding-set-tokenless:%s" % what, allow=(ValueError,)):
                setattr(elm, prop, m)
        except ValueError:
            return
        raise Violation("C20:binding-tokenless-written:%s" % what,
                        "assigning token-less %s.%s wrote %r" % (ename, mname, elm.get(attr)))
    with core.sut("C20:binding-set:%s" % what):
        setattr(elm, prop, m)
    written = elm.get(attr)
    effective = written if written is not None else xsd_default
    if effective != m.xml_value:
        if written is None:
            raise Violation("C20:binding-default-differs-from-schema:%s" % what,
                            "assigning %s.%s leaves @%s absent; the schema default is %r, member "
                            "token is %r" % (ename, mname, attr, xsd_default, m.xml_value))
        raise Violation("C20:binding-written-token:%s" % what,
                        "assigning %s.%s wrote %r" % (ename, mname, written))
    if toks is not None and effective not in toks:
        raise Violation("C20:token-not-in-schema:%s:%s" % (ename, m.name),
                        "%s = %r is not in %s" % (what, effective, tname))
    with core.sut("C20:binding-get:%s" % what):
        back = getattr(elm, prop)
    if back is not m:
        if back is not None and getattr(back, "xml_value", None) == m.xml_value:
            raise Violation("C20:alias:%s:%s:%s" % (ename, m.xml_value, m.name),
                            "%s set to %s.%s reads back %s" % (what, ename, mname, back.name))
        raise Violation("C20:binding-roundtrip:%s" % what,
                        "%s set to %s.%s reads back %r" % (what, ename, mname, back))
    # the token written explicitly must read back as the same member too
    elm2 = _new_element(pfx, local)
    elm2.set(attr, m.xml_value)
    with core.sut("C20:binding-get:%s" % what):
        back2 = getattr(elm2, prop)
    if back2 is not m:
        raise Violation("C20:binding-roundtrip:%s" % what,
                        "%s=%r reads %r, expected %s" % (what, m.xml_value, back2, mname))


def binding_cases():
    classes, _ = xml_enums()
    out = []
    for b in bindings():
        for m in classes[b[4]]:
            out.append(list(b) + [m.name])
    return out


# ------------------------------------------------------------------ oracle: spec table

def std_adjustments(token):
    """-> [(name, int default)] of the standard's definition, or None if it has no definition"""
    _, defs = std()
    if token not in defs:
        return None
    out = []
    for name, fmla in defs[token]:
        parts = fmla.split()
        if len(parts) != 2 or parts[0] != "val":
            raise core.HarnessError("avLst guide of %s is not 'val N': %r" % (token, fmla))
        out.append((name, int(parts[1])))
    return out


def check_table(mname):
    from pptx.enum.shapes import MSO_SHAPE
    from pptx.shapes.autoshape import AutoShapeType
    from pptx.spec import autoshape_types

    m = MSO_SHAPE[mname]
    s, defs = std()
    st_shape, _ = s.enumeration(NS_A, "ST_ShapeType")
    tok = m.xml_value
    if tok not in st_shape:
        raise Violation("C20:token-not-in-schema:MSO_AUTO_SHAPE_TYPE:%s" % mname,
                        "%r not in ST_ShapeType" % (tok,))
    if m not in autoshape_types:
        raise Violation("C20:no-table-entry:%s" % mname, "autoshape_types has no entry for %s" % mname)
    with core.sut("C20:AutoShapeType:%s" % mname):
        ast = AutoShapeType(m)
        prst = ast.prst
        davs = AutoShapeType.default_adjustment_values(m)
        basename = ast.basename
    if prst != tok:
        raise Violation("C20:autoshapetype-prst:%s" % mname, "AutoShapeType(%s).prst = %r, token %r"
                        % (mname, prst, tok))
    if not isinstance(basename, str) or not basename:
        raise Violation("C20:autoshapetype-basename:%s" % mname, "basename %r" % (basename,))
    exp = std_adjustments(tok)
    if exp is None:
        if tok in set(st_shape) - set(defs):
            return  # guard: preset in the schema but not in the definitions file
        raise Violation("C20:no-preset-definition:%s" % mname, "%r has no definition" % tok)
    got = [(n, v) for n, v in davs]
    if got != exp:
        raise Violation("C20:adjustments:%s" % mname,
                        "autoshape_types[%s].avLst = %r, presetShapeDefinitions.xml %s avLst = %r"
                        % (mname, got, tok, exp))


# ------------------------------------------------------------------ oracle: shapes on a slide

ADJ_VALUES_QUICK = [0.25, -0.5]
ADJ_VALUES_THOROUGH = [0.25, -0.5, 0.0, 1.5, 1.0]


def _gd_list(sp_xml_elm):
    g = sp_xml_elm.find(".//{%s}prstGeom" % NS_A)
    if g is None:
        return None, None
    av = g.find("{%s}avLst" % NS_A)
    gds = [] if av is None else [(x.get("name"), x.get("fmla")) for x in av.findall("{%s}gd" % NS_A)]
    return g.get("prst"), gds


def _reparse(shape):
    from lxml import etree

    return etree.fromstring(etree.tostring(shape._element))


def _shape_type_check(m, got, where):
    if got is m:
        return
    if got is not None and getattr(got, "xml_value", None) == m.xml_value:
        raise Violation("C20:alias:MSO_AUTO_SHAPE_TYPE:%s:%s" % (m.xml_value, m.name),
                        "add_shape(%s) %s reads back auto_shape_type %s (shared token %r)"
                        % (m.name, where, got.name, m.xml_value))
    raise Violation("C20:shape-readback:%s" % m.name,
                    "add_shape(%s) %s reads back %r" % (m.name, where, got))


def run_shapes(cases, n_reopen=1):
    """cases: list of [member name, container, adj values]; one deck for all of them.
    -> list of (case, Violation); clauses are evaluated independently so that a recorded finding in
    one clause (e.g. alias read-back) does not mask the others (adjustments)."""
    import pptx
    from pptx.enum.shapes import MSO_SHAPE, MSO_SHAPE_TYPE
    from pptx.util import Emu

    fails = []
    prs = pptx.Presentation()
    layout = prs.slide_layouts[6]
    slide = prs.slides.add_slide(layout)
    grp = slide.shapes.add_group_shape()
    expect = []  # (case, container, index in container, member, expected adjustment floats|None)
    for case in cases:
        mname, container, values = case
        m = MSO_SHAPE[mname]
        shapes = slide.shapes if container == "slide" else grp.shapes
        idx = len(shapes)
        try:
            with core.sut("C20:add_shape:%s" % container):
                sp = shapes.add_shape(m, Emu(914400), Emu(914400), Emu(1828800), Emu(914400))
        except Violation as v:
            fails.append((case, v))
            continue
        if len(shapes) != idx + 1:
            fails.append((case, Violation("C20:add_shape-count:%s" % container,
                                          "add_shape(%s) changed shape count %d -> %d"
                                          % (mname, idx, len(shapes)))))
            continue
        errs = []
        exp_adj = _check_fresh_shape(sp, m, values, errs)
        fails += [(case, v) for v in errs]
        expect.append((case, container, idx, m, exp_adj))
    for r in range(n_reopen):
        buf = io.BytesIO()
        with core.sut("C20:save"):
            prs.save(buf)
        buf.seek(0)
        with core.sut("C20:reopen"):
            prs = pptx.Presentation(buf)
        slide = prs.slides[0]
        grp = [s for s in slide.shapes if s.shape_type == MSO_SHAPE_TYPE.GROUP][0]
        for case, container, idx, m, exp_adj in expect:
            shapes = slide.shapes if container == "slide" else grp.shapes
            try:
                with core.sut("C20:reopened-shape"):
                    sp = shapes[idx]
                    got = sp.auto_shape_type
                    adj = [sp.adjustments[i] for i in range(len(sp.adjustments))]
            except Violation as v:
                fails.append((case, v))
                continue
            try:
                _shape_type_check(m, got, "after re-open")
            except Violation as v:
                fails.append((case, v))
            if exp_adj is not None and adj != exp_adj:
                fails.append((case, Violation(
                    "C20:adjustments:%s" % m.name,
                    "after re-open adjustments of %s are %r, expected %r" % (m.name, adj, exp_adj))))
    # one failure per (case, key)
    seen, out = set(), []
    for case, v in fails:
        k = (id(case), v.key)
        if k not in seen:
            seen.add(k)
            out.append((case, v))
    return out


def _check_fresh_shape(sp, m, values, errs):
    """oracle on a freshly added shape; violations are appended to errs; returns the adjustment
    values expected after re-open (None when not determinable)."""
    tok = m.xml_value
    prst, gds = _gd_list(_reparse(sp))
    if prst != tok:
        errs.append(Violation("C20:shape-written-prst:%s" % m.name,
                              "add_shape(%s) wrote prst=%r, token is %r" % (m.name, prst, tok)))
    try:
        with core.sut("C20:auto_shape_type"):
            got = sp.auto_shape_type
        _shape_type_check(m, got, "fresh")
    except Violation as v:
        errs.append(v)
    exp = std_adjustments(tok)
    if exp is None:
        return None
    try:
        return _check_adjustments(sp, m, values, exp, gds)
    except Violation as v:
        errs.append(v)
        return None


def _check_adjustments(sp, m, values, exp, gds):
    tok = m.xml_value
    with core.sut("C20:adjustments-read"):
        adjs = sp.adjustments
        n = len(adjs)
        vals = [adjs[i] for i in range(n)]
    # default values: from explicit guides written by add_shape if any, else the definition's
    explicit = dict(gds)
    exp_vals = []
    for name, dv in exp:
        if name in explicit:
            exp_vals.append(int(explicit[name].split()[1]) / 100000.0)
        else:
            exp_vals.append(dv / 100000.0)
    if n != len(exp) or vals != exp_vals:
        raise Violation("C20:adjustments:%s" % m.name,
                        "fresh %s (%s): adjustments %r, standard definition gives %r"
                        % (m.name, tok, vals, list(zip([e[0] for e in exp], exp_vals))))
    # assigning adjustment i writes the definition's guide names in definition order
    cur = list(exp_vals)
    for i in range(n):
        for v in values:
            with core.sut("C20:adjustments-assign"):
                adjs[i] = v
            cur[i] = v
            _p, gds2 = _gd_list(_reparse(sp))
            want = [(exp[j][0], "val %d" % round(cur[j] * 100000)) for j in range(n)]
            if gds2 != want:
                raise Violation("C20:adjustments:%s" % m.name,
                                "%s: after adjustments[%d]=%r the guides are %r, the definition "
                                "requires %r" % (m.name, i, v, gds2, want))
    # a shape carrying explicit guides named per the standard reads them back by position
    with core.sut("C20:adjustments-read"):
        fresh = type(sp)(sp._element, sp._parent).adjustments
        vals2 = [fresh[i] for i in range(len(fresh))]
    if vals2 != cur:
        raise Violation("C20:adjustments:%s" % m.name,
                        "%s: guides %r read back as %r" % (m.name, cur, vals2))
    return cur


def check_foreign_avlst(case):
    """A shape whose a:avLst was written by another producer: only some guides, or all of them in another
    order. The adjustments must still be reported by name in the definition's order (defaults for the
    guides that are absent)."""
    from lxml import etree
    from pptx import Presentation
    from pptx.enum.shapes import MSO_SHAPE

    mname, mode = case
    m = getattr(MSO_SHAPE, mname)
    stdadj = std_adjustments(m.xml_value)
    if not stdadj or (len(stdadj) < 2 and mode != "absent"):
        return
    A = "http://schemas.openxmlformats.org/drawingml/2006/main"
    prs = Presentation()
    slide = prs.slides.add_slide(prs.slide_layouts[6])
    with core.sut("C20:add_shape"):
        sp = slide.shapes.add_shape(m, 100, 100, 914400, 914400)
    avLst = sp._element.find(".//{%s}avLst" % A)
    for ch in list(avLst):
        avLst.remove(ch)
    n = len(stdadj)
    if mode == "absent":
        # a:avLst is optional in the schema: without it every adjustment is at its default
        avLst.getparent().remove(avLst)
        keep = []
    elif mode == "last-only":
        keep = [n - 1]
    elif mode == "reversed":
        keep = list(range(n - 1, -1, -1))
    else:  # "skip-first"
        keep = list(range(1, n))
    exp = [d / 100000.0 for _nm, d in stdadj]
    for k in keep:
        v = stdadj[k][1] + 1000 * (k + 1)
        gd = etree.SubElement(avLst, "{%s}gd" % A)
        gd.set("name", stdadj[k][0])
        gd.set("fmla", "val %d" % v)
        exp[k] = v / 100000.0
    # a fresh proxy over the rewritten XML, as after loading such a deck
    with core.sut("C20:read-adjustments"):
        got = [float(x) for x in slide.shapes[len(slide.shapes) - 1].adjustments]
    if len(got) != len(exp) or any(abs(a - b) > 1e-9 for a, b in zip(got, exp)):
        raise Violation("C20:adjustments:foreign-avLst:%s" % mode,
                        "%s with a:avLst holding %s reports adjustments %r, by name in definition order they are %r"
                        % (mname, [stdadj[k][0] for k in keep], got, exp))


def _chart_val_defaults():
    """(parent complex type's element local name, child local name) -> schema default of the child's @val, read
    from dml-chart.xsd (e.g. ('barChart', 'grouping') -> 'clustered', ('lineChart', 'grouping') -> 'standard')"""
    from lxml import etree
    xs = "{http://www.w3.org/2001/XMLSchema}"
    root = etree.parse(os.path.join(core.REPO, "spec", "ISO-IEC-29500-4", "xsd", "dml-chart.xsd")).getroot()
    types = {ct.get("name"): ct for ct in root.findall(xs + "complexType")}
    dflt = {}
    for name, ct in types.items():
        for a in ct.findall(xs + "attribute"):
            if a.get("name") == "val" and a.get("default") is not None:
                dflt[name] = a.get("default")
    out = {}
    for name, ct in types.items():
        if not name.endswith("Chart") or not name.startswith("CT_"):
            continue
        parent = name[3].lower() + name[4:]
        # children declared directly or through the EG_*Shared groups
        stack = [ct]
        seen = set()
        while stack:
            node = stack.pop()
            for el in node.iter(xs + "element"):
                t = (el.get("type") or "").split(":")[-1]
                if el.get("name") and t in dflt:
                    out[(parent, el.get("name"))] = dflt[t]
            for g in node.iter(xs + "group"):
                ref = (g.get("ref") or "").split(":")[-1]
                if ref and ref not in seen:
                    seen.add(ref)
                    for gd in root.findall(xs + "group"):
                        if gd.get("name") == ref:
                            stack.append(gd)
    return out


def _chart_boolean_elements():
    """local names of the elements that dml-chart.xsd declares with type CT_Boolean everywhere they occur"""
    from lxml import etree
    xs = "{http://www.w3.org/2001/XMLSchema}"
    root = etree.parse(os.path.join(core.REPO, "spec", "ISO-IEC-29500-4", "xsd", "dml-chart.xsd")).getroot()
    types = {}
    for el in root.iter(xs + "element"):
        if el.get("name") and el.get("type"):
            types.setdefault(el.get("name"), set()).add(el.get("type").split(":")[-1])
    return {n for n, ts in types.items() if ts == {"CT_Boolean"}}


def check_respelled_chart(tname):
    """A chart written by another producer may leave out every @val that equals its schema default: the chart part
    means the same and must read back as the same chart type."""
    import pptx
    from pptx.enum.chart import XL_CHART_TYPE
    from pptx.util import Emu

    t = XL_CHART_TYPE[tname]
    prs = pptx.Presentation()
    slide = prs.slides.add_slide(prs.slide_layouts[6])
    with core.sut("C20:add_chart"):
        gf = slide.shapes.add_chart(t, Emu(0), Emu(0), Emu(4000000), Emu(3000000), _chart_data(tname, [2, 3, "str"]))
    defaults = _chart_val_defaults()
    removed = []
    cs = gf.chart._chartSpace
    # xsd:boolean has two spellings per value and CT_Boolean/@val defaults to true: "1" may be left out, "0" may be
    # written "false"
    bools = _chart_boolean_elements()
    for x in cs.iter():
        if isinstance(x.tag, str) and x.tag.startswith("{%s}" % NS_C) and x.tag.rsplit("}", 1)[1] in bools:
            if x.get("val") == "1":
                del x.attrib["val"]
                removed.append(x.tag.rsplit("}", 1)[1] + "=true(default)")
            elif x.get("val") == "0":
                x.set("val", "false")
                removed.append(x.tag.rsplit("}", 1)[1] + "=false")
    for x in cs.iter():
        if not isinstance(x.tag, str) or not x.tag.startswith("{%s}" % NS_C) or not x.tag.endswith("Chart"):
            continue
        parent = x.tag.rsplit("}", 1)[1]
        for ch in x:
            if not isinstance(ch.tag, str):
                continue
            key = (parent, ch.tag.rsplit("}", 1)[1])
            if key in defaults and ch.get("val") == defaults[key]:
                del ch.attrib["val"]
                removed.append("%s/%s" % key)
    if not removed:
        return False
    with core.sut("C20:chart_type-respelled"):
        got = type(gf.chart)(cs, gf.chart.part).chart_type
    if got is not t:
        raise Violation("C20:chart-readback-respelled:%s" % tname,
                        "%s with the default-valued @val of %s left out reads chart_type %r" % (tname, removed, got))
    return True


def check_chart_type_after_formatting(tname):
    """Formatting one series (marker none / other marker, smooth off, a line width, a fill) does not turn the chart
    into another chart type."""
    import pptx
    from pptx.enum.chart import XL_CHART_TYPE, XL_MARKER_STYLE
    from pptx.util import Emu, Pt

    t = XL_CHART_TYPE[tname]
    for variant in ("marker-none", "marker-square", "smooth-off", "line-and-fill"):
        prs = pptx.Presentation()
        slide = prs.slides.add_slide(prs.slide_layouts[6])
        with core.sut("C20:add_chart"):
            ch = slide.shapes.add_chart(t, Emu(0), Emu(0), Emu(4000000), Emu(3000000),
                                        _chart_data(tname, [3, 3, "str"])).chart
        with core.sut("C20:format-series:" + variant):
            sers = list(ch.plots[0].series)
            if not sers:
                return
            s = sers[len(sers) - 1]
            if variant.startswith("marker"):
                if not hasattr(s, "marker"):
                    continue
                s.marker.style = XL_MARKER_STYLE.NONE if variant == "marker-none" else XL_MARKER_STYLE.SQUARE
            elif variant == "smooth-off":
                if not hasattr(s, "smooth"):
                    continue
                s.smooth = False
            else:
                s.format.line.width = Pt(1.5)
                s.format.fill.solid()
        with core.sut("C20:chart_type-after-formatting"):
            got = type(ch)(ch._chartSpace, ch.part).chart_type
        exp = {t}
        if variant.startswith("marker"):
            # markers are what tells LINE_MARKERS from LINE, XY_SCATTER_LINES from ..._NO_MARKERS: showing or hiding them
            # may move the chart between those siblings, never to a type that differs in anything else (lines, smoothing,
            # stacking)
            def stem(n):
                return n.replace("_NO_MARKERS", "").replace("_MARKERS", "")
            exp |= {x for x in XL_CHART_TYPE if stem(x.name) == stem(tname)}
        if variant == "smooth-off":
            # smoothing is what tells the "smooth" XY type from its straight-line sibling: switching it off on a
            # series may legitimately change the reported sub-type
            exp |= {x for x in XL_CHART_TYPE if x.name.startswith("XY_SCATTER")} if tname.startswith("XY_") else set()
        if got not in exp:
            raise Violation("C20:chart-type-after-formatting:%s" % variant,
                            "%s reads chart_type %r after %s on its last series" % (tname, got, variant))


def check_respelled_shape(mname):
    """p:cNvSpPr/@txBox="0" (the schema default written out, as other producers do) is still an auto shape."""
    import pptx
    from pptx.enum.shapes import MSO_SHAPE, MSO_SHAPE_TYPE

    m = getattr(MSO_SHAPE, mname)
    prs = pptx.Presentation()
    slide = prs.slides.add_slide(prs.slide_layouts[6])
    for spelling in ("0", "false"):
        with core.sut("C20:add_shape"):
            sp = slide.shapes.add_shape(m, 100, 100, 914400, 914400)
        c = sp._element.find(".//{http://schemas.openxmlformats.org/presentationml/2006/main}cNvSpPr")
        c.set("txBox", spelling)
        with core.sut("C20:respelled-shape-read"):
            fresh = slide.shapes[len(slide.shapes) - 1]
            got, st_ = fresh.auto_shape_type, fresh.shape_type
        if st_ is not MSO_SHAPE_TYPE.AUTO_SHAPE:
            raise Violation("C20:shape-readback-respelled", "%s with txBox=%r reads shape_type %r" % (mname, spelling, st_))
        _shape_type_check(m, got, "with txBox=%r" % spelling)


def check_picture_mask(mname):
    """Picture.auto_shape_type (the documented way to apply an auto-shape type as a picture's mask): every member
    assigned is read back, on a plain picture and on one cropped to a freeform (a:custGeom, which the docs say reads
    None), before and after save / re-open, and p:spPr keeps exactly one geometry element."""
    import pptx
    from lxml import etree
    from pptx.enum.shapes import MSO_SHAPE

    A = "{http://schemas.openxmlformats.org/drawingml/2006/main}"
    m = getattr(MSO_SHAPE, mname)
    prs = pptx.Presentation()
    slide = prs.slides.add_slide(prs.slide_layouts[6])
    img = os.path.join(core.REPO, "tests", "test_files", "python-icon.jpeg")
    for state in ("plain", "freeform-cropped"):
        with core.sut("C20:add_picture"):
            pic = slide.shapes.add_picture(img, 100, 100)
        spPr = pic._element.find(".//{http://schemas.openxmlformats.org/presentationml/2006/main}spPr")
        if state == "freeform-cropped":
            old = spPr.find(A + "prstGeom")
            cust = etree.fromstring(
                '<a:custGeom xmlns:a="%s"><a:avLst/><a:gdLst/><a:ahLst/><a:cxnLst/><a:rect l="0" t="0" r="r" b="b"/>'
                '<a:pathLst><a:path w="10" h="10"><a:moveTo><a:pt x="0" y="0"/></a:moveTo><a:lnTo><a:pt x="10" y="0"/>'
                '</a:lnTo><a:lnTo><a:pt x="5" y="10"/></a:lnTo><a:close/></a:path></a:pathLst></a:custGeom>' % A[1:-1])
            spPr.replace(old, cust)
            with core.sut("C20:picture-mask-read"):
                before = pic.auto_shape_type
            if before is not None:
                raise Violation("C20:picture-mask:custom-geometry-not-None",
                                "a picture cropped to a freeform reads auto_shape_type %r" % (before,))
        with core.sut("C20:picture-mask-assign"):
            pic.auto_shape_type = m
        with core.sut("C20:picture-mask-read"):
            got = slide.shapes[len(slide.shapes) - 1].auto_shape_type
        _shape_type_check(m, got, "as the mask of a %s picture" % state)
        geoms = [etree.QName(c).localname for c in spPr if etree.QName(c).localname in ("custGeom", "prstGeom")]
        if geoms != ["prstGeom"]:
            raise Violation("C20:picture-mask:geometry-elements",
                            "%s picture given mask %s has geometry %r" % (state, mname, geoms))
    buf = io.BytesIO()
    with core.sut("C20:save"):
        prs.save(buf)
    with core.sut("C20:reopen"):
        again = pptx.Presentation(io.BytesIO(buf.getvalue()))
        gots = [sh.auto_shape_type for sh in again.slides[0].shapes]
    for state, got in zip(("plain", "freeform-cropped"), gots):
        _shape_type_check(m, got, "as the mask of a %s picture after save and re-open" % state)


def shape_cases(tier):
    from pptx.enum.shapes import MSO_SHAPE

    values = ADJ_VALUES_THOROUGH if tier == "thorough" else ADJ_VALUES_QUICK
    return [[m.name, c, values] for m in MSO_SHAPE for c in ("slide", "group")]


# ------------------------------------------------------------------ oracle: connectors

def check_connector(mname):
    import pptx
    from pptx.enum.shapes import MSO_CONNECTOR_TYPE
    from pptx.util import Emu

    m = MSO_CONNECTOR_TYPE[mname]
    prs = pptx.Presentation()
    slide = prs.slides.add_slide(prs.slide_layouts[6])
    s, _ = std()
    st_shape, _b = s.enumeration(NS_A, "ST_ShapeType")
    if not m.xml_value:
        try:
            with core.sut("C20:add_connector-tokenless", allow=(ValueError,)):
                slide.shapes.add_connector(m, Emu(0), Emu(0), Emu(914400), Emu(914400))
        except ValueError:
            return
        raise Violation("C20:connector-tokenless-accepted", "add_connector(%s) succeeded" % mname)
    with core.sut("C20:add_connector"):
        cx = slide.shapes.add_connector(m, Emu(0), Emu(0), Emu(914400), Emu(914400))
    prst, _g = _gd_list(_reparse(cx))
    if prst != m.xml_value:
        raise Violation("C20:connector-written-prst:%s" % mname,
                        "add_connector(%s) wrote prst=%r, token %r" % (mname, prst, m.xml_value))
    if prst not in st_shape:
        raise Violation("C20:token-not-in-schema:MSO_CONNECTOR_TYPE:%s" % mname,
                        "%r not in ST_ShapeType" % (prst,))


# ------------------------------------------------------------------ oracle: charts

DATA_QUICK = [[1, 1, "str"], [3, 4, "str"]]
DATA_THOROUGH = [[ns, npt, k] for ns in (1, 2, 3) for npt in (1, 3, 7) for k in ("str", "num", "date")]


def _chart_data(tname, cfg):
    import datetime as dt

    from pptx.chart.data import BubbleChartData, CategoryChartData, XyChartData

    nser, npt, kind = cfg
    if tname.startswith("XY_SCATTER"):
        cd = XyChartData()
        for s in range(nser):
            ser = cd.add_series("S%d" % s)
            for i in range(npt):
                ser.add_data_point(i + 0.5, (s + 1) * (i + 1))
        return cd
    if tname.startswith("BUBBLE"):
        cd = BubbleChartData()
        for s in range(nser):
            ser = cd.add_series("S%d" % s)
            for i in range(npt):
                ser.add_data_point(i + 0.5, (s + 1) * (i + 1), i + 1)
        return cd
    cd = CategoryChartData()
    if kind == "str":
        cd.categories = ["c%d" % i for i in range(npt)]
    elif kind == "num":
        cd.categories = [float(i + 1) for i in range(npt)]
    else:
        cd.categories = [dt.date(2020, 1, 1 + i) for i in range(npt)]
    for s in range(nser):
        cd.add_series("S%d" % s, [(s + 1) * (i + 1) for i in range(npt)])
    return cd


def run_charts(cases, n_reopen=1):
    """cases: [type name, data cfg]; one deck; -> list of (case, Violation)"""
    import pptx
    from pptx.enum.chart import XL_CHART_TYPE
    from pptx.util import Emu

    fails = []
    prs = pptx.Presentation()
    layout = prs.slide_layouts[6]
    expect = []
    for case in cases:
        tname, cfg = case
        t = XL_CHART_TYPE[tname]
        slide = prs.slides.add_slide(layout)
        cd = _chart_data(tname, cfg)
        try:
            try:
                with core.sut("C20:add_chart", allow=(NotImplementedError,)):
                    gf = slide.shapes.add_chart(t, Emu(0), Emu(0), Emu(4000000), Emu(3000000), cd)
            except NotImplementedError as e:
                if tname in WRITABLE_CHART_TYPES:
                    raise Violation("C20:chart-type-not-writable:%s" % tname,
                                    "add_chart(%s) raised NotImplementedError: %s" % (tname, e))
                if len(slide.shapes) != 0:
                    raise Violation("C20:chart-rejected-but-added:%s" % tname,
                                    "NotImplementedError but slide has %d shapes" % len(slide.shapes))
                expect.append((case, None, None))
                continue
            with core.sut("C20:chart_type"):
                got = gf.chart.chart_type
            if got is not t:
                raise Violation("C20:chart-readback:%s" % tname,
                                "add_chart(%s, %r) fresh chart_type = %r" % (tname, cfg, got))
            expect.append((case, len(prs.slides) - 1, t))
        except Violation as v:
            fails.append((case, v))
            expect.append((case, None, None))
    for r in range(n_reopen):
        buf = io.BytesIO()
        with core.sut("C20:save"):
            prs.save(buf)
        buf.seek(0)
        with core.sut("C20:reopen"):
            prs = pptx.Presentation(buf)
        failed = {id(c) for c, _ in fails}
        for case, sidx, t in expect:
            if sidx is None or id(case) in failed:
                continue
            try:
                with core.sut("C20:chart_type-reopened"):
                    got = prs.slides[sidx].shapes[0].chart.chart_type
                if got != t or got.name != t.name:
                    raise Violation("C20:chart-readback:%s" % t.name,
                                    "add_chart(%s, %r) after re-open chart_type = %r"
                                    % (t.name, case[1], got))
            except Violation as v:
                fails.append((case, v))
                failed.add(id(case))
    return fails


def chart_cases(tier):
    from pptx.enum.chart import XL_CHART_TYPE

    data = DATA_THOROUGH if tier == "thorough" else DATA_QUICK
    return [[t.name, cfg] for t in XL_CHART_TYPE for cfg in data]


# ------------------------------------------------------------------ oracle: public API set/get

def _api_sites():
    """name -> (enum class name, builder(prs, slide) -> (setter(member), getter(), relocate(prs)))
    Each site is a documented read/write property whose value is a member of the enum."""
    from pptx.util import Emu

    def shape(slide):
        from pptx.enum.shapes import MSO_SHAPE

        return slide.shapes.add_shape(MSO_SHAPE.RECTANGLE, Emu(0), Emu(0), Emu(914400), Emu(914400))

    def dash(slide):
        sp = shape(slide)
        return (lambda m: setattr(sp.line, "dash_style", m)), (lambda s: s.shapes[0].line.dash_style)

    def pattern(slide):
        sp = shape(slide)
        sp.fill.patterned()
        return (lambda m: setattr(sp.fill, "pattern", m)), (lambda s: s.shapes[0].fill.pattern)

    def theme(slide):
        sp = shape(slide)
        sp.fill.solid()
        return ((lambda m: setattr(sp.fill.fore_color, "theme_color", m)),
                (lambda s: s.shapes[0].fill.fore_color.theme_color))

    def anchor(slide):
        sp = shape(slide)
        return ((lambda m: setattr(sp.text_frame, "vertical_anchor", m)),
                (lambda s: s.shapes[0].text_frame.vertical_anchor))

    def cell_anchor(slide):
        gf = slide.shapes.add_table(1, 1, Emu(0), Emu(0), Emu(914400), Emu(914400))
        return ((lambda m: setattr(gf.table.cell(0, 0), "vertical_anchor", m)),
                (lambda s: s.shapes[0].table.cell(0, 0).vertical_anchor))

    def _run(slide):
        sp = shape(slide)
        r = sp.text_frame.paragraphs[0].add_run()
        r.text = "x"
        return r

    def lang(slide):
        r = _run(slide)
        return ((lambda m: setattr(r.font, "language_id", m)),
                (lambda s: s.shapes[0].text_frame.paragraphs[0].runs[0].font.language_id))

    def underline(slide):
        r = _run(slide)
        return ((lambda m: setattr(r.font, "underline", m)),
                (lambda s: s.shapes[0].text_frame.paragraphs[0].runs[0].font.underline))

    def align(slide):
        sp = shape(slide)
        return ((lambda m: setattr(sp.text_frame.paragraphs[0], "alignment", m)),
                (lambda s: s.shapes[0].text_frame.paragraphs[0].alignment))

    def _chart(slide, tname):
        from pptx.enum.chart import XL_CHART_TYPE

        return slide.shapes.add_chart(XL_CHART_TYPE[tname], Emu(0), Emu(0), Emu(4000000),
                                      Emu(3000000), _chart_data(tname, [2, 3, "str"])).chart

    def legend(slide):
        ch = _chart(slide, "COLUMN_CLUSTERED")
        ch.has_legend = True
        return ((lambda m: setattr(ch.legend, "position", m)),
                (lambda s: s.shapes[0].chart.legend.position))

    def dlblpos(slide):
        ch = _chart(slide, "COLUMN_CLUSTERED")
        ch.plots[0].has_data_labels = True
        return ((lambda m: setattr(ch.plots[0].data_labels, "position", m)),
                (lambda s: s.shapes[0].chart.plots[0].data_labels.position))

    def marker(slide):
        ch = _chart(slide, "LINE_MARKERS")
        return ((lambda m: setattr(ch.plots[0].series[0].marker, "style", m)),
                (lambda s: s.shapes[0].chart.plots[0].series[0].marker.style))

    def major_tick(slide):
        ch = _chart(slide, "COLUMN_CLUSTERED")
        return ((lambda m: setattr(ch.value_axis, "major_tick_mark", m)),
                (lambda s: s.shapes[0].chart.value_axis.major_tick_mark))

    def minor_tick(slide):
        ch = _chart(slide, "COLUMN_CLUSTERED")
        return ((lambda m: setattr(ch.category_axis, "minor_tick_mark", m)),
                (lambda s: s.shapes[0].chart.category_axis.minor_tick_mark))

    def ticklbl(slide):
        ch = _chart(slide, "COLUMN_CLUSTERED")
        return ((lambda m: setattr(ch.category_axis, "tick_label_position", m)),
                (lambda s: s.shapes[0].chart.category_axis.tick_label_position))

    def crosses(slide):
        ch = _chart(slide, "COLUMN_CLUSTERED")
        return ((lambda m: setattr(ch.value_axis, "crosses", m)),
                (lambda s: s.shapes[0].chart.value_axis.crosses))

    return {
        "line.dash_style": ("MSO_LINE_DASH_STYLE", dash),
        "fill.pattern": ("MSO_PATTERN_TYPE", pattern),
        "fore_color.theme_color": ("MSO_THEME_COLOR_INDEX", theme),
        "text_frame.vertical_anchor": ("MSO_VERTICAL_ANCHOR", anchor),
        "cell.vertical_anchor": ("MSO_VERTICAL_ANCHOR", cell_anchor),
        "font.language_id": ("MSO_LANGUAGE_ID", lang),
        "font.underline": ("MSO_TEXT_UNDERLINE_TYPE", underline),
        "paragraph.alignment": ("PP_PARAGRAPH_ALIGNMENT", align),
        "legend.position": ("XL_LEGEND_POSITION", legend),
        "data_labels.position": ("XL_DATA_LABEL_POSITION", dlblpos),
        "marker.style": ("XL_MARKER_STYLE", marker),
        "axis.major_tick_mark": ("XL_TICK_MARK", major_tick),
        "axis.minor_tick_mark": ("XL_TICK_MARK", minor_tick),
        "axis.tick_label_position": ("XL_TICK_LABEL_POSITION", ticklbl),
        "axis.crosses": ("XL_AXIS_CROSSES", crosses),
    }


def _api_expected(site, m):
    """documented read-back of assigning member m at site"""
    if site == "font.underline":
        if m.name == "SINGLE_LINE":
            return True
        if m.name == "NONE":
            return False
    return m


def check_api(case):
    """case = [site, member name] — member has an XML token"""
    import pptx

    site, mname = case
    ename, build = _api_sites()[site]
    classes, _ = xml_enums()
    m = classes[ename][mname]
    prs = pptx.Presentation()
    slide = prs.slides.add_slide(prs.slide_layouts[6])
    with core.sut("C20:api-setup:%s" % site):
        setter, getter = build(slide)
    with core.sut("C20:api-set:%s" % site):
        setter(m)
    exp = _api_expected(site, m)
    for where in ("fresh", "after re-open"):
        with core.sut("C20:api-get:%s" % site):
            got = getter(slide)
        same = (got is exp) if not isinstance(exp, bool) else (got is exp)
        if not same:
            if (got is not None and not isinstance(got, bool)
                    and getattr(got, "xml_value", None) == m.xml_value):
                raise Violation("C20:alias:%s:%s:%s" % (ename, m.xml_value, m.name),
                                "%s = %s.%s reads back %s %s" % (site, ename, mname, got.name, where))
            raise Violation("C20:api-readback:%s" % site,
                            "%s = %s.%s reads back %r %s" % (site, ename, mname, got, where))
        if where == "fresh":
            buf = io.BytesIO()
            with core.sut("C20:save"):
                prs.save(buf)
            buf.seek(0)
            with core.sut("C20:reopen"):
                slide = pptx.Presentation(buf).slides[0]


def api_cases():
    classes, _ = xml_enums()
    out = []
    for site, (ename, _b) in sorted(_api_sites().items()):
        for m in classes[ename]:
            if m.xml_value:
                out.append([site, m.name])
    return out


# ------------------------------------------------------------------ jobs

def jobs(tier):
    js = [{"kind": "enums"}, {"kind": "rejects"}, {"kind": "bindings"}, {"kind": "table"},
          {"kind": "connectors"}, {"kind": "foreign-avlst"}, {"kind": "respelled"}]
    for i in range(4):
        js.append({"kind": "api", "shard": i, "of": 4})
    for i in range(NSHAPE_SHARDS):
        js.append({"kind": "shapes", "shard": i})
    for i in range(NCHART_SHARDS):
        js.append({"kind": "charts", "shard": i})
    return js


def _tag(fails, kind):
    for f in fails:
        f["case"] = [kind, f["case"]]
    return fails


def _collect_batch(pairs, kind, rec, known):
    out = {}
    for case, v in pairs:
        if v.key in known:
            rec.known[v.key] += 1
            continue
        out.setdefault(v.key, {"key": v.key, "message": v.message,
                               "case": [kind, core.to_jsonable(case)]})
    return list(out.values())


def run_job(job, seed, tier, rec, known):
    k = job["kind"]
    classes, aliases = xml_enums()
    if k == "respelled":
        from pptx.enum.shapes import MSO_SHAPE
        names = sorted(WRITABLE_CHART_TYPES)
        done = []
        f = _tag(run_plain(lambda n: done.append(n) if check_respelled_chart(n) else None, names, rec=rec, known=known),
                 "respelled-chart")
        f += _tag(run_plain(check_chart_type_after_formatting, names, rec=rec, known=known), "chart-formatting")
        snames = [m.name for m in MSO_SHAPE if m.xml_value]
        f += _tag(run_plain(check_respelled_shape, snames, rec=rec, known=known), "respelled-shape")
        f += _tag(run_plain(check_picture_mask, snames, rec=rec, known=known), "picture-mask")
        rec.cls(*["picture-mask"] * len(snames))
        rec.note_enum(len(names) + 2 * len(snames), len(done) + 2 * len(snames), sample=["picture-mask", snames[7]])
        rec.cls("respelled:charts-with-default-valued-attributes=%d" % len(done))
        return f
    if k == "foreign-avlst":
        from pptx.enum.shapes import MSO_SHAPE
        cases = [[m.name, mode] for m in MSO_SHAPE if m.xml_value for mode in ("last-only", "reversed", "skip-first", "absent")]
        cases = [c for i, c in enumerate(cases) if cases.index(c) == i]
        f = _tag(run_plain(check_foreign_avlst, cases, rec=rec, known=known), "foreign-avlst")
        n = sum(1 for mn, _md in cases if (std_adjustments(getattr(MSO_SHAPE, mn).xml_value) or [None])[1:])
        rec.note_enum(len(cases), n, sample=["foreign-avlst", cases[40]])
        rec.cls("foreign-avlst:cases")
        return f
    if k == "enums":
        members, _ = enum_cases()
        f = _tag(run_plain(check_member, members, rec=rec, known=known), "member")
        nt = 0
        for ename, aname in members:
            m = getattr(classes[ename], aname)
            has = bool(m.xml_value)
            nt += has
            rec.cls("enum=%s" % ename)
            rec.cls("member:with-token" if has else "member:tokenless")
            if aname != m.name:
                rec.cls("member:python-alias-name")
        for ename in sorted(classes):
            allowed, tnames, bound = enum_schema_tokens(ename)
            rec.cls("enum-bound:" + ("schema-enumeration" if allowed is not None else
                                      "unconstrained-type" if bound else "UNBOUND"))
        rec.extra["enum_classes"] = len(classes)
        rec.extra["module_alias_names"] = sorted("%s=%s" % kv for kv in aliases.items())
        rec.extra["enum_schema_types"] = sorted(
            "%s->%s" % (e, "/".join(enum_schema_tokens(e)[1]) or "?") for e in classes)
        # module-level alias names must be the very same class (so their members are covered)
        for al, cn in aliases.items():
            for mn in ENUM_MODULES:
                mod = importlib.import_module(mn)
                if hasattr(mod, al) and getattr(mod, al) is not classes[cn]:
                    raise core.HarnessError("alias %s is not %s" % (al, cn))
        rec.note_enum(len(members), nt, sample=["member", members[len(members) // 2]])
        return f
    if k == "rejects":
        _, rejects = enum_cases()
        f = _tag(run_plain(check_reject, rejects, rec=rec, known=known), "reject")
        for ename, tok in rejects:
            rec.cls("reject:empty" if tok == "" else "reject:junk" if tok.startswith("__")
                    else "reject:unmapped-schema-token")
        rec.note_enum(len(rejects), 0)
        return f
    if k == "bindings":
        cases = binding_cases()
        f = _tag(run_plain(check_binding, cases, rec=rec, known=known), "binding")
        nt = 0
        for c in cases:
            has = bool(classes[c[4]][c[7]].xml_value)
            nt += has
            rec.cls("binding=%s:%s/@%s" % (c[0], c[1], c[3]))
            if c[6] is not None and c[6] == c[7]:
                rec.cls("binding:member-is-declared-default")
        rec.extra["bindings"] = len(bindings())
        rec.note_enum(len(cases), nt, sample=["binding", cases[len(cases) // 3]])
        return f
    if k == "table":
        from pptx.enum.shapes import MSO_SHAPE

        names = [m.name for m in MSO_SHAPE]
        f = _tag(run_plain(check_table, names, rec=rec, known=known), "table")
        _, defs = std()
        for m in MSO_SHAPE:
            e = std_adjustments(m.xml_value)
            rec.cls("table:no-standard-definition" if e is None else "table:adjustments=%d" % len(e))
        s, _d = std()
        st_shape, _b = s.enumeration(NS_A, "ST_ShapeType")
        rec.extra["presets_in_schema_without_definition"] = sorted(set(st_shape) - set(defs))
        rec.note_enum(len(names), len(names), sample=["table", names[50]])
        return f
    if k == "connectors":
        from pptx.enum.shapes import MSO_CONNECTOR_TYPE

        names = [m.name for m in MSO_CONNECTOR_TYPE]
        f = _tag(run_plain(check_connector, names, rec=rec, known=known), "connector")
        rec.note_enum(len(names), sum(1 for m in MSO_CONNECTOR_TYPE if m.xml_value),
                      sample=["connector", names[0]])
        rec.cls(*["connector"] * len(names))
        return f
    if k == "api":
        cases = api_cases()[job["shard"]::job["of"]]
        f = _tag(run_plain(check_api, cases, rec=rec, known=known), "api")
        for c in cases:
            rec.cls("api=%s" % c[0])
        rec.note_enum(len(cases), len(cases), sample=["api", cases[0]])
        return f
    if k == "shapes":
        cases = shape_cases(tier)[job["shard"]::NSHAPE_SHARDS]
        pairs = run_shapes(cases, n_reopen=2 if tier == "thorough" else 1)
        for c in cases:
            rec.cls("shape-in-%s" % c[1])
        rec.extra["adjustment_assignments"] = sum(
            len(std_adjustments(_tok(c[0])) or []) * len(c[2]) for c in cases)
        rec.note_enum(len(cases), len(cases), sample=["shape", cases[0]])
        return _collect_batch(pairs, "shape", rec, known)
    if k == "charts":
        cases = chart_cases(tier)[job["shard"]::NCHART_SHARDS]
        pairs = run_charts(cases, n_reopen=2 if tier == "thorough" else 1)
        for c in cases:
            rec.cls("chart:documented-writable" if c[0] in WRITABLE_CHART_TYPES else "chart:other-type")
        # types answered with NotImplementedError only exercise the rejection: counted as trivial
        rec.note_enum(len(cases), sum(1 for c in cases if c[0] in WRITABLE_CHART_TYPES),
                      sample=["chart", cases[0]])
        return _collect_batch(pairs, "chart", rec, known)
    raise ValueError(k)


def _tok(mname):
    from pptx.enum.shapes import MSO_SHAPE

    return MSO_SHAPE[mname].xml_value


# ------------------------------------------------------------------ replay

def replay(case):
    kind, c = case[0], case[1]
    if kind == "member":
        return collect(check_member, c)
    if kind == "reject":
        return collect(check_reject, c)
    if kind == "binding":
        return collect(check_binding, c)
    if kind == "table":
        return collect(check_table, c)
    if kind == "connector":
        return collect(check_connector, c)
    if kind == "foreign-avlst":
        return collect(check_foreign_avlst, c)
    if kind == "respelled-chart":
        return collect(check_respelled_chart, c)
    if kind == "chart-formatting":
        return collect(check_chart_type_after_formatting, c)
    if kind == "respelled-shape":
        return collect(check_respelled_shape, c)
    if kind == "picture-mask":
        return collect(check_picture_mask, c)
    if kind == "api":
        return collect(check_api, c)
    if kind == "shape":
        return [{"key": v.key, "message": v.message, "case": case} for _c, v in run_shapes([c])]
    if kind == "chart":
        return [{"key": v.key, "message": v.message, "case": case} for _c, v in run_charts([c])]
    raise ValueError(kind)
