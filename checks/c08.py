"""C08 -- the chart's cached values and its embedded workbook agree cell for cell.

Case = start state (new deck + add_chart / ChartPlaceholder.insert_chart / a chart of a corpus deck), optional
start-state modifications applied to the *saved file* (c:date1904 val=1, c:externalData removed, plain
save/re-open), then 0..3 replace_data calls. After every step the chart part XML and the workbook are taken
from the chart part (chart XML serialised and re-parsed with plain lxml; workbook = blob of the part the
c:externalData r:id relationship targets) and at the end once more from the saved .pptx through the
independent OPC reader (vlib.opcmodel), and given to the oracle:

  for every c:ser (plot order, then c:order) and every role in c:tx, c:cat, c:val, c:xVal, c:yVal,
  c:bubbleSize: the c:f formula parses as Sheet!$C$r[:$C$r], the sheet exists in the workbook (read by the own
  reader vlib.c08_xlsxread), rows x cols of the range == c:ptCount x level count, every cached c:pt equals the
  cell at its offset (strings equal and the cell a plain string cell -- no formula, no hyperlink; numbers
  float-equal to 16 significant digits), no non-empty cell in the range lacks a cached point, and the cells of
  the range hold the data supplied (dates: serial in the workbook's date system, which must be the date system
  the chart declares).

Plus the exhaustive check of CategoryWorkbookWriter._column_reference(n), n = 1..16384, against an own
bijective base-26 conversion and its inverse, and a deterministic grid over the series counts that cross the
Z/AA, AZ/BA, ZZ/AAA column boundaries.
"""
import datetime as dt
import io
import re
import zipfile

from lxml import etree

from vlib import core
from vlib import c08_strategies as S
from vlib import c08_xlsxread as X
from vlib.core import Violation, hyp_search, run_plain, collect

PROPERTY = "C08"
LEVEL = "exploration"
EXHAUSTIVE = False
RULE = ("Hypothesis-generated cases (chart kind x type x start state {new deck, chart placeholder, corpus chart} x "
        "start-state modification {date1904=1, externalData removed, re-open} x 1..4 chart-data specs for "
        "add_chart + replace_data) plus a deterministic grid (series count in {0,1,2,24..28,50..54,700..705} x "
        "1..3 points x category depth 1..4, add_chart then replace_data with the next count), every corpus chart "
        "with >=1 series x 2 replacement data sets, and the exhaustive _column_reference(1..16384) comparison. "
        "One evaluation = one chart state (after add_chart / each replace_data / the final saved file) run "
        "through the full oracle. Non-trivial: some reference has a column >= AA, category depth >= 2, XY/bubble "
        "series of unequal lengths, a None value, a formula-/URL-looking string, date categories, or a date1904 "
        "chart. Distinct by hash of the data shape (kind, chart type class, depth, leaf count, series lengths, "
        "None positions, label/name classes, date system, step kind). The 16384 column numbers are distinct by "
        "construction; n >= 27 (multi-letter reference) counts as non-trivial there.")
ASSUMPTIONS = [
    "numbers are compared with relative tolerance 1e-15: XlsxWriter stores 16 significant digits ('%.16G') while "
    "the cache holds repr(); a 17th-digit difference is not counted as disagreement (count in "
    "'num_inexact_matches')",
    "an empty-string label / None or '' series name has no cell (or a blank one): cached '' equals an empty cell",
    "None values are blank cells (possibly styled) and have no cached point",
    "inverted range r2 == r1-1 (series with no points) is the empty range",
    "multi-level categories: c:lvl[0] is the leaf level = rightmost column of the range, c:lvl[k] = k-th column "
    "from the right; c:pt idx = row offset in the range (the convention Excel itself writes)",
    "only c:f under c:ser/{c:tx,c:cat,c:val,c:xVal,c:yVal,c:bubbleSize} are the property's references; other "
    "c:f of PowerPoint-authored corpus charts (titles, error bars, data-label ranges) are counted in "
    "'other_formulas_skipped', not judged",
    "series pairing with the supplied data: plots in document order, within a plot by c:order (documented order "
    "of chart.series)",
    "domain: labels / names are str of XML characters without C0 controls other than TAB and LF (CR and the "
    "other controls are C04/C05's business), <= 1000 chars; numbers finite; dates 1900-01-01..2199-12-31 (from "
    "1904-01-01 for date1904 charts); multi-level labels are strings; >= 1 category; replace_data is given "
    ">= 1 series and starts from a chart holding >= 1 series (F19 belongs to C07)",
    "datetime labels: the workbook may hold either the day serial or day serial + time fraction (cell-vs-input); "
    "the cached point must still equal the cell; every disagreement on a datetime (not date) label is keyed "
    "C08:datetime-label:* (one root cause: the datetime object is handed to XlsxWriter unconverted)",
    "a pie plot written by add_chart holds only the first supplied series (C07's clause); its references are "
    "judged, the surplus workbook columns are not",
    "the date1904 / no-externalData start states are produced by rewriting the saved package (as if authored "
    "elsewhere), never by touching python-pptx objects",
]

NS_C = "http://schemas.openxmlformats.org/drawingml/2006/chart"
NS_R = "http://schemas.openxmlformats.org/officeDocument/2006/relationships"
NS_P = "http://schemas.openxmlformats.org/presentationml/2006/main"
C = "{%s}" % NS_C
_PLAIN = etree.XMLParser(remove_blank_text=False, resolve_entities=False)

ROLES = ("tx", "cat", "val", "xVal", "yVal", "bubbleSize")
PLACEHOLDER_DECK = "features/steps/test_files/ph-unpopulated-placeholders.pptx"
PLACEHOLDER_SLIDE = 3


# ================================================================================== formula references

_REF = re.compile(r"^(?:'((?:[^']|'')+)'|([^'!\[\]:*?/\\]+))!\$?([A-Z]{1,3})\$?([1-9][0-9]*)"
                  r"(?::\$?([A-Z]{1,3})\$?([1-9][0-9]*))?$")


def parse_formula(f):
    """'Sheet1!$A$2:$B$4' -> (sheet, r1, c1, r2, c2); raises ValueError."""
    m = _REF.match(f or "")
    if not m:
        raise ValueError("not a cell / range reference")
    sheet = m.group(1).replace("''", "'") if m.group(1) is not None else m.group(2)
    r1, c1 = int(m.group(4)), X.col_to_num(m.group(3))
    if m.group(5) is not None:
        r2, c2 = int(m.group(6)), X.col_to_num(m.group(5))
    else:
        r2, c2 = r1, c1
    if max(c1, c2) > 16384 or max(r1, r2) > 1048576:
        raise ValueError("outside the sheet")
    return sheet, r1, c1, r2, c2


# ================================================================================== dates / numbers

def own_serial(d, date1904):
    """Excel serial of the calendar day of d (1900 system incl. the phantom 1900-02-29, or 1904 system)."""
    day = dt.date(d.year, d.month, d.day)
    if date1904:
        return (day - dt.date(1904, 1, 1)).days
    n = (day - dt.date(1899, 12, 30)).days
    if day < dt.date(1900, 3, 1):
        n -= 1
    return n


def day_fraction(d):
    if isinstance(d, dt.datetime):
        return (d.hour * 3600 + d.minute * 60 + d.second + d.microsecond / 1e6) / 86400.0
    return 0.0


def num_close(a, b):
    if a == b:
        return True
    return abs(a - b) <= 1e-15 * max(abs(a), abs(b))


_INEXACT = [0]


def _num_eq(a, b):
    if a == b:
        return True
    if num_close(a, b):
        _INEXACT[0] += 1
        return True
    return False


def is_date(x):
    return isinstance(x, (dt.date, dt.datetime))


# ================================================================================== chart XML model

class Ref(object):
    """one reference + cache under a c:ser"""

    def __init__(self, role, flavor, f, pt_count, levels):
        self.role, self.flavor, self.f, self.pt_count, self.levels = role, flavor, f, pt_count, levels
        # levels: list of {idx: text}; one entry except for multiLvlStrRef


def _pts(cache):
    out = {}
    dup = False
    for pt in cache.findall(C + "pt"):
        idx = int(pt.get("idx"))
        v = pt.find(C + "v")
        if idx in out:
            dup = True
        out[idx] = "" if v is None or v.text is None else v.text
    return out, dup


def read_chart(xml_bytes, ctx):
    """-> (date1904, [ {role: Ref} per c:ser in plot order / c:order ], n_other_formulas, externalData rIds)"""
    try:
        root = etree.fromstring(xml_bytes, _PLAIN)
    except etree.XMLSyntaxError as e:
        raise Violation("C08:chart-xml-malformed:%s" % ctx["step"], "chart part does not parse: %s" % e)
    d = root.find(C + "date1904")
    date1904 = False
    if d is not None:
        date1904 = d.get("val", "1") in ("1", "true")
    ext = [e.get("{%s}id" % NS_R) for e in root.findall(C + "externalData")]
    sers = []
    pa = root.find(C + "chart/" + C + "plotArea")
    n_checked_f = 0
    if pa is not None:
        for xchart in pa:
            if not isinstance(xchart.tag, str) or not xchart.tag.endswith("Chart"):
                continue
            group = []
            for pos, ser in enumerate(xchart.findall(C + "ser")):
                o = ser.find(C + "order")
                order = int(o.get("val")) if o is not None and o.get("val") is not None else 0
                group.append((order, pos, ser))
            group.sort(key=lambda t: (t[0], t[1]))
            for _o, _p, ser in group:
                refs = {}
                for role in ROLES:
                    el = ser.find(C + role)
                    if el is None:
                        continue
                    ref = None
                    for flavor, cname in (("str", "strCache"), ("num", "numCache"), ("multi", "multiLvlStrCache")):
                        rel = el.find(C + {"str": "strRef", "num": "numRef", "multi": "multiLvlStrRef"}[flavor])
                        if rel is None:
                            continue
                        fel = rel.find(C + "f")
                        f = None if fel is None else (fel.text or "")
                        cache = rel.find(C + cname)
                        if cache is None:
                            ref = Ref(role, flavor, f, None, [])
                            break
                        pc = cache.find(C + "ptCount")
                        pt_count = None if pc is None else int(pc.get("val"))
                        dup = False
                        if flavor == "multi":
                            levels = []
                            for lvl in cache.findall(C + "lvl"):
                                p, dd = _pts(lvl)
                                dup = dup or dd
                                levels.append(p)
                        else:
                            p, dup = _pts(cache)
                            levels = [p]
                        if dup:
                            raise Violation("C08:pt-idx-duplicate:%s" % role, "%s: two c:pt share an idx under %r"
                                            % (ctx["step"], f))
                        ref = Ref(role, flavor, f, pt_count, levels)
                        break
                    if ref is not None:
                        refs[role] = ref
                        n_checked_f += 1
                sers.append(refs)
    n_all_f = sum(1 for _ in root.iter(C + "f"))
    ctx["pie"] = pa is not None and any(pa.find(C + t) is not None for t in ("pieChart", "pie3DChart", "ofPieChart"))
    return date1904, sers, n_all_f - n_checked_f, ext


# ================================================================================== the oracle

def _kindname(kind):
    return {"cat": "category", "xy": "xy", "bubble": "bubble"}[kind]


def _label_text(x):
    """what a string cache / string cell is expected to read for a supplied label or name"""
    if x is None:
        return ""
    return x if isinstance(x, str) else str(x)


def check_state(xml_bytes, xlsx_bytes, kind, data, ctx, rec=None, known=None):
    """The whole oracle for one chart state. ctx: {"step": "add"|"replace"|"saved", "generated": bool}.
    Cell-level violations whose key is a listed finding are counted (rec.known) and the comparison goes on
    with the next cell, so the search continues *inside* a case behind a known finding."""
    step = ctx["step"]

    def viol(key, msg):
        if known is not None and rec is not None and key in known:
            rec.known[key] += 1
            return
        raise Violation(key, msg)

    skip = {"cat-num": False}
    kn = _kindname(kind)
    date1904, sers, n_other, ext = read_chart(xml_bytes, ctx)
    if rec is not None and n_other:
        rec.extra["other_formulas_skipped"] = rec.extra.get("other_formulas_skipped", 0) + n_other
    if xlsx_bytes is None:
        raise Violation("C08:no-workbook:%s" % step, "chart has %d c:externalData; no embedded workbook reachable"
                        % len(ext))
    try:
        wb = X.read_xlsx(xlsx_bytes)
    except X.XlsxError as e:
        raise Violation("C08:workbook-unreadable:%s" % step, "embedded workbook: %s" % e)

    # ---- supplied data in plain form
    if kind == "cat":
        series = S.cat_series_list(data)
        depth, leaves, cat_cells = S.flatten_cats(data)
        first_label = cat_cells[(0, depth - 1)] if depth == 1 else None
        cats_are_dates = depth == 1 and is_date(first_label)
        cats_are_numeric = depth == 1 and (cats_are_dates or (isinstance(first_label, (int, float))
                                                              and not isinstance(first_label, bool)))
    else:
        series = S.xy_series_list(data, kind == "bubble")
        cats_are_dates = cats_are_numeric = False

    if ctx.get("pie") and len(sers) == 1 and len(series) > 1:
        # a pie plot shows one series: the XML writer emits the first only (which data the XML reports is
        # C07's clause); the references that exist are judged
        if rec is not None:
            rec.cls("pie:xml-holds-first-series-only")
    elif len(sers) != len(series):
        raise Violation("C08:ser-count-vs-input:%s" % step, "%d c:ser for %d supplied series" % (len(sers), len(series)))

    if cats_are_dates and sers and date1904 != wb.date1904:
        skip["cat-num"] = True      # every date cell would differ from its cached point by the epoch offset
        viol(
            "C08:date-system:chart-%s-workbook-%s" % ("1904" if date1904 else "1900",
                                                      "1904" if wb.date1904 else "1900"),
            "%s: chart declares date1904=%s, embedded workbook date1904=%s, categories are dates (first %r)"
            % (step, date1904, wb.date1904, first_label))

    stats = {"max_col": 0}
    first_cat_f = None

    def resolve(ref, what):
        try:
            sheet, r1, c1, r2, c2 = parse_formula(ref.f)
        except ValueError as e:
            raise Violation("C08:formula-unparseable:%s:%s" % (ref.role, kn), "%s: c:f %r %s" % (what, ref.f, e))
        try:
            sh = wb.sheet(sheet)
        except KeyError:
            raise Violation("C08:sheet-missing:%s" % ref.role, "%s: c:f %r names a sheet not in the workbook %r"
                            % (what, ref.f, wb.sheet_names))
        stats["max_col"] = max(stats["max_col"], c1, c2)
        return sh, r1, c1, r2, c2

    def check_ref(ref, what):
        """structure + cache-vs-cell for one reference; -> (sheet, r1, c1, rows, cols)"""
        sh, r1, c1, r2, c2 = resolve(ref, what)
        if ref.pt_count is None:
            raise Violation("C08:no-ptCount:%s" % ref.role, "%s: cache without c:ptCount" % what)
        rows, cols = r2 - r1 + 1, c2 - c1 + 1
        if rows < 0 or cols < 1:
            raise Violation("C08:range-inverted:%s:%s" % (ref.role, kn), "%s: c:f %r" % (what, ref.f))
        nlev = len(ref.levels) if ref.flavor == "multi" else 1
        if rows != ref.pt_count or (rows > 0 and cols != nlev):
            raise Violation("C08:range-size:%s:%s" % (ref.role, kn),
                            "%s: c:f %r spans %d row(s) x %d col(s); c:ptCount=%d, %d level(s)"
                            % (what, ref.f, rows, cols, ref.pt_count, nlev))
        for k, pts in enumerate(ref.levels):
            col = c2 - k
            for idx in pts:
                if idx < 0 or idx >= ref.pt_count:
                    raise Violation("C08:pt-idx-out-of-range:%s" % ref.role, "%s: c:pt idx=%d, ptCount=%d"
                                    % (what, idx, ref.pt_count))
            for i in range(rows):
                cell = sh.get(r1 + i, col)
                where = "%s!%s%d" % (sh.name, X.num_to_col(col), r1 + i)
                if i in pts:
                    compare_cached(ref, pts[i], cell, where, what, i)
                elif cell is not None and not cell.is_empty:
                    viol("C08:cell-without-cached-point:%s:%s" % (ref.role, kn),
                                    "%s: cell %s holds %r but c:f %r has no c:pt idx=%d" % (what, where, cell, ref.f, i))
        return sh, r1, c1, rows, cols

    def compare_cached(ref, cached, cell, where, what, i):
        role = ref.role
        if ref.flavor in ("str", "multi"):
            if cell is None or cell.is_empty:
                if cached == "":
                    return
                viol("C08:cache-vs-cell:%s:%s:cell-missing" % (role, kn),
                                "%s: cached %r (idx %d) but cell %s is empty" % (what, cached[:80], i, where))
                return
            if cell.formula is not None:
                viol("C08:cell-is-formula:%s:%s" % (role, kn),
                                "%s: cached text %r but cell %s is a formula cell %r" % (what, cached[:80], where, cell))
                return
            if cell.hyperlink is not None:
                viol("C08:cell-is-hyperlink:%s:%s" % (role, kn),
                                "%s: cached text %r but cell %s is a hyperlink cell %r" % (what, cached[:80], where, cell))
                return
            if cell.kind != "str":
                viol("C08:cache-vs-cell:%s:%s:type" % (role, kn),
                                "%s: cached text %r but cell %s is %r" % (what, cached[:80], where, cell))
                return
            if cell.value != cached:
                viol("C08:cache-vs-cell:%s:%s:text" % (role, kn),
                                "%s: cached %r != cell %s %r" % (what, cached[:80], where, cell.value[:80]))
                return
            return
        # numeric cache
        if role == "cat" and skip["cat-num"]:
            return
        try:
            cv = float(cached)
        except ValueError:
            viol("C08:cache-not-numeric:%s:%s" % (role, kn), "%s: numCache c:v %r" % (what, cached[:80]))
            return
        if cell is None or cell.is_empty:
            viol("C08:cache-vs-cell:%s:%s:cell-missing" % (role, kn),
                            "%s: cached %r (idx %d) but cell %s is empty" % (what, cached, i, where))
            return
        if cell.formula is not None:
            viol("C08:cell-is-formula:%s:%s" % (role, kn),
                            "%s: cached number %r but cell %s is a formula cell %r" % (what, cached, where, cell))
            return
        if cell.kind != "num":
            viol("C08:cache-vs-cell:%s:%s:type" % (role, kn),
                            "%s: cached number %r but cell %s is %r" % (what, cached, where, cell))
            return
        if not _num_eq(cv, cell.value):
            if role == "cat" and cats_are_dates:
                lbl = cat_cells.get((i, 0))
                if isinstance(lbl, dt.datetime):
                    # datetime labels go to XlsxWriter unconverted: it keeps the time of day and takes
                    # 1900-01-01Thh:mm for a time-only value, while the cache holds the day serial
                    viol("C08:datetime-label:cat:%s" % kn,
                         "%s: datetime label %r: cached serial %r (day only) != cell %s %r"
                         % (what, lbl, cached, where, cell.value))
                    return
            viol("C08:cache-vs-cell:%s:%s:value" % (role, kn),
                            "%s: cached %r != cell %s %r" % (what, cached, where, cell.value))
            return

    def cell_vs_input(sh, row, col, supplied, role, what, as_date=False):
        cell = sh.get(row, col)
        where = "%s!%s%d" % (sh.name, X.num_to_col(col), row)
        key = "C08:cell-vs-input:%s:%s" % (role, kn)
        if supplied is None or supplied == "":
            if cell is None or cell.is_empty or (cell.kind == "str" and cell.value == ""):
                return
            viol(key + ":not-empty", "%s: nothing supplied for %s, cell holds %r" % (what, where, cell))
            return
        if cell is None or cell.is_empty:
            viol(key + ":cell-missing", "%s: supplied %r, cell %s is empty" % (what, _short(supplied), where))
            return
        if as_date:
            exp = own_serial(supplied, wb.date1904)
            if cell.kind == "num" and (_num_eq(cell.value, exp) or
                                       abs(cell.value - (exp + day_fraction(supplied))) < 1e-6):
                return
            if isinstance(supplied, dt.datetime):
                viol("C08:datetime-label:%s:%s" % (role, kn), "%s: datetime label %r = serial %d (+%.6f), cell %s "
                     "holds %r" % (what, supplied, exp, day_fraction(supplied), where, cell))
                return
            viol(key + ":date", "%s: supplied %r = serial %d (+%.6f) in the workbook's date system "
                            "(date1904=%s), cell %s holds %r" % (what, supplied, exp, day_fraction(supplied),
                                                                 wb.date1904, where, cell))
            return
        if isinstance(supplied, str):
            if cell.formula is not None:
                viol("C08:cell-is-formula:%s:%s" % (role, kn),
                                "%s: supplied text %r, cell %s is a formula cell %r" % (what, supplied[:80], where, cell))
                return
            if cell.hyperlink is not None:
                viol("C08:cell-is-hyperlink:%s:%s" % (role, kn),
                                "%s: supplied text %r, cell %s is a hyperlink cell %r" % (what, supplied[:80], where, cell))
                return
            if cell.kind == "str" and cell.value == supplied:
                return
            viol(key + ":text", "%s: supplied %r, cell %s holds %r" % (what, supplied[:80], where, cell))
            return
        # number
        if cell.kind == "num" and cell.formula is None and _num_eq(cell.value, float(supplied)):
            return
        viol(key + ":value", "%s: supplied %r, cell %s holds %r" % (what, supplied, where, cell))
        return

    for k, (refs, sdata) in enumerate(zip(sers, series)):
        what0 = "%s ser[%d]" % (step, k)
        name = sdata[0]
        # ---------------- series name
        tx = refs.get("tx")
        if tx is None or tx.flavor != "str":
            raise Violation("C08:no-reference:tx:%s" % kn, "%s: c:tx holds no c:strRef" % what0)
        sh, r1, c1, rows, cols = check_ref(tx, what0 + " c:tx")
        if (rows, cols) != (1, 1):
            raise Violation("C08:range-size:tx:%s" % kn, "%s: c:tx reference %r is not one cell" % (what0, tx.f))
        cell_vs_input(sh, r1, c1, _label_text(name), "tx", what0 + " name")
        if kind == "cat":
            vals = sdata[1]
            cat = refs.get("cat")
            if cat is None:
                raise Violation("C08:no-reference:cat:%s" % kn, "%s: no c:cat reference" % what0)
            sh, r1, c1, rows, cols = check_ref(cat, what0 + " c:cat")
            if rows != leaves or cols != depth:
                raise Violation("C08:cell-vs-input:cat:%s:shape" % kn,
                                "%s: categories reference %r is %dx%d, supplied %d leaves x %d levels"
                                % (what0, cat.f, rows, cols, leaves, depth))
            if k == 0 or cat.f != first_cat_f:
                # (all series of python-pptx charts share one categories range: its cells are compared once)
                first_cat_f = cat.f
                for i in range(rows):
                    for lv in range(depth):
                        lbl = cat_cells.get((i, lv))
                        if cats_are_dates:
                            cell_vs_input(sh, r1 + i, c1 + lv, lbl, "cat", what0 + " category", as_date=True)
                        elif cats_are_numeric:
                            cell_vs_input(sh, r1 + i, c1 + lv, lbl, "cat", what0 + " category")
                        else:
                            cell_vs_input(sh, r1 + i, c1 + lv, None if lbl is None else _label_text(lbl), "cat",
                                          what0 + " category")
            val = refs.get("val")
            if val is None or val.flavor != "num":
                raise Violation("C08:no-reference:val:%s" % kn, "%s: no c:val/c:numRef" % what0)
            sh, r1, c1, rows, cols = check_ref(val, what0 + " c:val")
            if rows != len(vals):
                raise Violation("C08:cell-vs-input:val:%s:shape" % kn,
                                "%s: values reference %r has %d rows, %d values supplied"
                                % (what0, val.f, rows, len(vals)))
            for i, v in enumerate(vals):
                cell_vs_input(sh, r1 + i, c1, v, "val", what0 + " value[%d]" % i)
        else:
            pts = sdata[1]
            for j, role in enumerate(("xVal", "yVal", "bubbleSize") if kind == "bubble" else ("xVal", "yVal")):
                ref = refs.get(role)
                if ref is None or ref.flavor != "num":
                    raise Violation("C08:no-reference:%s:%s" % (role, kn), "%s: no c:%s/c:numRef" % (what0, role))
                sh, r1, c1, rows, cols = check_ref(ref, what0 + " c:" + role)
                if rows != len(pts):
                    raise Violation("C08:cell-vs-input:%s:%s:shape" % (role, kn),
                                    "%s: %s reference %r has %d rows, %d points supplied"
                                    % (what0, role, ref.f, rows, len(pts)))
                for i, p in enumerate(pts):
                    cell_vs_input(sh, r1 + i, c1, p[j], role, what0 + " %s[%d]" % (role, i))
    return {"date1904": date1904, "wb1904": wb.date1904, "max_col": stats["max_col"], "n_ser": len(sers)}


def _short(x):
    s = repr(x)
    return s if len(s) <= 90 else s[:90] + "..."


# ================================================================================== observation

def observe_memory(chart, step):
    """(chart xml bytes, workbook bytes | None) from the live chart part, resolving c:externalData ourselves."""
    part = chart.part
    xml = part.blob
    root = etree.fromstring(xml, _PLAIN)
    ext = root.findall(C + "externalData")
    if len(ext) != 1:
        if not ext:
            return xml, None
        raise Violation("C08:externalData-count:%s" % step, "%d c:externalData elements" % len(ext))
    rid = ext[0].get("{%s}id" % NS_R)
    rels = part.rels
    if rid not in rels:
        raise Violation("C08:externalData-dangling:%s" % step, "c:externalData r:id=%r is not a relationship of the "
                        "chart part" % rid)
    rel = rels[rid]
    if rel.is_external:
        return xml, None
    return xml, rel.target_part.blob


def observe_saved(pptx_bytes, slide_idx, chart_no):
    """Same, from the saved file through vlib.opcmodel only. -> (xml, xlsx | None, chart partname)"""
    from vlib import opcmodel as O

    pkg = O.Pkg.read(pptx_bytes)
    if pkg.dups:
        # two parts saved under one name: which workbook the chart's relationship reaches is then undefined
        raise Violation("C08:saved-package:duplicate-member:%s" % pkg.dups[0].split("/")[2],
                        "the saved package holds duplicate member names %s" % pkg.dups[:3])
    main = [r for r in pkg.rels("/") if r.type == O.RT_OFFICE_DOCUMENT][0].resolved
    prs = etree.fromstring(pkg.members[main], _PLAIN)
    prels = dict((r.id, r) for r in pkg.rels(main))
    ids = [e.get("{%s}id" % NS_R) for e in prs.find("{%s}sldIdLst" % NS_P)]
    slide = prels[ids[slide_idx]].resolved
    srels = dict((r.id, r) for r in pkg.rels(slide))
    sroot = etree.fromstring(pkg.members[slide], _PLAIN)
    # top-level graphic frames only (what slide.shapes iterates), in document order
    P = "{%s}" % NS_P
    tree = sroot.find(P + "cSld/" + P + "spTree")
    charts = []
    for gf in tree.findall(P + "graphicFrame"):
        cs = list(gf.iter(C + "chart"))
        if cs:
            charts.append(cs[0].get("{%s}id" % NS_R))
    cname = srels[charts[chart_no]].resolved
    xml = pkg.members[cname]
    croot = etree.fromstring(xml, _PLAIN)
    ext = croot.findall(C + "externalData")
    if len(ext) != 1:
        if not ext:
            return xml, None, cname
        raise Violation("C08:externalData-count:saved", "%d c:externalData elements" % len(ext))
    crels = dict((r.id, r) for r in pkg.rels(cname))
    rid = ext[0].get("{%s}id" % NS_R)
    if rid not in crels or crels[rid].mode != "Internal" or crels[rid].resolved not in pkg.members:
        raise Violation("C08:externalData-dangling:saved", "c:externalData r:id=%r does not resolve to a member of the "
                        "saved package" % rid)
    return xml, pkg.members[crels[rid].resolved], cname


def rewrite_start_state(pptx_bytes, slide_idx, chart_no, date1904, noext):
    """Return the saved deck with the chart part modified as if authored elsewhere."""
    from vlib import opcmodel as O

    _xml, _wb, cname = observe_saved(pptx_bytes, slide_idx, chart_no)
    pkg = O.Pkg.read(pptx_bytes)
    if pkg.dups:
        # two parts saved under one name: which workbook the chart's relationship reaches is then undefined
        raise Violation("C08:saved-package:duplicate-member:%s" % pkg.dups[0].split("/")[2],
                        "the saved package holds duplicate member names %s" % pkg.dups[:3])
    root = etree.fromstring(pkg.members[cname], _PLAIN)
    if date1904:
        d = root.find(C + "date1904")
        if d is None:
            d = etree.Element(C + "date1904")
            root.insert(0, d)
        d.set("val", "1")
    if noext:
        rn = O.rels_name(cname)
        rroot = etree.fromstring(pkg.members[rn], _PLAIN)
        for e in root.findall(C + "externalData"):
            rid = e.get("{%s}id" % NS_R)
            root.remove(e)
            for r in list(rroot):
                if isinstance(r.tag, str) and r.get("Id") == rid:
                    target = O.resolve(O.dirname(cname), r.get("Target"))
                    rroot.remove(r)
                    if target in pkg.members:
                        pkg.del_member(target)
        pkg.set_member(rn, etree.tostring(rroot, xml_declaration=True, encoding="UTF-8", standalone=True))
    pkg.set_member(cname, etree.tostring(root, xml_declaration=True, encoding="UTF-8", standalone=True))
    return pkg.to_bytes()


# ================================================================================== case execution

def _find_chart(prs, slide_idx, chart_no):
    n = -1
    for sh in prs.slides[slide_idx].shapes:
        if getattr(sh, "has_chart", False) and sh.has_chart:
            n += 1
            if n == chart_no:
                return sh.chart
    raise core.HarnessError("chart %d on slide %d not found" % (chart_no, slide_idx))


_CORPUS = {}


def corpus_table():
    """{kind: [[deck, slide_idx, chart_no], ...]} of corpus charts with >= 1 series (deterministic order)."""
    if _CORPUS:
        return _CORPUS
    from pptx import Presentation
    from vlib import corpus

    tab = {"cat": [], "xy": [], "bubble": []}
    for rel in corpus.corpus_decks():
        try:
            with zipfile.ZipFile(corpus.path(rel)) as z:
                if not any(n.startswith("ppt/charts/chart") for n in z.namelist()):
                    continue
        except zipfile.BadZipFile:
            continue
        prs = Presentation(corpus.path(rel))
        for si, sl in enumerate(prs.slides):
            n = -1
            for sh in sl.shapes:
                if getattr(sh, "has_chart", False) and sh.has_chart:
                    n += 1
                    root = etree.fromstring(sh.chart.part.blob, _PLAIN)
                    if not list(root.iter(C + "ser")):
                        continue
                    if list(root.iter(C + "bubbleChart")):
                        k = "bubble"
                    elif list(root.iter(C + "scatterChart")):
                        k = "xy"
                    else:
                        k = "cat"
                    tab[k].append([rel, si, n])
    _CORPUS.update(tab)
    return _CORPUS


def shape_of(case, i, info):
    """data-shape tuple of state i (for distinctness) and the non-trivial verdict + classes"""
    kind = case["kind"]
    d = case["datas"][i]
    classes = []
    nt = False
    if kind == "cat":
        series = S.cat_series_list(d)
        depth, leaves, cells = S.flatten_cats(d)
        labels = list(cells.values())
        names = [s[0] for s in series]
        lens = [len(s[1]) for s in series]
        nones = [[j for j, v in enumerate(s[1]) if v is None] for s in series[:40]]
        first = cells[(0, depth - 1)] if depth == 1 else ""
        lclass = ("datetime" if isinstance(first, dt.datetime) else "date" if isinstance(first, dt.date)
                  else "num" if isinstance(first, (int, float)) else "str")
        classes.append("cat:depth=%d" % depth)
        classes.append("cat:labels=%s" % lclass)
        ns = len(series)
        classes.append("cat:series=" + ("0" if ns == 0 else "1-23" if ns < 24 else "24-28" if ns <= 28 else
                                        "29-49" if ns < 50 else "50-56" if ns <= 56 else "57-699" if ns < 700
                                        else ">=700"))
        if depth >= 2:
            nt = True
        if lclass in ("date", "datetime"):
            nt = True
            if any(isinstance(x, dt.datetime) and day_fraction(x) > 0 for x in labels):
                classes.append("cat:datetime-with-time")
        if any(ln != leaves for ln in lens):
            classes.append("cat:series-length!=leaf-count")
        shape = ["cat", depth, leaves, lclass, lens if ns <= 40 else [ns, lens[0], lens[-1]], nones,
                 [_sclass(x) for x in labels[:60]], [_sclass(x) for x in names[:8] + names[-8:]]]
        strings = [x for x in labels + names if isinstance(x, str)]
        has_none = any(nones)
    else:
        series = S.xy_series_list(d, kind == "bubble")
        names = [s[0] for s in series]
        lens = [len(s[1]) for s in series]
        nones = [[(j, c) for j, p in enumerate(s[1]) for c, v in enumerate(p) if v is None] for s in series]
        classes.append("%s:series=%s" % (kind, "0" if not series else "1" if len(series) == 1 else
                                         "2-4" if len(series) <= 4 else ">=5"))
        if len(set(lens)) > 1:
            nt = True
            classes.append("%s:unequal-lengths" % kind)
        if 0 in lens and len(lens) > 1:
            classes.append("%s:empty-series-among-others" % kind)
        shape = [kind, lens, nones, [_sclass(x) for x in names]]
        strings = [x for x in names if isinstance(x, str)]
        has_none = any(nones)
    if has_none:
        nt = True
        classes.append("value:None")
    if any(S._is_formula_like(x) for x in strings):
        nt = True
        classes.append("string:formula-like")
    if any(S._is_url_like(x) for x in strings):
        nt = True
        classes.append("string:url-like")
    if any(len(x) > 255 for x in strings):
        classes.append("string:>255")
    if any(x == "" for x in strings) or any(n is None for n in names):
        classes.append("string:empty-or-None")
    if info.get("max_col", 0) >= 27:
        nt = True
        classes.append("column>=AA")
    if info.get("max_col", 0) >= 703:
        classes.append("column>=AAA")
    if info.get("date1904"):
        nt = True
        classes.append("chart:date1904")
    return shape, nt, classes


def _sclass(x):
    if x is None:
        return "None"
    if isinstance(x, str):
        if S._is_formula_like(x):
            return "formula"
        if S._is_url_like(x):
            return "url"
        if x == "":
            return "empty"
        if len(x) > 255:
            return "long"
        if x.strip() != x:
            return "ws"
        try:
            float(x)
            return "numlike"
        except ValueError:
            return "s"
    if isinstance(x, dt.datetime):
        return "dt+t" if day_fraction(x) > 0 else "dt"
    if isinstance(x, dt.date):
        return "d"
    return "n"


def run_case(case, rec=None, known=None):
    """Execute one case; raises Violation."""
    from pptx import Presentation
    from pptx.enum.chart import XL_CHART_TYPE
    from pptx.util import Inches
    from vlib import corpus

    kind = case["kind"]
    start = case["start"]
    mods = case.get("mods") or {}
    datas = case["datas"]
    di = 0

    def note(i, step, info):
        if rec is None:
            return
        shape, nt, classes = shape_of(case, i, info)
        classes = list(classes) + ["step:" + step, "start:" + (start if isinstance(start, str) else "corpus")]
        if step != "add":
            classes += ["mod:" + k for k in ("date1904", "noext", "reopen", "ole_first") if mods.get(k)]
            if mods.get("noext") and i == di:
                classes.append("replace:creates-new-workbook-part")
        h = core.case_hash([shape, step, bool(info.get("date1904")), case["type"] if step == "add" else kind])
        if nt and h not in rec.nt and len(rec.samples) < rec.MAX_SAMPLES:
            rec.samples.append(core._clip(core.to_jsonable({"step": step, "shape": shape, "type": case["type"]})))
        rec.note(h, nt, classes=classes)

    # ------------------------------------------------------------ start state
    if isinstance(start, list):
        _c, deck, slide_idx, chart_no = start
        prs = Presentation(corpus.path(deck))
        chart = _find_chart(prs, slide_idx, chart_no)
        generated = False
    else:
        ctype = getattr(XL_CHART_TYPE, case["type"])
        with core.sut("C08:build-chart-data:%s" % _kindname(kind)):
            cd = S.build_chart_data(kind, datas[0])
        if start == "placeholder":
            prs = Presentation(corpus.path(PLACEHOLDER_DECK))
            slide_idx, chart_no = PLACEHOLDER_SLIDE, 0
            ph = prs.slides[slide_idx].shapes[0]
            with core.sut("C08:chart-from-data:%s" % _kindname(kind)):
                chart = ph.insert_chart(ctype, cd).chart
        else:
            prs = Presentation()
            slide = prs.slides.add_slide(prs.slide_layouts[6])
            slide_idx, chart_no = 0, 0
            if mods.get("ole_first"):
                from pptx.enum.shapes import PROG_ID
                other = prs.slides.add_slide(prs.slide_layouts[6])
                with core.sut("C08:add_ole_object"):
                    other.shapes.add_ole_object(corpus.path("features/steps/test_files/shp-embedded-xlsx.xlsx"),
                                                PROG_ID.XLSX, Inches(1), Inches(1))
            with core.sut("C08:chart-from-data:%s" % _kindname(kind)):
                chart = slide.shapes.add_chart(ctype, Inches(1), Inches(1), Inches(6), Inches(4), cd).chart
        xml, xlsx = observe_memory(chart, "add")
        info = check_state(xml, xlsx, kind, datas[0], {"step": "add", "generated": True}, rec, known)
        note(0, "add", info)
        di = 1
        generated = True

    # ------------------------------------------------------------ the same chart-data object reused after growing
    if generated and kind != "cat" and case.get("grow"):
        import copy as _copy
        cur = _copy.deepcopy(datas[0])
        for gi, (si, k) in enumerate(case["grow"]):
            if not cur["series"]:
                break
            si = si % len(cur["series"])
            with core.sut("C08:grow-chart-data:%s" % _kindname(kind)):
                ser = cd[si]
                for j in range(k):
                    p = [1000.0 * (gi + 1) + j, -(7.5 + j)] + ([j + 2] if kind == "bubble" else [])
                    ser.add_data_point(*p)
                    cur["series"][si][1].append(p)
            # generated tail points (`extra`) come after the explicit ones in the description: keep order by
            # moving them into the explicit list first
            with core.sut("C08:chart-from-data:%s" % _kindname(kind)):
                chart.replace_data(cd)
            xml, xlsx = observe_memory(chart, "replace")
            info = check_state(xml, xlsx, kind, cur, {"step": "replace", "generated": True}, rec, known)
            if rec is not None:
                rec.cls("reuse:same-chart-data-object-grown", "reuse:grow-by-%d" % k)
        datas = [cur] + list(datas[1:])

    # ------------------------------------------------------------ start-state modifications on the saved file
    if mods.get("reopen") or mods.get("date1904") or mods.get("noext"):
        buf = io.BytesIO()
        with core.sut("C08:save"):
            prs.save(buf)
        blob = buf.getvalue()
        if mods.get("date1904") or mods.get("noext"):
            blob = rewrite_start_state(blob, slide_idx, chart_no, mods.get("date1904"), mods.get("noext"))
        with core.sut("C08:re-open"):
            prs = Presentation(io.BytesIO(blob))
        chart = _find_chart(prs, slide_idx, chart_no)

    # ------------------------------------------------------------ replace_data steps
    last = di - 1
    for i in range(di, len(datas)):
        with core.sut("C08:build-chart-data:%s" % _kindname(kind)):
            cd = S.build_chart_data(kind, datas[i])
        with core.sut("C08:chart-from-data:%s" % _kindname(kind)):
            chart.replace_data(cd)
        xml, xlsx = observe_memory(chart, "replace")
        info = check_state(xml, xlsx, kind, datas[i], {"step": "replace", "generated": generated}, rec, known)
        note(i, "replace", info)
        last = i

    # ------------------------------------------------------------ final state from the saved file
    if last >= 0:
        buf = io.BytesIO()
        with core.sut("C08:save"):
            prs.save(buf)
        xml, xlsx, _n = observe_saved(buf.getvalue(), slide_idx, chart_no)
        info = check_state(xml, xlsx, kind, datas[last], {"step": "saved", "generated": generated}, rec, known)
        note(last, "saved", info)


def _flush_inexact(rec):
    if _INEXACT[0]:
        rec.extra["num_inexact_matches"] = rec.extra.get("num_inexact_matches", 0) + _INEXACT[0]
        _INEXACT[0] = 0


# ================================================================================== column references

def check_colref(n):
    from pptx.chart.xlsx import CategoryWorkbookWriter

    with core.sut("C08:_column_reference"):
        got = CategoryWorkbookWriter._column_reference(n)
    exp = X.num_to_col(n)
    if got != exp:
        raise Violation("C08:column-reference:value", "_column_reference(%d) = %r, bijective base 26 gives %r"
                        % (n, got, exp))
    try:
        back = X.col_to_num(got)
    except ValueError:
        back = None
    if back != n:
        raise Violation("C08:column-reference:inverse", "_column_reference(%d) = %r reads back as column %r"
                        % (n, got, back))


def check_colref_reject(n):
    from pptx.chart.xlsx import CategoryWorkbookWriter

    try:
        got = CategoryWorkbookWriter._column_reference(n)
    except ValueError:
        return
    raise Violation("C08:column-reference:out-of-range-accepted", "_column_reference(%d) returned %r (documented "
                    "range 1..16384, ValueError otherwise)" % (n, got))


# ================================================================================== grid

def _grid_tree(depth, leaves_hint):
    """a small deterministic category tree with >= leaves_hint leaves at `depth`"""
    if depth == 1:
        return ["c%d" % i for i in range(leaves_hint)]

    counter = [0]

    def sub(d):
        if d == 1:
            counter[0] += 1
            return ["L%d" % counter[0], "M%d" % counter[0]][: 1 + counter[0] % 2]
        counter[0] += 1
        return [["G%d_%d" % (d, counter[0]), sub(d - 1)], ["H%d_%d" % (d, counter[0]), sub(d - 1)]]

    return sub(depth)


def grid_cases(tier):
    counts = S.BOUNDARY_COUNTS
    out = []
    types = S.CAT_TYPES
    k = 0
    for npts in (1, 2, 3):
        for depth in (1, 2, 3, 4):
            for ci, n in enumerate(counts):     # count varies fastest: 19 is coprime with the shard stride
                big = n >= 700
                if big and tier != "thorough" and (npts + depth + ci) % 6 != 0:
                    continue      # quick: 2 of the 12 (npts, depth) combinations per 700-class count
                nxt = counts[(ci + 1) % len(counts)]
                d0 = {"depth": depth, "cats": _grid_tree(depth, npts), "bulk": n, "npts": npts, "series": [],
                      "explicit_first": False, "catfmt": None}
                d1 = {"depth": depth, "cats": _grid_tree(depth, npts + 1), "bulk": nxt, "npts": npts,
                      "series": [["tail", [7] * npts, None]], "explicit_first": False, "catfmt": None}
                datas = [d0, d1] if n >= 1 else [d0]
                out.append({"kind": "cat", "type": types[k % len(types)], "start": "new",
                            "mods": {"date1904": False, "noext": False, "reopen": (k % 5 == 0) and n >= 1},
                            "datas": datas})
                k += 1
    return out


def corpus_cases():
    tab = corpus_table()
    out = []
    cat_a = {"depth": 2, "cats": [["g1", ["a", "b"]], ["g2", ["c"]]], "bulk": 26, "npts": 3,
             "series": [["last", [1.5, None, -3], None]], "explicit_first": False, "catfmt": None}
    cat_b = {"depth": 1, "cats": [dt.date(2020, 1, 31), dt.date(1900, 2, 28), dt.date(1900, 3, 1)], "bulk": 1,
             "npts": 3, "series": [], "explicit_first": False, "catfmt": None}
    xy_a = {"series": [["A", [[1, 2], [None, 3]], 0, None], ["B", [], 0, None], ["C", [[5, 6]], 3, "0.0"]]}
    xy_b = {"series": [["only", [], 2, None]]}
    bu_a = {"series": [["A", [[1, 2, 3], [None, 3, 1]], 0, None], ["B", [], 0, None], ["C", [[5, 6, None]], 3, None]]}
    bu_b = {"series": [["only", [], 2, None]]}
    for kind, (a, b) in (("cat", (cat_a, cat_b)), ("xy", (xy_a, xy_b)), ("bubble", (bu_a, bu_b))):
        for deck, si, n in tab[kind]:
            for j, datas in enumerate(([a, b], [b, a])):
                out.append({"kind": kind, "type": "-", "start": ["corpus", deck, si, n],
                            "mods": {"date1904": False, "noext": False, "reopen": j == 1}, "datas": datas})
    return out


# ================================================================================== jobs

NGRID = 16
NCORPUS = 4


def jobs(tier):
    js = [{"kind": "colref"}]
    for i in range(NGRID):
        js.append({"kind": "grid", "shard": i})
    for i in range(NCORPUS):
        js.append({"kind": "corpus", "shard": i})
    n = 600 if tier == "thorough" else 120
    for i in range(48 if tier == "thorough" else 16):
        big = i % 4 == 0
        js.append({"kind": "hyp", "shard": i, "n": (n * 2) // 5 if big else n, "big": big})
    for i in range(8):
        js.append({"kind": "reuse", "shard": i, "n": 150 if tier == "thorough" else 25})
    return js


def run_job(job, seed, tier, rec, known):
    k = job["kind"]
    try:
        if k == "colref":
            f = run_plain(check_colref, range(1, 16385), rec=rec, known=known)
            for x in f:
                x["case"] = ["colref", x["case"]]
            f2 = run_plain(check_colref_reject, [0, -1, 16385, 16386, 2 ** 31], rec=rec, known=known)
            for x in f2:
                x["case"] = ["colref-reject", x["case"]]
            rec.note_enum(16384 + 5, 16384 - 26 + 5, sample=["colref", 703])
            rec.cls("colref:exhaustive-1..16384")
            return f + f2
        if k in ("grid", "corpus"):
            allc = grid_cases(tier) if k == "grid" else corpus_cases()
            # deal the cases out heaviest first so the 700-class ones spread evenly over the shards
            allc = sorted(allc, key=lambda c: -sum(d.get("bulk", 0) for d in c["datas"]))
            mine = allc[job["shard"]::(NGRID if k == "grid" else NCORPUS)][::-1]
            f = run_plain(lambda c: run_case(c, rec, known), mine, rec=rec, known=known)
            for x in f:
                x["case"] = ["case", x["case"]]
            return f
        if k == "reuse":
            from hypothesis import strategies as st
            kind = ["xy", "bubble"][job["shard"] % 2]
            types = {"xy": ["XY_SCATTER", "XY_SCATTER_LINES", "XY_SCATTER_SMOOTH_NO_MARKERS"],
                     "bubble": ["BUBBLE", "BUBBLE_THREE_D_EFFECT"]}[kind]

            @st.composite
            def reuse_cases(draw):
                d = draw(S.xy_data(bubble=(kind == "bubble"), min_series=2, calm=True))
                # explicit points only (extra = 0) so appended points are the tail of the series
                for srs in d["series"]:
                    srs[2] = 0
                grow = draw(st.lists(st.tuples(st.integers(0, 5), st.sampled_from([1, 2, 2, 3, 5])), min_size=1, max_size=3))
                return {"kind": kind, "type": draw(st.sampled_from(types)), "start": "new", "mods": {},
                        "datas": [d], "grow": [list(g) for g in grow]}

            f = hyp_search(lambda c: run_case(c, rec, known), reuse_cases(), seed=seed, max_examples=job["n"], rec=rec,
                           known=known, shrink_budget=60)
            for x in f:
                x["case"] = ["case", x["case"]]
            return f
        if k == "hyp":
            strat = S.cases(corpus_table(), big=job.get("big", False))
            f = hyp_search(lambda c: run_case(c, rec, known), strat, seed=seed, max_examples=job["n"], rec=rec,
                           known=known, shrink_budget=120)
            for x in f:
                x["case"] = ["case", x["case"]]
            return f
        raise ValueError(k)
    finally:
        _flush_inexact(rec)


def replay(case):
    kind = case[0]
    if kind == "colref":
        return collect(check_colref, case[1])
    if kind == "colref-reject":
        return collect(check_colref_reject, case[1])
    if kind == "case":
        return collect(lambda c: run_case(c, None), case[1])
    raise ValueError(kind)
