"""C06 — shape ids, slide ids, relationship ids and part names are unique and stable.

Generator: add-heavy deckops histories (every shape kind, nested groups, placeholders inserts, charts, movies,
OLE, notes, hyperlinks, turbo toggles, saves, re-opens) over start decks whose id populations were rewritten
(gaps, ids up to 2^31, duplicates, non-numeric @id, slide ids at the upper bound / with gaps, renamed parts).
Oracle: id sets per slide-like part before/after each op, reference->target maps, zip member names.
"""
import io
import re

from lxml import etree

from vlib.core import Violation, hyp_search, collect, sut
from vlib import deckops as D
from vlib import opcmodel as O
from checks.c02 import make_start

PROPERTY = "C06"
LEVEL = "exploration"
RULE = ("add-heavy histories of 6-25 ops (thorough 6-60) on decks whose ids were rewritten by a generated mutation list "
        "(shape id gaps / 2^31-1 / duplicates / non-numeric, slide ids at 2147483647 / gaps / out-of-order, parts "
        "renamed with gaps). Non-trivial: the start deck has a non-trivial id population, or the history mixes both "
        "shape-id allocators (group/freeform with other kinds, turbo mode), or adds inside a nested group. Distinct by "
        "hash of (start, mutations, ops).")
ASSUMPTIONS = [
    "the p:cNvPr id=\"0\" of the picture nested inside p:oleObj is not an API-visible shape and is excluded",
    "uniqueness is required of ids python-pptx assigns (among themselves and against pre-existing ones); pre-existing duplicates stay",
    "p:cTn/@id live in a different id space",
]

NS_P = "http://schemas.openxmlformats.org/presentationml/2006/main"
NS_R = O.NS_R
P = "{%s}" % NS_P
MAX_SLIDE_ID = 2147483647


# ------------------------------------------------------------------ start-deck id mutations

def mutate_ids(data, muts):
    """rewrite ids in the saved deck bytes (plain lxml)"""
    pkg = O.Pkg.read(data)
    slides = sorted(n for n in pkg.members if re.match(r"^/ppt/slides/slide\d+\.xml$", n))
    pres = "/ppt/presentation.xml"
    for m in muts:
        kind = m[0]
        if kind in ("shape_big", "shape_dup", "shape_nonnum", "shape_gap", "shape_zero"):
            if not slides:
                continue
            name = slides[m[1] % len(slides)]
            root = etree.fromstring(pkg.members[name])
            els = [e for e in root.iter(P + "cNvPr")][1:]  # skip the spTree's own
            if not els:
                continue
            e = els[m[2] % len(els)]
            if kind == "shape_big":
                e.set("id", str([2 ** 31 - 1, 2 ** 31 - 2, 65535, 2 ** 31 - 100][m[3] % 4]))
            elif kind == "shape_dup":
                e.set("id", els[(m[2] + 1) % len(els)].get("id"))
            elif kind == "shape_nonnum":
                e.set("id", ["abc", "", "12a", "-5"][m[3] % 4])
            elif kind == "shape_zero":
                e.set("id", "0")
            else:
                e.set("id", str(int(e.get("id") or 1) + 100 + m[3]) if (e.get("id") or "").isdigit() else "777")
            pkg.set_member(name, etree.tostring(root, xml_declaration=True, encoding="UTF-8", standalone=True))
        elif kind in ("slide_max", "slide_gap", "slide_desc"):
            root = etree.fromstring(pkg.members[pres])
            lst = root.find(P + "sldIdLst")
            if lst is None or not len(lst):
                continue
            ids = [e for e in lst]
            if kind == "slide_max":
                ids[m[1] % len(ids)].set("id", str(MAX_SLIDE_ID))
            elif kind == "slide_gap":
                for i, e in enumerate(ids):
                    e.set("id", str(256 + 10 * i + (m[1] % 7)))
            else:
                for i, e in enumerate(ids):
                    e.set("id", str(5000 - 3 * i))
            pkg.set_member(pres, etree.tostring(root, xml_declaration=True, encoding="UTF-8", standalone=True))
    return pkg.to_bytes()


def mut_strategy():
    from hypothesis import strategies as st
    I = st.integers(0, 9)
    one = st.one_of(
        st.tuples(st.sampled_from(["shape_big", "shape_dup", "shape_nonnum", "shape_gap", "shape_zero"]), I, I, I),
        st.tuples(st.sampled_from(["slide_max", "slide_gap", "slide_desc"]), I),
    ).map(list)
    return st.lists(one, max_size=3)


# ------------------------------------------------------------------ observation helpers

def slide_like_parts(prs):
    out = []
    for part in prs.part.package.iter_parts():
        el = getattr(part, "_element", None)
        if el is not None and el.tag in (P + "sld", P + "sldLayout", P + "sldMaster", P + "notes", P + "notesMaster"):
            out.append(part)
    return out


def shape_ids(part):
    """list of (id string, element) for API-visible shapes of a slide-like part"""
    out = []
    for e in part._element.iter(P + "cNvPr"):
        par = e.getparent()
        # the pic nested in p:oleObj is not a shape of the tree
        anc = par.getparent().getparent() if par is not None and par.getparent() is not None else None
        if anc is not None and anc.tag == P + "oleObj":
            continue
        out.append((e.get("id"), e))
    return out


def top_owner(el):
    """the shape element (child of a p:spTree / p:grpSp) that holds el, or el's root child"""
    cur = el
    while cur.getparent() is not None:
        par = cur.getparent()
        if par.tag in (P + "spTree", P + "grpSp") and cur.tag not in (P + "nvGrpSpPr", P + "grpSpPr"):
            return cur
        if par.getparent() is None:
            return cur
        cur = par
    return cur


def ref_map(part):
    """multiset: (c14n hash of owner shape, attribute, rId) -> target identity"""
    out = {}
    rels = part.rels
    pfx = "{%s}" % NS_R
    cache = {}
    for el in part._element.iter():
        if not isinstance(el.tag, str):
            continue
        for k, v in el.attrib.items():
            if k.startswith(pfx) and v:
                owner = top_owner(el)
                oid = id(owner)
                if oid not in cache:
                    cache[oid] = hash(etree.tostring(owner, method="c14n"))
                if v in rels:
                    r = rels[v]
                    tgt = ("ext", r.target_ref) if r.is_external else ("part", id(r.target_part))
                else:
                    tgt = ("missing", v)
                out.setdefault((cache[oid], k, v), []).append(tgt)
    return out


class IdHook:
    def __init__(self, prs):
        self.keep = []
        self.mixed_allocators = False
        self.nested_add = False
        self.kinds = set()
        self.turbo_parts = set()   # slide parts on which some collection has turbo mode on
        self.turbo_coll = {}       # part id -> the slide-level collection whose turbo mode was last switched on
        self.foreign_since_turbo = {}  # part id -> a shape was added through another collection since then

    def before_op(self, it, op):
        prs = it.prs
        self.pre = {}
        for part in slide_like_parts(prs):
            self.keep.append(part)
            ids = shape_ids(part)
            self.pre[id(part)] = {
                "part": part,
                "ids": [i for i, _e in ids],
                "xml": {id(e): (i, etree.tostring(top_owner(e), method="c14n")) for i, e in ids},
                "els": {id(e): e for _i, e in ids},
                "refs": ref_map(part),
            }
        pe = prs.part._element
        lst = pe.find(P + "sldIdLst")
        self.pre_sld = [(e.get("id"), e.get("{%s}id" % NS_R)) for e in lst] if lst is not None else []
        self.pre_pres_rels = {rid: (("ext", r.target_ref) if r.is_external else ("part", id(r.target_part)))
                              for rid, r in prs.part.rels.items()}

    def after_op(self, it, op, outcome, info):
        prs = it.prs
        name = op[0]
        if info.get("reopened") or name in ("save", "save_reopen", "read"):
            if name in ("save", "save_reopen"):
                pass
            return
        added = info.get("added")
        if name == "turbo" and outcome == "ok":
            sl = it.slide(op[1])
            if sl is not None:
                # only the slide's own collection (one object per slide) keeps its mode; the collection of a group is
                # a new object on every access, so a mode set on it is gone with it
                try:
                    _sl, coll, depth = it._container(op[1], op[2])
                except Exception:
                    coll, depth = None, 1
                pid = id(sl.part)
                if depth == 0 and coll is not None:
                    if op[3]:
                        # assigning True (again) makes the collection read the largest id afresh: from here on its
                        # cache is good until a shape is added through another collection of that slide
                        self.turbo_parts.add(pid)
                        self.turbo_coll[pid] = coll
                        self.foreign_since_turbo[pid] = False
                    else:
                        self.turbo_parts.discard(pid)
                        self.turbo_coll.pop(pid, None)
        elif added is not None and info.get("slide") is not None:
            pid = id(info["slide"].part)
            if pid in self.turbo_coll and info.get("container") is not self.turbo_coll[pid]:
                self.foreign_since_turbo[pid] = True
        # ---- shape ids
        for part in slide_like_parts(prs):
            pre = self.pre.get(id(part))
            ids_now = shape_ids(part)
            if pre is None:
                # part created by this op (new slide / notes slide): ids must be positive ints, pairwise distinct
                vals = [i for i, _e in ids_now]
                nums = [i for i in vals if i is not None and i.isdigit()]
                if len(nums) != len(vals) or any(int(i) < 1 for i in nums):
                    raise Violation("C06:new-part-shape-id-invalid:%s" % name, "%s: ids %s" % (part.partname, vals))
                if len(set(nums)) != len(nums):
                    raise Violation("C06:new-part-shape-id-duplicate:%s" % name, "%s: ids %s" % (part.partname, vals))
                continue
            pre_el_ids = set(pre["els"])
            new = [(i, e) for i, e in ids_now if id(e) not in pre_el_ids]
            old_numeric = {i for i in pre["ids"] if i is not None and i.isdigit()}
            seen_new = set()
            replaced_ph = info.get("replaced_ph")
            for i, e in new:
                if replaced_ph:
                    continue  # a placeholder insert keeps the placeholder's id (the old element is gone)
                if i is None or not i.isdigit() or int(i) < 1:
                    raise Violation("C06:new-shape-id-invalid:%s" % name, "%s on %s assigned id %r" % (op, part.partname, i))
                if i in old_numeric:
                    # turbo mode caches the max id per collection object; ids assigned through another
                    # collection of the same slide (a group's .shapes) are invisible to it
                    stale_ok = id(part) in self.turbo_parts and self.foreign_since_turbo.get(id(part), True)
                    why = "turbo-cache-stale" if stale_ok else _kind(info, name)
                    raise Violation("C06:new-shape-id-collides:%s" % why,
                                    "%s on %s assigned id %s, already used in that part (ids before: %s)"
                                    % (op, part.partname, i, sorted(old_numeric, key=int)[-8:]))
                if i in seen_new:
                    raise Violation("C06:new-shape-id-duplicate:%s" % _kind(info, name),
                                    "%s on %s assigned id %s twice" % (op, part.partname, i))
                seen_new.add(i)
            # ids of pre-existing shapes unchanged; for additions also their XML (unless they enclose the new one)
            now_by_el = {id(e): i for i, e in ids_now}
            for eid, (i, xml) in pre["xml"].items():
                if eid not in now_by_el:
                    continue  # element removed (placeholder replaced, members regrouped keep identity anyway)
                if now_by_el[eid] != i:
                    raise Violation("C06:existing-shape-id-changed:%s" % name, "%s changed id %r -> %r" % (op, i, now_by_el[eid]))
            if added is not None and name.startswith("add_") and not info.get("regrouped"):
                new_els = {id(e) for _i, e in new}
                for eid, (i, xml) in pre["xml"].items():
                    e = pre["els"][eid]
                    if eid not in now_by_el:
                        continue
                    owner = top_owner(e)
                    if any(id(d) in new_els for d in owner.iter(P + "cNvPr")):
                        continue  # a group that received the new shape (extents recalculated)
                    if _encloses_new(owner, new_els):
                        continue
                    if etree.tostring(owner, method="c14n") != xml:
                        raise Violation("C06:existing-shape-changed-by-add:%s" % _kind(info, name),
                                        "%s altered the pre-existing shape with id %s" % (op, i))
            # references under untouched owners keep their targets
            now_refs = ref_map(part)
            # shapes the op itself addressed may legitimately get a dropped-and-reused rId with a new target
            touched = set()
            for sh in info.get("targets", []) or ([info["target"]] if info.get("target") is not None else []):
                el = getattr(sh, "_element", None)
                if el is not None:
                    touched.add(hash(etree.tostring(top_owner(el), method="c14n")))
            for key, tg in pre["refs"].items():
                if key[0] in touched:
                    continue
                if key in now_refs and sorted(now_refs[key]) != sorted(tg) and len(now_refs[key]) == len(tg):
                    raise Violation("C06:rid-retargeted:%s" % name,
                                    "%s: reference %s=%s under an unchanged shape of %s now resolves elsewhere"
                                    % (op, key[1].split("}")[1], key[2], part.partname))
        # ---- slide ids
        pe = prs.part._element
        lst = pe.find(P + "sldIdLst")
        now = [(e.get("id"), e.get("{%s}id" % NS_R)) for e in lst] if lst is not None else []
        if now[: len(self.pre_sld)] != self.pre_sld:
            raise Violation("C06:slide-ids-changed:%s" % name, "sldIdLst was %s, now %s" % (self.pre_sld, now))
        old_ids = {i for i, _r in self.pre_sld}
        for i, _r in now[len(self.pre_sld):]:
            if i is None or not i.isdigit() or not (256 <= int(i) <= MAX_SLIDE_ID):
                raise Violation("C06:new-slide-id-out-of-range", "%s assigned slide id %r" % (op, i))
            if i in old_ids:
                raise Violation("C06:new-slide-id-collides", "%s assigned slide id %s already in use %s" % (op, i, sorted(old_ids)))
            old_ids.add(i)
        # presentation-part relationships that existed keep their targets
        for rid, tgt in self.pre_pres_rels.items():
            r = prs.part.rels.get(rid) if hasattr(prs.part.rels, "get") else None
            if r is None:
                continue
            t2 = ("ext", r.target_ref) if r.is_external else ("part", id(r.target_part))
            if t2 != tgt and any(rid == x[1] for x in now):
                raise Violation("C06:presentation-rid-retargeted:%s" % name, "%s: %s now targets a different part" % (op, rid))
        # ---- in-memory part names pairwise distinct
        names = [str(p.partname) for p in prs.part.package.iter_parts()]
        if len(set(names)) != len(names):
            dup = sorted({n for n in names if names.count(n) > 1})
            raise Violation("C06:partname-duplicate:%s" % dup[0].split("/")[2], "%s: duplicate part names %s" % (op, dup[:3]))
        # bookkeeping for the non-triviality rule
        k = info.get("kind")
        if k:
            self.kinds.add(k)
            if info.get("depth", 0) >= 1:
                self.nested_add = True
        if ({"grp", "freeform"} & self.kinds) and (self.kinds - {"grp", "freeform"}):
            self.mixed_allocators = True

    def at_save(self, it, data):
        pkg = O.Pkg.read(data)
        if pkg.dups:
            raise Violation("C06:zip-member-duplicate", "duplicate members %s" % pkg.dups[:3])
        reach, relmap, _d = pkg.reachable()
        for src, rs in relmap.items():
            ids = [r.id for r in rs]
            if len(set(ids)) != len(ids):
                raise Violation("C06:relationship-id-duplicate", "%s has duplicate relationship ids %s" % (src, sorted(ids)))
        # slide parts are slide1..n in presentation order (the interpreter touches prs.slides before every op)
        if not it.slides_accessed:
            return
        from checks.c16 import slide_parts
        sp = slide_parts(pkg)
        want = ["/ppt/slides/slide%d.xml" % (i + 1) for i in range(len(sp))]
        if sp != want:
            raise Violation("C06:slide-partnames-not-sequential", "slides in presentation order are %s" % sp)


def _kind(info, name):
    return info.get("kind") or name


def _encloses_new(owner, new_els):
    return False


def run_case(case, rec=None):
    from pptx import Presentation
    start, muts, ops = case["start"], case["muts"], case["ops"]
    with sut("C06:open"):
        prs, data = make_start(start)
    if muts:
        if data is None:
            buf = io.BytesIO()
            prs.save(buf)
            data = buf.getvalue()
        data = mutate_ids(data, muts)
        with sut("C06:open-mutated"):
            prs = Presentation(io.BytesIO(data))
    hook = IdHook(prs)
    it = D.Interp(prs, [hook], crash="continue", prefix="C06")
    it.run(ops)
    it.step(["save"])
    if rec is not None:
        nt = bool(muts) or bool(start[2]) or hook.mixed_allocators or hook.nested_add
        cls = ["start:%s%s" % (start[0], "+renamed" if start[2] else "")]
        cls += ["mut:" + m[0] for m in muts]
        cls += ["op:" + k for k in it.counts]
        if hook.mixed_allocators:
            cls.append("mixed-allocators")
        if hook.nested_add:
            cls.append("nested-add")
        rec.note(case, nt, classes=cls)


WEIGHTS = {"add_slide": 5, "add_shape": 6, "add_textbox": 4, "add_connector": 3, "add_picture": 4, "add_group": 6,
           "add_freeform": 5, "add_table": 2, "add_chart": 3, "add_movie": 2, "add_ole": 2, "ph_insert": 3, "turbo": 4,
           "notes": 3, "hyperlink": 2, "link_burst": 2, "run_hyperlink": 1, "target_slide": 2, "fmt": 1, "chart_fmt": 0,
           "table_op": 0, "set_text": 1, "para_op": 0, "core_prop": 0, "slide_prop": 0, "read": 1, "bad_call": 1,
           "remove_layout": 1, "replace_data": 1, "save": 2, "save_reopen": 2}


def jobs(tier):
    from vlib.corpus import corpus_decks
    decks = corpus_decks()
    return [{"shard": i, "n": 500 if tier == "thorough" else 90, "max_ops": 60 if tier == "thorough" else 25,
             "decks": decks[i::16] if tier == "thorough" else decks[i::16][:1]} for i in range(16)]


def run_job(job, seed, tier, rec, known):
    from hypothesis import strategies as st
    ops = D.ops_strategy(job["max_ops"], WEIGHTS, min_ops=6)
    starts = [["bare", None, None], ["rich", None, None], ["rich", None, None], ["rich", None, "gap"], ["rich", None, "arrays"],
              ["rich", None, "rotate"], ["rich", None, "reverse"], ["rich", None, "shift1"], ["many", None, None]]
    for d in job["decks"]:
        starts += [["corpus", d, None], ["corpus", d, "arrays"], ["corpus", d, "rotate"]]
    strat = st.builds(lambda s, m, o: {"start": s, "muts": m, "ops": o}, st.sampled_from(starts), mut_strategy(), ops)
    return hyp_search(lambda c: run_case(c, rec), strat, seed=seed, max_examples=job["n"], rec=rec, known=known,
                      shrink_budget=150)


def replay(case):
    return collect(run_case, case)
