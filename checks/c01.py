"""C01 — open + save preserves every reachable part and relationship.

Generator: synthetic OPC packages (Hypothesis) built by an independent builder, in zip-path, stream and
directory form; plus every corpus deck. Oracle: independent OPC reader (vlib.opcmodel) on input and output.
"""
import io
import os
import shutil
import tempfile

from vlib.core import Violation, hyp_search, run_plain, collect, sut, REPO
from vlib import opcmodel as O
from vlib.corpus import corpus_decks, dir_packages

PROPERTY = "C01"
LEVEL = "exploration"
RULE = ("synthetic packages: 1-12 parts with names over a segment alphabet (plain, digit-suffixed, dotted, "
        "multi-extension, extension-less, upper-case, %20, bracketed) at depth 0-4, random relationship "
        "multigraph (cycles, self-loops, shared targets, parallel relationships, external links), target "
        "spelling relative / './' / 'x/../' / '../'-to-root / root-absolute, ids rIdN with gaps and non-rId "
        "ids, content types by Default or Override with extension/type conflicts and upper-case extensions, "
        "binary and XML payloads, unreachable extra members, explicitly empty .rels items; each in zip-path, "
        "stream or directory form; plus every corpus deck in all three forms. Non-trivial: graph has a "
        "cycle, a shared target, parallel relationships, an extension/type conflict, a non-relative "
        "spelling or an external relationship (corpus decks always count). Distinct by hash of the abstract "
        "package description.")
ASSUMPTIONS = [
    "vlib.opcmodel (zipfile + plain lxml) is the reference reader",
    "XML-equivalence = C14N equality after dropping whitespace-only text in element-only content",
    "fragment targets, duplicate Ids, undeclared content types and dangling internal targets are not generated",
]

RT = "http://schemas.openxmlformats.org/officeDocument/2006/relationships/"
RTYPES = [RT + "officeDocument", RT + "slide", RT + "image", RT + "slideLayout", RT + "hyperlink",
          "http://example.com/rel/custom", RT + "printerSettings",
          "http://schemas.openxmlformats.org/package/2006/relationships/metadata/core-properties"]
NS_P = "http://schemas.openxmlformats.org/presentationml/2006/main"
NS_A = "http://schemas.openxmlformats.org/drawingml/2006/main"
NS_C = "http://schemas.openxmlformats.org/drawingml/2006/chart"

CT_BIN = [
    ("image/png", ["png", "PNG", "bin", "dat", ""]),
    ("image/jpeg", ["jpg", "jpeg", "JPG", "jpe"]),
    ("image/jpg", ["jpg", "jpeg"]),
    ("image/gif", ["gif", "png"]),
    ("video/mp4", ["mp4", "bin"]),
    ("application/vnd.openxmlformats-officedocument.presentationml.printerSettings", ["bin", "BIN", "Bin"]),
    ("application/vnd.openxmlformats-officedocument.spreadsheetml.printerSettings", ["bin", "BIN"]),
    ("application/vnd.openxmlformats-officedocument.wordprocessingml.printerSettings", ["bin", "bIN"]),
    ("application/x-unknown-thing", ["bin", "xyz", "", "tar.gz"]),
    ("application/vnd.ms-office.vbaProject", ["bin"]),
    ("application/vnd.openxmlformats-officedocument.spreadsheetml.sheet", ["xlsx", "bin"]),
    ("application/vnd.openxmlformats-officedocument.oleObject", ["bin"]),
]
CT_XML = [
    ("application/vnd.openxmlformats-officedocument.presentationml.slide+xml", "sld"),
    ("application/vnd.openxmlformats-officedocument.presentationml.presentation.main+xml", "presentation"),
    ("application/vnd.openxmlformats-officedocument.presentationml.template.main+xml", "presentation"),
    ("application/vnd.openxmlformats-officedocument.presentationml.slideLayout+xml", "sldLayout"),
    ("application/vnd.openxmlformats-officedocument.presentationml.slideMaster+xml", "sldMaster"),
    ("application/vnd.openxmlformats-officedocument.presentationml.notesSlide+xml", "notes"),
    ("application/vnd.openxmlformats-officedocument.drawingml.chart+xml", "chart"),
    ("application/vnd.openxmlformats-package.core-properties+xml", "core"),
    ("application/vnd.openxmlformats-officedocument.theme+xml", "theme"),
    ("application/xml", "generic"),
    ("application/vnd.openxmlformats-officedocument.presentationml.tags+xml", "generic"),
]
SEGS = ["a", "ppt", "slides", "slide1", "slide21", "x.y", "media", "noext", "IMAGE", "Up Per%20x", "[br]",
        "docProps", "slidesX", "d1"]


def xml_payload(kind, vals):
    t = "".join(ch for ch in (vals[0] if vals else "t") if ch not in "<>&\r") or "t"
    n = vals[1] if len(vals) > 1 else 1
    if kind == "sld":
        return ('<p:sld xmlns:p="%s" xmlns:a="%s"><p:cSld name="%s"><p:spTree><p:nvGrpSpPr><p:cNvPr id="%d" name=""/>'
                '<p:cNvGrpSpPr/><p:nvPr/></p:nvGrpSpPr><p:grpSpPr/></p:spTree></p:cSld></p:sld>'
                % (NS_P, NS_A, t.replace('"', ""), n)).encode("utf-8")
    if kind in ("sldLayout", "sldMaster", "notes"):
        return ('<p:%s xmlns:p="%s"><p:cSld name="%s"><p:spTree/></p:cSld></p:%s>'
                % (kind, NS_P, t.replace('"', ""), kind)).encode("utf-8")
    if kind == "presentation":
        return ('<p:presentation xmlns:p="%s"><p:sldSz cx="%d" cy="6858000"/><p:notesSz cx="1" cy="2"/></p:presentation>'
                % (NS_P, 914400 + n)).encode("utf-8")
    if kind == "chart":
        return ('<c:chartSpace xmlns:c="%s"><c:chart><c:plotArea/></c:chart></c:chartSpace>' % NS_C).encode()
    if kind == "core":
        return ('<cp:coreProperties xmlns:cp="http://schemas.openxmlformats.org/package/2006/metadata/core-properties" '
                'xmlns:dc="http://purl.org/dc/elements/1.1/"><dc:title>%s</dc:title></cp:coreProperties>' % t).encode("utf-8")
    if kind == "theme":
        return ('<?xml version="1.0" encoding="UTF-8" standalone="yes"?>\n<a:theme xmlns:a="%s" name="%s">\n  <a:themeElements/>\n</a:theme>'
                % (NS_A, t.replace('"', ""))).encode("utf-8")
    return ('<?xml version="1.0"?>\n<root a="%d">\n  <child> %s </child>\n</root>\n' % (n, t)).encode("utf-8")


# ------------------------------------------------------------------ strategy

def desc_strategy():
    from hypothesis import strategies as st

    seg = st.sampled_from(SEGS)
    stem = st.sampled_from(["part", "slide1", "slide2", "image7", "x.y", "Data", "a b", "[t]", "item%20one", "p"])

    @st.composite
    def one_part(draw):
        dirs = draw(st.lists(seg, min_size=0, max_size=4))
        is_xml = draw(st.booleans())
        if is_xml:
            ct, kind = draw(st.sampled_from(CT_XML))
            ext = draw(st.sampled_from(["xml", "xml", "XML", "xml2", ""]))
            payload = {"xml": kind, "vals": [draw(st.text(alphabet="abc é\u4e2d\"'", max_size=6)),
                                            draw(st.integers(1, 99))]}
        else:
            ct, exts = draw(st.sampled_from(CT_BIN))
            ext = draw(st.sampled_from(exts))
            payload = draw(st.binary(min_size=0, max_size=40))
        name = "/" + "/".join(dirs + [draw(stem) + ("." + ext if ext else "")])
        return {"name": name, "ct": ct, "default": draw(st.booleans()), "upper": draw(st.booleans()) and ext != "",
                "payload": payload}

    @st.composite
    def desc(draw):
        raw = draw(st.lists(one_part(), min_size=1, max_size=12))
        parts = []
        for p in raw:
            n = p["name"]
            low = n.lower()
            if "/_rels/" in low or low == "/[content_types].xml":
                continue
            clash = False
            for q in parts:
                ql = q["name"].lower()
                if ql == low or ql.startswith(low + "/") or low.startswith(ql + "/"):
                    clash = True
            if not clash:
                parts.append(p)
        n = len(parts)
        nrel = draw(st.integers(1, 3 * n + 2))
        rels = []
        used = {}
        for i in range(nrel):
            src = draw(st.integers(-1, n - 1)) if i else -1
            ext = draw(st.integers(0, 9)) == 0
            if ext:
                tgt = {"ext": draw(st.sampled_from(["http://a.b/c?d=1&e=2", "file:///C:/x y.pptx", "mailto:x@y.z",
                                                    "../rel/looking.xml", "#frag", "", " "]))}
            else:
                tgt = draw(st.integers(0, n - 1))
            k = draw(st.integers(0, 14))
            rid = "rId%d" % k if draw(st.integers(0, 5)) else draw(st.sampled_from(["R1", "id_x", "rIdA", "rId007"])) + str(k)
            if rid in used.setdefault(src, set()):
                rid = "rId%d" % (100 + i)
            used[src].add(rid)
            rels.append([src, rid, draw(st.sampled_from(RTYPES)), tgt, draw(st.integers(0, 4))])
        extras = draw(st.lists(st.tuples(st.sampled_from(["/extra.bin", "/ppt/unref.xml", "/docProps/thumbnail.jpeg",
                                                          "/customXml/item1.xml"]), st.binary(max_size=8)),
                               max_size=2, unique_by=lambda t: t[0]))
        extras = [list(e) for e in extras if all(e[0].lower() != p["name"].lower()
                                                  and not p["name"].lower().startswith(e[0].lower() + "/")
                                                  and not e[0].lower().startswith(p["name"].lower() + "/") for p in parts)]
        empty_rels = draw(st.lists(st.integers(0, n - 1), max_size=2, unique=True))
        return {"parts": parts, "rels": rels, "extras": extras, "empty_rels": empty_rels,
                "form": draw(st.sampled_from(["zip", "stream", "dir"]))}

    return desc()


def spell(target, base_dir, how):
    rel = O.relpath(target, base_dir)
    if how == 1:
        return "./" + rel
    if how == 2:
        return "zz/../" + rel
    if how == 3:
        return target
    if how == 4:
        depth = 0 if base_dir == "/" else base_dir.count("/")
        return "../" * depth + target[1:]
    return rel


def build(desc):
    """-> opcmodel.Pkg of the synthetic package."""
    parts = desc["parts"]
    members = {}
    order = []
    entries = []
    for p in parts:
        pl = p["payload"]
        blob = xml_payload(pl["xml"], pl["vals"]) if isinstance(pl, dict) else bytes(pl)
        members[p["name"]] = blob
        order.append(p["name"])
        entries.append((p["name"], p["ct"], p["default"], p["upper"]))
    by_src = {}
    for src, rid, rtype, tgt, how in desc["rels"]:
        sname = "/" if src < 0 else parts[src]["name"]
        if isinstance(tgt, dict):
            by_src.setdefault(sname, []).append((rid, rtype, "External", tgt["ext"]))
        else:
            # one internal relationship in four carries TargetMode="Internal" explicitly (the schema default)
            mode = "Internal!" if sum(map(ord, rid)) % 4 == 0 else "Internal"
            by_src.setdefault(sname, []).append((rid, rtype, mode, spell(parts[tgt]["name"], O.dirname(sname), how)))
    for i in desc.get("empty_rels", []):
        by_src.setdefault(parts[i]["name"], [])
    for sname, rl in by_src.items():
        rn = O.rels_name(sname)
        members[rn] = O.build_rels(rl)
        order.append(rn)
    for name, blob in desc.get("extras", []):
        if name not in members:
            members[name] = bytes(blob)
            order.append(name)
            if O.ext_of(name) == "":
                entries.append((name, "application/octet-stream", False, False))
    members["/[Content_Types].xml"] = O.build_content_types(
        entries + [(n, "image/jpeg", True, False) for n, _b in desc.get("extras", []) if n.endswith(".jpeg")])
    return O.Pkg(members, ["/[Content_Types].xml"] + order)


def nontrivial(desc, pkg):
    reach, relmap, _d = pkg.reachable()
    cls = []
    indeg = {}
    pairs = set()
    for src, rs in relmap.items():
        for r in rs:
            if r.mode == "External":
                cls.append("external")
                continue
            indeg[r.resolved] = indeg.get(r.resolved, 0) + 1
            if (src, r.resolved) in pairs:
                cls.append("parallel")
            pairs.add((src, r.resolved))
            if r.resolved == src:
                cls.append("self-loop")
            if r.target.startswith("/"):
                cls.append("abs-target")
            elif r.target.startswith("./") or "/../" in r.target or (r.target.startswith("../") and O.relpath(r.resolved, O.dirname(src)) != r.target):
                cls.append("dot-target")
    if any(v > 1 for v in indeg.values()):
        cls.append("shared-target")
    # cycle: a reachable part that can reach itself
    adj = {s: {r.resolved for r in rs if r.mode == "Internal"} for s, rs in relmap.items()}
    def reaches(a, b, seen):
        for x in adj.get(a, ()):
            if x == b or (x not in seen and not seen.add(x) and reaches(x, b, seen)):
                return True
        return False
    if any(reaches(p, p, set()) for p in reach):
        cls.append("cycle")
    exts = {}
    for p in desc["parts"]:
        exts.setdefault(O.ext_of(p["name"]).lower(), set()).add(p["ct"])
    if any(len(v) > 1 for v in exts.values()):
        cls.append("ext-conflict")
    if any(p["upper"] for p in desc["parts"]):
        cls.append("upper-ext")
    if len(reach) < len(desc["parts"]) or desc.get("extras"):
        cls.append("unreachable-members")
    return sorted(set(cls))


# ------------------------------------------------------------------ oracle

def is_xml(blob):
    from lxml import etree
    try:
        etree.fromstring(blob)
        return True
    except etree.XMLSyntaxError:
        return False


def open_save(src_pkg, form, tmp):
    """run python-pptx open+save on the package given in `form`; returns output bytes."""
    from pptx.package import Package

    data = src_pkg.to_bytes()
    if form == "stream":
        arg = io.BytesIO(data)
    elif form == "zip":
        arg = os.path.join(tmp, "in.pptx")
        with open(arg, "wb") as fh:
            fh.write(data)
    else:
        arg = os.path.join(tmp, "indir")
        if os.path.exists(arg):
            shutil.rmtree(arg)
        os.makedirs(arg)
        src_pkg.to_dir(arg)
    with sut("C01:open"):
        pk = Package.open(arg)
    out = io.BytesIO()
    with sut("C01:save"):
        pk.save(out)
    # iter_parts / iter_rels agree with reachability
    reach, relmap, _ = src_pkg.reachable()
    with sut("C01:iter"):
        pn = sorted(str(p.partname) for p in pk.iter_parts())
        nrels = sum(1 for _ in pk.iter_rels())
    if pn != sorted(reach):
        raise Violation("C01:iter_parts", "iter_parts() gives %s, reachable parts are %s" % (pn, sorted(reach)))
    exp_n = sum(len(relmap[s]) for s in ["/"] + reach)
    if nrels != exp_n:
        raise Violation("C01:iter_rels", "iter_rels() yields %d relationships, package has %d" % (nrels, exp_n))
    return out.getvalue()


def compare(inp, outp, what="C01", drop_dangling=False):
    reach, relmap, dangling = inp.reachable()
    if drop_dangling:
        # relationships whose target part is absent are documented as dropped on load (C16)
        relmap = {s: [r for r in rs if r.mode != "Internal" or r.resolved in inp.members]
                  for s, rs in relmap.items()}
    if outp.dups:
        raise Violation(what + ":duplicate-member", "duplicate zip members %s" % outp.dups)
    expected = {"/[Content_Types].xml", "/_rels/.rels"}
    for p in reach:
        expected.add(p)
        if relmap.get(p):
            expected.add(O.rels_name(p))
    got = set(outp.members)
    if got != expected:
        missing = sorted(expected - got)
        extra = sorted(got - expected)
        kind = "missing-rels-item" if missing and all(m.endswith(".rels") for m in missing) else \
               "missing-part" if missing else "extra-member"
        raise Violation("%s:members:%s" % (what, kind), "missing %s extra %s" % (missing, extra))
    for p in reach:
        ci, co = inp.ctype(p), outp.ctype(p)
        if ci != co:
            raise Violation("%s:content-type" % what, "%s: %r in, %r out" % (p, ci, co))
        bi, bo = inp.members[p], outp.members[p]
        if bi != bo:
            if is_xml(bi):
                if not is_xml(bo) or O.c14n(bi) != O.c14n(bo):
                    raise Violation("%s:xml-payload" % what, "%s: XML payload not equivalent" % p)
            else:
                raise Violation("%s:binary-payload" % what, "%s: %d bytes in, %d bytes out, differ" % (p, len(bi), len(bo)))
    oreach, orelmap, odang = outp.reachable()
    if odang:
        raise Violation("%s:dangling-out" % what, "output has dangling relationships %s" % odang[:3])
    for s in ["/"] + reach:
        ki = sorted(r.key() for r in relmap.get(s, []))
        ko = sorted(r.key() for r in outp.rels(s))
        if ki != ko:
            a = [k for k in ki if k not in ko]
            b = [k for k in ko if k not in ki]
            kind = "target-mode" if a and b and a[0][0] == b[0][0] and a[0][2] != b[0][2] else \
                   "target" if a and b and a[0][0] == b[0][0] else "set"
            raise Violation("%s:relationships:%s" % (what, kind), "source %s: only in input %s, only in output %s" % (s, a[:3], b[:3]))
    _d, ov, dd, od = outp.content_types()
    if dd or od:
        raise Violation("%s:content-types-duplicate-entry" % what, "duplicate Default %s Override %s" % (dd, od))


def run_case(desc, rec=None):
    pkg = build(desc)
    tmp = tempfile.mkdtemp(prefix="verif-c01-")
    try:
        out1 = open_save(pkg, desc["form"], tmp)
        o1 = O.Pkg.read(out1)
        compare(pkg, o1)
        out2 = open_save(o1, "stream", tmp)
        o2 = O.Pkg.read(out2)
        if set(o2.members) != set(o1.members):
            raise Violation("C01:second-save:members", "%s vs %s" % (sorted(o1.members), sorted(o2.members)))
        for k in o1.members:
            if o1.members[k] != o2.members[k]:
                raise Violation("C01:second-save:bytes", "member %s differs between first and second save" % k)
    finally:
        shutil.rmtree(tmp, ignore_errors=True)
    if rec is not None:
        cls = nontrivial(desc, pkg)
        nt = [c for c in cls if c not in ("upper-ext", "unreachable-members")]
        rec.note(desc, bool(nt), classes=cls + ["form:" + desc["form"]])


def run_corpus(case, rec=None):
    path, form = case
    tmp = tempfile.mkdtemp(prefix="verif-c01-")
    try:
        pkg = O.Pkg.read(os.path.join(REPO, path))  # zip file or directory-form package
        # corpus decks may hold relationships whose target is absent (tolerated, C16): judged on the
        # package with those relationships removed from the expectation by `compare`'s reachability.
        reach, relmap, dangling = pkg.reachable()
        if dangling:
            return "skipped-dangling"
        out1 = open_save(pkg, form, tmp)
        o1 = O.Pkg.read(out1)
        compare(pkg, o1, "C01:corpus")
        out2 = open_save(o1, "stream", tmp)
        o2 = O.Pkg.read(out2)
        if o2.members != o1.members:
            bad = [k for k in set(o1.members) | set(o2.members) if o1.members.get(k) != o2.members.get(k)]
            raise Violation("C01:second-save:bytes", "corpus %s: members differ %s" % (path, bad[:4]))
    finally:
        shutil.rmtree(tmp, ignore_errors=True)
    if rec is not None:
        rec.note(["corpus", path, form], True, classes=["corpus", "form:" + form])
    return "ok"


# ------------------------------------------------------------------ jobs

def jobs(tier):
    n = 2000 if tier == "thorough" else 500
    js = [{"kind": "synthetic", "shard": i, "n": n} for i in range(16)]
    decks = corpus_decks()
    if tier != "thorough":
        decks = decks[::5]
    forms = ["zip", "stream", "dir"]
    cases = [[d, f] for d in decks for f in forms]
    cases += [[d, f] for d in dir_packages() for f in forms]  # the repository's directory-form packages
    for i in range(8):
        js.append({"kind": "corpus", "cases": cases[i::8]})
    return js


def run_job(job, seed, tier, rec, known):
    if job["kind"] == "synthetic":
        return hyp_search(lambda d: run_case(d, rec), desc_strategy(), seed=seed, max_examples=job["n"],
                          rec=rec, known=known)
    fails = run_plain(lambda c: run_corpus(c, rec), job["cases"], rec=rec, known=known)
    for f in fails:
        f["case"] = {"corpus": f["case"]}
    return fails


def replay(case):
    if "corpus" in case:
        return collect(run_corpus, case["corpus"])
    return collect(run_case, case)
