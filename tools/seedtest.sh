#!/bin/bash
# usage: seedtest.sh <ID> <n> [check ids...]   verifies /tmp/seedwork/<ID>/change<n>.diff in /tmp/seed-<ID> and runs checks against it
ID=$1; N=$2; shift 2; CHECKS=${@:-$ID}
WT=/tmp/seed-$ID; D=/tmp/seedwork/$ID
git -C $WT checkout -q -- . && git -C $WT apply --check $D/change$N.diff || { echo "APPLY-FAIL"; exit 2; }
echo -n "demo pristine: "; (cd $WT && PYTHONPATH=$WT/src /venv/bin/python $D/demo$N.py >/dev/null 2>&1; echo "exit $?")
git -C $WT apply $D/change$N.diff
echo -n "tests with change: "; (cd $WT && PYTHONPATH=$WT/src /venv/bin/python -m pytest -q -p no:cacheprovider --continue-on-collection-errors 2>&1 | tail -1)
echo -n "demo with change: "; (cd $WT && PYTHONPATH=$WT/src /venv/bin/python $D/demo$N.py >/dev/null 2>&1; echo "exit $?")
git -C $WT checkout -q -- .
for c in $CHECKS; do echo "--- check $c vs $ID change$N"; /verif/tools/sens.py $c --patch $D/change$N.diff 2>&1 | grep -v "^KNOWN-FINDING" | cut -c1-260 | tail -4; done
