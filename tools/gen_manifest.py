#!/usr/bin/env python3
"""Regenerates MANIFEST.json from the table below (keeps it valid at all times)."""
import json, os
HERE = os.path.dirname(os.path.dirname(os.path.abspath(__file__)))
ALL = ["C%02d" % i for i in range(1, 21)]
# id -> (level category, technique, level text, level note, design ref)
CHECKS = {}
def reg(i, cat, tech, text, note, ref):
    CHECKS[i] = (cat, tech, text, note, ref)
exec(open(os.path.join(HERE, "tools", "manifest_table.py")).read())
checks = []
for i in ALL:
    if i not in CHECKS: continue
    cat, tech, text, note, ref = CHECKS[i]
    checks.append({
        "property_id": i,
        "quick_cmd": "/venv/bin/python run_check.py %s --tier quick" % i,
        "thorough_cmd": "/venv/bin/python run_check.py %s --tier thorough" % i,
        "evidence_file": "evidence/%s.json" % i,
        "replay_cmd_template": "/venv/bin/python run_check.py %s --replay {path}" % i,
        "engine": "vlib",
        "level_claimed": {"category": cat, "text": text, "design_ref": ref},
        "level_note": note,
        "technique": tech,
    })
m = {
    "version": 1,
    "setup_cmd": "/venv/bin/pip install --no-index --find-links /opt/veriftools/wheels hypothesis >/dev/null 2>&1; /venv/bin/python -c 'import hypothesis, lxml, PIL, xlsxwriter' && (/venv/bin/pip install --no-index --find-links /opt/veriftools/wheels --target /verif/.deps atheris >/dev/null 2>&1 || true)",
    "hooks": {
        "guard": "PYTHON_PPTX_VERIF",
        "enable": "no source hooks: every observation goes through the public API, part blobs and saved zips; checks import pptx from /repo/src (sys.path) so the current working tree is what runs",
        "baseline_off_cmd": "cd /repo && /venv/bin/python -m pytest -ra -q -p no:cacheprovider --timeout=900 --continue-on-collection-errors",
        "source_commits": [],
        "add_only": True,
    },
    "engines": [
        {"name": "vlib", "path": "vlib/", "serves_properties": sorted(CHECKS),
         "kind_free_text": "Hypothesis-driven generated-input search, bounded-exhaustive enumeration and fault enumeration against independent oracles (own OPC reader, ISO 29500 XSDs via libxml2, reference models); sharded over 16 processes; replay files are plain JSON cases"},
    ],
    "checks": checks,
    "notes": "run_check.py <ID> --tier quick|thorough [--replay file]; exit 0/1/2 (2 = harness error, no verdict). KNOWN_FINDINGS.txt lists recorded and fixed findings.",
    "not_applicable": [{"property_id": i, "reason": NA.get(i, "check not yet implemented in this revision (planned, see DESIGN.md section 4)")} for i in ALL if i not in CHECKS],
}
json.dump(m, open(os.path.join(HERE, "MANIFEST.json"), "w"), indent=1)
print("checks:", sorted(CHECKS), "na:", [x["property_id"] for x in m["not_applicable"]])
