NA = {}
reg("C19", "exploration", "bounded-exhaustive enumeration of part names and pairs + Hypothesis strings, against an own RFC 3986 / OPC string model",
    "Every part name over an 11-segment alphabet to depth 3 (quick) / 4 (thorough) and every ordered pair of them is enumerated (finite space, exhaustive); round trip relative_ref/from_rel_ref, all accessors and dot-segment resolution are compared with an independent string implementation; Hypothesis adds names from a wider grammar.",
    "Trusted: the own reference implementation of RFC 3986 5.2.4 and of the OPC accessors (60 lines). Names outside the OPC grammar are not generated.",
    "DESIGN.md 4 C19")
