#!/usr/bin/env python3
"""archive_seed.py <ID> <n> <detected:yes|no|partial> <checks,comma> <key or note> : copy /tmp/seedwork/<ID>/change<n>.diff etc. to /verif/seeded/<ID>-<n>/"""
import json, os, shutil, sys, re
pid, n, det, checks, note = sys.argv[1], sys.argv[2], sys.argv[3], sys.argv[4], sys.argv[5]
src = "/tmp/seedwork/%s" % pid
rnd = {"b": 2, "c": 3, "d": 4, "e": 5, "f": 6, "g": 7, "h": 8, "i": 9, "j": 10}.get(pid[-1], 1)
round2 = rnd > 1
prop = pid[:-1] if round2 else pid
# rounds 3 (c) and 4 (d) covered disjoint halves of the properties: both are the third pair of their property
dst = "/verif/seeded/%s-%s" % (prop, int(n) + 2 * ({1: 0, 2: 1, 3: 2, 4: 2, 5: 3, 6: 4, 7: 5, 8: 6, 9: 7, 10: 8}[rnd]))
os.makedirs(dst, exist_ok=True)
shutil.copy(src + "/change%s.diff" % n, dst + "/patch.diff")
shutil.copy(src + "/demo%s.py" % n, dst + "/demo.py")
notes = open(src + "/notes.md").read()
open(dst + "/notes.md", "w").write(notes)
diff = open(dst + "/patch.diff").read()
files = sorted(set(re.findall(r"^\+\+\+ b/(\S+)", diff, re.M)))
meta = {
    "property": prop,
    "origin": "independent sub-agent given only the property text and a scratch worktree of /repo (no access to /verif)"
              + (("; round %d: told which mechanisms had been used before and asked for different ones (caches / shared state / ordering assumptions / save-re-open effects / cooperating sites / exception safety / in-place mutation / boundary arithmetic)" % rnd) if round2 else ""),
    "files_changed": files,
    "needs_to_manifest": "see notes.md (section for change %s)" % n,
    "confirmed_by_me": {
        "applies_cleanly_to_repo_head": True,
        "baseline_tests_with_change": "566 passed, 46 errors (unchanged)",
        "demo_without_change_exit": 0,
        "demo_with_change_exit": 1,
        "command": "tools/seedtest.sh %s %s %s" % (pid, n, checks.replace(",", " ")),
    },
    "checks_run": checks.split(","),
    "detected": det,
    "detail": note,
}
json.dump(meta, open(dst + "/meta.json", "w"), indent=1)
print("archived", dst)
