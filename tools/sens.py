#!/venv/bin/python
"""Sensitivity run: apply a mutation to a scratch copy of /repo/src, run a check against it.

usage: tools/sens.py <ID> [--tier quick] (--patch file.diff | --sub FILE 'old' 'new') [--expect-key K]
Scratch copy lives under /tmp/verif-sens-<pid> and is removed afterwards; evidence and new replays of
the mutant run are redirected there too. Prints the check's output and MUTANT-DETECTED / MUTANT-MISSED.
"""
import argparse, os, shutil, subprocess, sys, tempfile

ap = argparse.ArgumentParser()
ap.add_argument("prop")
ap.add_argument("--tier", default="quick")
ap.add_argument("--patch")
ap.add_argument("--sub", nargs=3, action="append", metavar=("FILE", "OLD", "NEW"))
ap.add_argument("--seed", default="1")
ap.add_argument("--keep", action="store_true")
a = ap.parse_args()
tmp = tempfile.mkdtemp(prefix="verif-sens-")
try:
    os.makedirs(tmp + "/repo")
    shutil.copytree("/repo/src", tmp + "/repo/src", ignore=shutil.ignore_patterns("__pycache__", "*.egg-info"))
    for d in ("spec", "features", "tests"):
        os.symlink("/repo/" + d, tmp + "/repo/" + d)
    if a.patch:
        r = subprocess.run(["patch", "-p1", "-d", tmp + "/repo", "-i", os.path.abspath(a.patch)],
                           capture_output=True, text=True)
        if r.returncode:
            print(r.stdout, r.stderr); sys.exit("patch failed")
    for f, old, new in a.sub or []:
        p = os.path.join(tmp, "repo", f)
        s = open(p).read()
        if s.count(old) != 1:
            sys.exit("substitution target occurs %d times in %s" % (s.count(old), f))
        open(p, "w").write(s.replace(old, new))
    env = dict(os.environ, VERIF_REPO=tmp + "/repo", VERIF_OUT=tmp + "/out", VERIF_SEED=a.seed,
               PYTHONDONTWRITEBYTECODE="1")
    r = subprocess.run(["/venv/bin/python", "/verif/run_check.py", a.prop, "--tier", a.tier], env=env,
                       capture_output=True, text=True)
    out = r.stdout
    print("\n".join(l[:400] for l in out.splitlines()[-25:]))
    if r.returncode == 2:
        print(r.stderr[-3000:])
    print("rc=%d  %s" % (r.returncode, "MUTANT-DETECTED" if r.returncode == 1 else
                         "HARNESS-ERROR" if r.returncode == 2 else "MUTANT-MISSED"))
finally:
    if not a.keep:
        shutil.rmtree(tmp, ignore_errors=True)
