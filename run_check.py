#!/venv/bin/python
"""CLI: run_check.py <ID> [--tier quick|thorough] [--replay FILE]

exit 0: property held on everything explored (listed findings are printed as KNOWN-FINDING)
exit 1: VIOLATION property=<ID> replay=<path>
exit 2: harness error (no verdict)
"""
import argparse
import os
import sys
import traceback

HERE = os.path.dirname(os.path.abspath(__file__))
REPO = os.environ.get("VERIF_REPO", "/repo")
sys.path.insert(0, HERE)
sys.path.insert(0, os.path.join(REPO, "src"))
deps = os.path.join(HERE, ".deps")
if os.path.isdir(deps):
    sys.path.append(deps)
os.environ.setdefault("PYTHONHASHSEED", "0")


def main():
    ap = argparse.ArgumentParser()
    ap.add_argument("prop")
    ap.add_argument("--tier", default=os.environ.get("VERIF_TIER") or "quick",
                    choices=["quick", "thorough"])
    ap.add_argument("--replay")
    a = ap.parse_args()
    prop = a.prop.upper()
    try:
        seed = int(os.environ.get("VERIF_SEED", "1") or "1")
    except ValueError:
        seed = 1
    try:
        from vlib import core

        core.assert_tree()
        import hypothesis  # noqa: F401

        rc = core.main_check(prop, "checks.%s" % prop.lower(), a.tier, seed, a.replay)
    except SystemExit:
        raise
    except BaseException:
        traceback.print_exc()
        print("harness error; no verdict")
        sys.exit(2)
    sys.exit(rc)


if __name__ == "__main__":
    main()
