"""Read-only description of a presentation through the public read API (used by C02/C12)."""
import hashlib


def _shape(sh):
    d = {"cls": type(sh).__name__, "id": sh.shape_id, "name": sh.name}
    for k in ("left", "top", "width", "height"):
        try:
            d[k] = getattr(sh, k)
        except Exception as e:  # noqa
            d[k] = "!" + type(e).__name__
    try:
        d["rot"] = round(sh.rotation, 4)
    except Exception:
        pass
    if sh.is_placeholder:
        pf = sh.placeholder_format
        d["ph"] = [pf.idx, str(pf.type)]
    if getattr(sh, "has_text_frame", False):
        d["text"] = [[p.text, p.level, [r.text for r in p.runs]] for p in sh.text_frame.paragraphs]
    cname = type(sh).__name__
    if cname in ("Picture", "PlaceholderPicture"):
        try:
            d["image_sha1"] = hashlib.sha1(sh.image.blob).hexdigest()
            d["image_ct"] = sh.image.content_type
        except Exception as e:  # linked pictures etc.
            d["image_sha1"] = "!" + type(e).__name__
    if getattr(sh, "has_chart", False):
        ch = sh.chart
        cd = {"type": None, "plots": []}
        try:
            cd["type"] = str(ch.chart_type)
        except NotImplementedError:
            cd["type"] = "!NotImplementedError"
        for plot in ch.plots:
            pd = {"cls": type(plot).__name__}
            try:
                pd["cats"] = [str(c) for c in plot.categories]
            except Exception as e:
                pd["cats"] = "!" + type(e).__name__
            try:
                pd["series"] = [[s.name, list(s.values)] for s in plot.series]
            except Exception as e:
                pd["series"] = "!" + type(e).__name__
            cd["plots"].append(pd)
        d["chart"] = cd
    if getattr(sh, "has_table", False):
        t = sh.table
        d["table"] = [[(c.text, c.is_merge_origin, c.is_spanned) for c in row.cells] for row in t.rows]
    if cname == "GroupShape":
        d["children"] = [_shape(s) for s in sh.shapes]
    if cname != "GroupShape" and hasattr(sh, "click_action"):
        try:
            ca = sh.click_action
            d["link"] = ca.hyperlink.address
            ts = ca.target_slide
            d["jump"] = None if ts is None else ts.slide_id
        except Exception as e:
            d["link"] = "!" + type(e).__name__
    return d


def slide_snapshot(sl):
    d = {"id": sl.slide_id, "name": sl.name, "layout": sl.slide_layout.name,
         "shapes": [_shape(s) for s in sl.shapes]}
    if sl.has_notes_slide:
        tf = sl.notes_slide.notes_text_frame
        d["notes"] = None if tf is None else tf.text
    return d


def snapshot(prs):
    return {"size": [prs.slide_width, prs.slide_height],
            "slides": [slide_snapshot(s) for s in prs.slides]}


def diff(a, b, path=""):
    """first difference between two snapshots as a short string, or None."""
    if type(a) != type(b):
        return "%s: %r vs %r" % (path, a, b)
    if isinstance(a, dict):
        for k in sorted(set(a) | set(b)):
            if k not in a or k not in b:
                return "%s.%s: present on one side only" % (path, k)
            d = diff(a[k], b[k], path + "." + k)
            if d:
                return d
        return None
    if isinstance(a, (list, tuple)):
        if len(a) != len(b):
            return "%s: length %d vs %d" % (path, len(a), len(b))
        for i, (x, y) in enumerate(zip(a, b)):
            d = diff(x, y, "%s[%d]" % (path, i))
            if d:
                return d
        return None
    if a != b:
        return "%s: %r vs %r" % (path, a, b)
    return None
