"""C18 helper: OPC core-properties validator, independent core.xml reader, W3CDTF reference parser.

Nothing in here imports python-pptx. The schema is the repository's own
spec/ISO-IEC-29500-2/opc-xsd/opc-coreProperties.xsd; its three imports (Dublin Core elements, Dublin
Core terms, xml namespace) point to http URLs that cannot be fetched, so their schemaLocation is
patched in memory to the local stubs /verif/schemas/{dc,dcterms,xml}.xsd (SimpleLiteral and
dcterms:W3CDTF = union(gYear, gYearMonth, date, dateTime) as in the 2003/04/02 DCMI schemas).
"""
import datetime as dt
import io
import os
import posixpath
import re
import zipfile

from lxml import etree

from vlib import core

NS = {
    "cp": "http://schemas.openxmlformats.org/package/2006/metadata/core-properties",
    "dc": "http://purl.org/dc/elements/1.1/",
    "dcterms": "http://purl.org/dc/terms/",
    "xsi": "http://www.w3.org/2001/XMLSchema-instance",
    "xml": "http://www.w3.org/XML/1998/namespace",
    "ct": "http://schemas.openxmlformats.org/package/2006/content-types",
    "pr": "http://schemas.openxmlformats.org/package/2006/relationships",
}
RT_CORE = "http://schemas.openxmlformats.org/package/2006/relationships/metadata/core-properties"
CT_CORE = "application/vnd.openxmlformats-package.core-properties+xml"

# API name -> (kind, namespace prefix, element local name); ISO/IEC 29500-2 core properties table
PROPS = {
    "author": ("str", "dc", "creator"),
    "category": ("str", "cp", "category"),
    "comments": ("str", "dc", "description"),
    "content_status": ("str", "cp", "contentStatus"),
    "created": ("date", "dcterms", "created"),
    "identifier": ("str", "dc", "identifier"),
    "keywords": ("str", "cp", "keywords"),
    "language": ("str", "dc", "language"),
    "last_modified_by": ("str", "cp", "lastModifiedBy"),
    "last_printed": ("date", "cp", "lastPrinted"),
    "modified": ("date", "dcterms", "modified"),
    "revision": ("rev", "cp", "revision"),
    "subject": ("str", "dc", "subject"),
    "title": ("str", "dc", "title"),
    "version": ("str", "cp", "version"),
}
STRING_PROPS = sorted(k for k, v in PROPS.items() if v[0] == "str")
DATE_PROPS = sorted(k for k, v in PROPS.items() if v[0] == "date")


def qn(prefix, local):
    return "{%s}%s" % (NS[prefix], local)


_schema = None


def schema():
    global _schema
    if _schema is None:
        path = os.path.join(core.REPO, "spec", "ISO-IEC-29500-2", "opc-xsd", "opc-coreProperties.xsd")
        doc = etree.parse(path).getroot()
        stub = {NS["dc"]: "dc.xsd", NS["dcterms"]: "dcterms.xsd", NS["xml"]: "xml.xsd"}
        n = 0
        for imp in doc.iter("{http://www.w3.org/2001/XMLSchema}import"):
            p = os.path.join(core.VERIF, "schemas", stub[imp.get("namespace")])
            if not os.path.exists(p):
                raise core.HarnessError("missing schema stub %s" % p)
            imp.set("schemaLocation", "file://" + p)
            n += 1
        if n != 3:
            raise core.HarnessError("expected 3 imports in opc-coreProperties.xsd, found %d" % n)
        _schema = etree.XMLSchema(doc)
        # self-test: the validator must accept a known-good and reject a known-bad instance
        good = (b'<cp:coreProperties xmlns:cp="%s" xmlns:dc="%s" xmlns:dcterms="%s" xmlns:xsi="%s">'
                b'<dc:title>t</dc:title><dcterms:created xsi:type="dcterms:W3CDTF">2001-02-03T04:05:06Z'
                b'</dcterms:created><cp:lastPrinted>2001-02-03T04:05:06Z</cp:lastPrinted>'
                b'</cp:coreProperties>') % tuple(NS[k].encode() for k in ("cp", "dc", "dcterms", "xsi"))
        if xsd_errors(good):
            raise core.HarnessError("core-properties schema rejects a valid instance: %r" % xsd_errors(good))
        for bad in (good.replace(b"2001-02-03T04:05:06Z</dc", b"201-02-03T04:05:06Z</dc"),
                    good.replace(b"2001-02-03T04:05:06Z</cp", b"2001-02-03</cp"),
                    good.replace(b"<dc:title>t</dc:title>", b"<dc:title>t</dc:title><dc:title>u</dc:title>"),
                    good.replace(b"<dc:title>t</dc:title>", b"<cp:bogus/>")):
            if not xsd_errors(bad):
                raise core.HarnessError("core-properties schema accepts an invalid instance: %r" % bad)
    return _schema


def _local(tag):
    return tag.rsplit("}", 1)[-1] if isinstance(tag, str) else "?"


def xsd_errors(xml_bytes):
    """-> list of (element local name, message)"""
    sch = _schema or schema()
    try:
        doc = etree.fromstring(xml_bytes)
    except etree.XMLSyntaxError as e:
        return [("not-well-formed", str(e))]
    if sch.validate(doc):
        return []
    out = []
    for e in sch.error_log:
        m = re.search(r"Element '(\{[^}]*\})?([^']+)'", e.message)
        out.append((m.group(2) if m else "other", e.message))
    return out or [("other", "schema validation failed without message")]


def opc_rule_errors(xml_bytes):
    """Prose constraints of ISO/IEC 29500-2 on the core-properties part that the XSD cannot
    express: xsi:type="dcterms:W3CDTF" required on dcterms:created / dcterms:modified and xsi:type
    forbidden elsewhere [M4.5]; no xml:lang [M4.4]."""
    out = []
    root = etree.fromstring(xml_bytes)
    for el in root.iter():
        if not isinstance(el.tag, str):
            continue
        t = el.get(qn("xsi", "type"))
        if el.tag in (qn("dcterms", "created"), qn("dcterms", "modified")):
            ok = False
            if t is not None and ":" in t:
                pfx, loc = t.split(":", 1)
                ok = el.nsmap.get(pfx) == NS["dcterms"] and loc == "W3CDTF"
            if not ok:
                out.append((_local(el.tag), "xsi:type is %r, must be dcterms:W3CDTF" % (t,)))
        elif t is not None:
            out.append((_local(el.tag), "xsi:type %r not allowed here" % (t,)))
        if el.get(qn("xml", "lang")) is not None:
            out.append((_local(el.tag), "xml:lang not allowed in core properties"))
    return out


# ------------------------------------------------------------------ W3CDTF reference parser

_W3C = re.compile(
    r"^(\d{4})(?:-(\d\d)(?:-(\d\d)(?:T(\d\d):(\d\d)(?::(\d\d)(?:\.(\d+))?)?(Z|[+-]\d\d:\d\d)?)?)?)?$")


def parse_w3cdtf(s):
    """-> dict(gran, naive (datetime, fields as written), frac (str|None), off (None|'Z'|minutes int),
    utc (datetime, exact incl. fraction truncated to microseconds)) or None if not W3CDTF-like."""
    m = _W3C.match(s)
    if not m:
        return None
    y, mo, d, h, mi, sec, frac, tz = m.groups()
    gran = ("year" if mo is None else "month" if d is None else "day" if h is None else
            "minute" if sec is None else "second" if frac is None else "fraction")
    try:
        naive = dt.datetime(int(y), int(mo or 1), int(d or 1), int(h or 0), int(mi or 0), int(sec or 0),
                            int(((frac or "0") + "000000")[:6]))
    except ValueError:
        return None
    off = None
    if tz == "Z":
        off = "Z"
    elif tz:
        sign = -1 if tz[0] == "-" else 1
        off = sign * (int(tz[1:3]) * 60 + int(tz[4:6]))
    utc = naive
    if isinstance(off, int):
        utc = naive - dt.timedelta(minutes=off)
    return {"gran": gran, "naive": naive, "frac": frac, "off": off, "utc": utc, "tz": tz}


# ------------------------------------------------------------------ zip level

class PkgError(Exception):
    def __init__(self, code, msg):
        super().__init__(msg)
        self.code = code
        self.msg = msg


def core_member(zip_bytes):
    """Locate the core-properties part of a saved package with own zip/XML reading.
    -> (member name, xml bytes); raises PkgError(code, msg)."""
    z = zipfile.ZipFile(io.BytesIO(zip_bytes))
    names = set(z.namelist())
    if "_rels/.rels" not in names:
        raise PkgError("no-root-rels", "package has no _rels/.rels")
    rels = etree.fromstring(z.read("_rels/.rels"))
    hits = [r for r in rels.iter(qn("pr", "Relationship")) if r.get("Type") == RT_CORE]
    if len(hits) != 1:
        raise PkgError("rel-count", "%d core-properties relationships in _rels/.rels" % len(hits))
    target = hits[0].get("Target")
    if hits[0].get("TargetMode") == "External":
        raise PkgError("rel-external", "core-properties relationship is external")
    member = posixpath.normpath(posixpath.join("/", target)).lstrip("/")
    if member not in names:
        raise PkgError("member-missing", "relationship target %r is not a package member" % target)
    if sum(1 for i in z.infolist() if i.filename == member) != 1:
        raise PkgError("member-dup", "member %r occurs more than once" % member)
    cts = etree.fromstring(z.read("[Content_Types].xml"))
    ct = None
    for o in cts.iter(qn("ct", "Override")):
        if o.get("PartName") == "/" + member:
            ct = o.get("ContentType")
    if ct is None:
        ext = member.rsplit(".", 1)[-1].lower()
        for d in cts.iter(qn("ct", "Default")):
            if (d.get("Extension") or "").lower() == ext:
                ct = d.get("ContentType")
    if ct != CT_CORE:
        raise PkgError("content-type", "content type of /%s is %r" % (member, ct))
    return member, z.read(member)


def has_core_rel(zip_bytes):
    z = zipfile.ZipFile(io.BytesIO(zip_bytes))
    if "_rels/.rels" not in z.namelist():
        return False
    rels = etree.fromstring(z.read("_rels/.rels"))
    return any(r.get("Type") == RT_CORE for r in rels.iter(qn("pr", "Relationship")))


def read_core_xml(xml_bytes):
    """Independent reading: prop -> ('absent',) | ('text', str) for every API property.
    Element text is the concatenation of all character data (no children are expected)."""
    root = etree.fromstring(xml_bytes)
    out = {}
    for name, (_k, pfx, loc) in PROPS.items():
        els = root.findall(qn(pfx, loc))
        if not els:
            out[name] = ("absent",)
        elif len(els) > 1:
            out[name] = ("dup", len(els))
        else:
            out[name] = ("text", "".join(els[0].itertext()))
    return out


def replace_member(base_without, member, data):
    """zip bytes = base (which must not contain `member`) + one more member."""
    buf = io.BytesIO(base_without)
    with zipfile.ZipFile(buf, "a", zipfile.ZIP_DEFLATED) as z:
        z.writestr(member, data)
    return buf.getvalue()


def strip_member(zip_bytes, member):
    src = zipfile.ZipFile(io.BytesIO(zip_bytes))
    buf = io.BytesIO()
    with zipfile.ZipFile(buf, "w", zipfile.ZIP_DEFLATED) as z:
        for i in src.infolist():
            if i.filename != member:
                z.writestr(i.filename, src.read(i.filename))
    return buf.getvalue()
