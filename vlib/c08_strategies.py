"""C08 chart-data strategies and their materialisation (own module; independent of the C07 helpers).

A *data spec* is JSON-like (replayable):

category data  {"depth": d, "cats": tree, "bulk": n, "npts": p, "series": [[name, [v...], numfmt], ...],
                "explicit_first": bool, "catfmt": None | str}
    tree at depth 1 = [label, ...]; deeper = [[label, subtree], ...] (uniform depth, by construction).
    The chart's series are `bulk` computed series ("S<i>", values 1000*i + j, j < p) followed by (or, with
    explicit_first, preceded by) the explicit ones -- this is how interesting names / values land in columns
    beyond Z and ZZ without generating hundreds of series element-wise.
xy / bubble    {"series": [[name, [[x, y(, size)], ...], extra, numfmt], ...]}
    every series gets `extra` further computed points appended (x = 100*si + j + 0.5, y = -(100*si + j),
    size = j + 1) so that row offsets accumulate over unequal lengths cheaply.

flatten_*() give the plain-Python reading of a spec the oracle compares the workbook with.
"""
import datetime as dt

from hypothesis import strategies as st

# --------------------------------------------------------------------------------------------- chart types

CAT_TYPES = [
    "AREA", "AREA_STACKED", "AREA_STACKED_100", "BAR_CLUSTERED", "BAR_STACKED", "BAR_STACKED_100",
    "COLUMN_CLUSTERED", "COLUMN_STACKED", "COLUMN_STACKED_100", "LINE", "LINE_MARKERS",
    "LINE_MARKERS_STACKED", "LINE_MARKERS_STACKED_100", "LINE_STACKED", "LINE_STACKED_100",
    "RADAR", "RADAR_FILLED", "RADAR_MARKERS",
]
PIE_TYPES = ["PIE", "PIE_EXPLODED", "DOUGHNUT", "DOUGHNUT_EXPLODED"]
XY_TYPES = ["XY_SCATTER", "XY_SCATTER_LINES", "XY_SCATTER_LINES_NO_MARKERS", "XY_SCATTER_SMOOTH",
            "XY_SCATTER_SMOOTH_NO_MARKERS"]
BUBBLE_TYPES = ["BUBBLE", "BUBBLE_THREE_D_EFFECT"]

BOUNDARY_COUNTS = [0, 1, 2, 24, 25, 26, 27, 28, 50, 51, 52, 53, 54, 700, 701, 702, 703, 704, 705]

# --------------------------------------------------------------------------------------------- strings

# XML 1.0 characters without C0 controls other than TAB / LF (CR and the other controls belong to C04 / C05),
# without surrogates and the two non-characters.
_text_alphabet = st.characters(
    blacklist_categories=("Cs", "Cc"), blacklist_characters="\ufffe\uffff", max_codepoint=0x1FFFF)
plain_text = st.one_of(
    st.text(alphabet="abcXYZ 019-_.&<>\"'", min_size=1, max_size=10),
    st.text(alphabet=_text_alphabet, min_size=1, max_size=8),
)

FORMULA_PREFIXES = ["=", "{="]
URL_PREFIXES = ["http://", "https://", "ftp://", "ftps://", "mailto:", "internal:", "external:", "file://"]

SPECIAL_STRINGS = [
    "=A1", "=SUM(B2:B4)", "=", "==x", "=1+1", "{=1+1}", "{=A1:A2}", "{=}", "{=x", "=}",
    "http://example.com/a?b=c&d", "https://x.y", "ftp://h/f", "ftps://h", "mailto:a@b.c",
    "internal:Sheet1!A1", "external:c:\\x.xlsx", "file:///tmp/x", "HTTP://UPPER", " =A1", " http://x",
    "123", "1e5", "-0", "0x1F", "TRUE", "1/2", "'quoted", "+1", "-A1", "@x", "1,5", "12:30", "2020-01-01",
    "_x0041_", "_x005F_", "_x000D_", "_x", "x_x0041", "", " ", "  ", "a\tb", "a\nb", " lead", "trail ",
    "Sheet1!$A$1", "$A$1", "#REF!", "#N/A",
    "L" * 256, "long " * 60, "=" + "9" * 300, "x" * 1000,
]


def _is_formula_like(s):
    return isinstance(s, str) and (s.startswith("=") or (s.startswith("{=") and s.endswith("}")))


def _is_url_like(s):
    return isinstance(s, str) and any(s.startswith(p) for p in URL_PREFIXES)


def is_active_string(s):
    """True for strings a spreadsheet writer might take for something else than text."""
    return _is_formula_like(s) or _is_url_like(s)


prefixed = st.builds(lambda p, t, close: p + t + ("}" if (p == "{=" and close) else ""),
                     st.sampled_from(FORMULA_PREFIXES + URL_PREFIXES), plain_text, st.booleans())

label_text = st.one_of(plain_text, plain_text, st.sampled_from(SPECIAL_STRINGS), prefixed)
# a "calm" text for contexts where the workbook-writer dispatch is not the point of the case
calm_text = st.one_of(plain_text, st.sampled_from(["123", "1e5", "_x0041_", " lead", "a\nb", "L" * 256, "'q", "+1"]))

name_text = st.one_of(label_text, st.none())

# --------------------------------------------------------------------------------------------- numbers

SPECIAL_FLOATS = [0.0, -0.0, 1e-300, 1e300, -1e300, 0.1 + 0.2, 1.0 / 3, 2.0 ** 53, 1e15 + 0.5, 5e-324,
                  1.7976931348623157e308, 123456789.123456789, -2.5]
SPECIAL_INTS = [0, 1, -1, 10 ** 15, 10 ** 20, -(10 ** 18), 2 ** 63, 255, 65536]

number = st.one_of(
    st.integers(-10 ** 6, 10 ** 6),
    st.floats(allow_nan=False, allow_infinity=False, width=64),
    st.floats(-1000, 1000, allow_nan=False).map(lambda x: round(x, 2)),
    st.sampled_from(SPECIAL_FLOATS),
    st.sampled_from(SPECIAL_INTS),
)
value = st.one_of(number, number, number, st.none())

NUMFMTS = [None, None, None, "0.0", "#,##0", "0%"]

# --------------------------------------------------------------------------------------------- dates

BOUNDARY_DATES = [dt.date(1900, 1, 1), dt.date(1900, 2, 28), dt.date(1900, 3, 1), dt.date(1900, 3, 2),
                  dt.date(1903, 12, 31), dt.date(1904, 1, 1), dt.date(1904, 1, 2), dt.date(1904, 2, 29),
                  dt.date(1999, 12, 31), dt.date(2000, 2, 29), dt.date(2100, 3, 1), dt.date(2199, 12, 31)]


def dates(min_date):
    return st.one_of(st.dates(min_date, dt.date(2199, 12, 31)),
                     st.sampled_from([d for d in BOUNDARY_DATES if d >= min_date]))


def datetimes(min_date):
    times = st.one_of(st.just(dt.time(0, 0, 0)), st.just(dt.time(0, 0, 0)),
                      st.sampled_from([dt.time(12, 0, 0), dt.time(6, 0, 0), dt.time(23, 59, 59), dt.time(0, 0, 1)]),
                      st.times().map(lambda t: t.replace(microsecond=0, tzinfo=None)))
    return st.builds(lambda d, t: dt.datetime(d.year, d.month, d.day, t.hour, t.minute, t.second),
                     dates(min_date), times)


# --------------------------------------------------------------------------------------------- category data

@st.composite
def cat_tree(draw, depth, min_date=dt.date(1900, 1, 1), calm=False):
    txt = calm_text if calm else label_text
    if depth == 1:
        kind = draw(st.sampled_from(["str", "str", "str", "int", "float", "date", "datetime"]))
        n = draw(st.one_of(st.integers(1, 6), st.integers(1, 6), st.integers(7, 40)))
        if kind == "str":
            return draw(st.lists(txt, min_size=n, max_size=n))
        if kind == "int":
            return draw(st.lists(st.integers(-10 ** 6, 10 ** 6), min_size=n, max_size=n))
        if kind == "float":
            return draw(st.lists(st.floats(-1e6, 1e6, allow_nan=False).map(lambda x: round(x, 3)),
                                 min_size=n, max_size=n))
        if kind == "date":
            return draw(st.lists(dates(min_date), min_size=n, max_size=n))
        return draw(st.lists(datetimes(min_date), min_size=n, max_size=n))

    def sub(d, top):
        k = draw(st.integers(1, 3 if top else 2))
        if d == 1:
            return [draw(txt) for _ in range(k)]
        return [[draw(txt), sub(d - 1, False)] for _ in range(k)]

    return sub(depth, True)


def leaf_count(tree, depth):
    if depth == 1:
        return len(tree)
    return sum(leaf_count(sub, depth - 1) for _lbl, sub in tree)


@st.composite
def cat_data(draw, bulk=None, min_date=dt.date(1900, 1, 1), min_series=0, calm=False):
    depth = draw(st.sampled_from([1, 1, 1, 2, 2, 3, 4]))
    tree = draw(cat_tree(depth, min_date=min_date, calm=calm))
    leaves = leaf_count(tree, depth)
    if bulk is None:
        bulk = draw(st.sampled_from([0, 0, 0, 0, 0, 0, 1, 2, 23, 24, 25, 26, 27, 49, 50, 51, 52]))
    nexp = draw(st.integers(0 if bulk >= min_series else min_series - bulk, 3))
    txt = st.one_of(calm_text, st.none()) if calm else name_text
    series = []
    for _ in range(nexp):
        ln = draw(st.sampled_from([leaves, leaves, leaves, leaves, 0, 1, leaves + 2, max(leaves - 1, 0)]))
        vals = draw(st.lists(value, min_size=ln, max_size=ln))
        series.append([draw(txt), vals, draw(st.sampled_from(NUMFMTS))])
    return {
        "depth": depth, "cats": tree, "bulk": bulk, "npts": draw(st.integers(1, 3)),
        "series": series, "explicit_first": draw(st.booleans()),
        "catfmt": draw(st.sampled_from([None, None, None, "General", "0.00"])),
    }


def cat_series_list(d):
    """-> [(name, [values], numfmt)] in chart order."""
    bulk = [["S%d" % i, [1000 * i + j for j in range(d["npts"])], None] for i in range(d["bulk"])]
    exp = [list(s) for s in d["series"]]
    return (exp + bulk) if d.get("explicit_first") else (bulk + exp)


def flatten_cats(d):
    """-> (depth, leaf_count, {(leaf_row_offset, level_from_left): label}) ; level_from_left 0 = outermost."""
    depth = d["depth"]
    cells = {}

    def walk(nodes, dd, off):
        # dd = remaining depth of these nodes
        for node in nodes:
            if dd == 1:
                cells[(off, depth - 1)] = node
                off += 1
            else:
                lbl, sub = node
                cells[(off, depth - dd)] = lbl
                off = walk(sub, dd - 1, off)
        return off

    n = walk(d["cats"], depth, 0)
    return depth, n, cells


def build_cat_chart_data(d):
    from pptx.chart.data import CategoryChartData

    cd = CategoryChartData()
    depth = d["depth"]
    if depth == 1:
        cd.categories = list(d["cats"])
    else:
        def add(parent_add, nodes, dd):
            for node in nodes:
                if dd == 1:
                    parent_add(node)
                else:
                    lbl, sub = node
                    c = parent_add(lbl)
                    add(c.add_sub_category, sub, dd - 1)
        add(cd.add_category, d["cats"], depth)
    if d.get("catfmt") is not None:
        cd.categories.number_format = d["catfmt"]
    for name, vals, fmt in cat_series_list(d):
        cd.add_series(name, list(vals), fmt)
    return cd


# --------------------------------------------------------------------------------------------- XY / bubble data

@st.composite
def xy_data(draw, bubble=False, min_series=0, calm=False):
    ns = draw(st.one_of(st.integers(min_series, 4), st.integers(min_series, 4), st.integers(5, 12)))
    txt = st.one_of(calm_text, st.none()) if calm else name_text
    coord = st.one_of(number, number, number, number, st.none())
    series = []
    for _ in range(ns):
        npt = draw(st.sampled_from([0, 0, 1, 1, 2, 3, 4]))
        pts = []
        for _j in range(npt):
            p = [draw(coord), draw(coord)]
            if bubble:
                p.append(draw(coord))
            pts.append(p)
        extra = draw(st.sampled_from([0, 0, 0, 1, 2, 5, 17, 36]))
        series.append([draw(txt), pts, extra, draw(st.sampled_from(NUMFMTS))])
    return {"series": series}


def xy_series_list(d, bubble):
    """-> [(name, [[x, y(, size)], ...], numfmt)]"""
    out = []
    for si, (name, pts, extra, fmt) in enumerate(d["series"]):
        pp = [list(p) for p in pts]
        for j in range(extra):
            p = [100 * si + j + 0.5, -(100 * si + j)]
            if bubble:
                p.append(j + 1)
            pp.append(p)
        out.append([name, pp, fmt])
    return out


def build_xy_chart_data(d, bubble):
    from pptx.chart.data import BubbleChartData, XyChartData

    cd = BubbleChartData() if bubble else XyChartData()
    for name, pts, fmt in xy_series_list(d, bubble):
        s = cd.add_series(name, fmt)
        for p in pts:
            s.add_data_point(*p)
    return cd


def build_chart_data(kind, d):
    if kind == "cat":
        return build_cat_chart_data(d)
    return build_xy_chart_data(d, kind == "bubble")


# --------------------------------------------------------------------------------------------- whole cases

def _data(kind, **kw):
    if kind == "cat":
        return cat_data(**kw)
    kw.pop("bulk", None)
    kw.pop("min_date", None)
    return xy_data(bubble=(kind == "bubble"), **kw)


@st.composite
def cases(draw, corpus_table, big=False):
    """corpus_table: {kind: [[deck, slide_idx, chart_no], ...]} of corpus charts holding >= 1 series."""
    kind = draw(st.sampled_from(["cat", "cat", "cat", "xy", "bubble"]))
    start = draw(st.sampled_from(["new", "new", "new", "new", "corpus", "placeholder"]))
    if start == "corpus" and not corpus_table.get(kind):
        start = "new"
    nrep = draw(st.sampled_from([0, 1, 1, 2, 3]))
    mods = {"date1904": False, "noext": False, "reopen": False}
    if start == "corpus":
        nrep = max(nrep, 1)
        start = ["corpus"] + list(draw(st.sampled_from(corpus_table[kind])))
    if nrep:
        mods["date1904"] = draw(st.sampled_from([False, False, False, True]))
        mods["noext"] = draw(st.sampled_from([False, False, False, False, True]))
        mods["reopen"] = mods["date1904"] or mods["noext"] or draw(st.sampled_from([False, False, True]))
    if kind == "cat":
        ctype = draw(st.sampled_from(CAT_TYPES + CAT_TYPES + PIE_TYPES))
    elif kind == "xy":
        ctype = draw(st.sampled_from(XY_TYPES))
    else:
        ctype = draw(st.sampled_from(BUBBLE_TYPES))
    min_date = dt.date(1904, 1, 1) if mods["date1904"] else dt.date(1900, 1, 1)
    datas = []
    nstates = nrep + (0 if isinstance(start, list) else 1)
    # 700-class charts: every state of the case is big (growing a small chart to 700 series by replace_data
    # costs seconds in the library's quadratic clone loop; the grid job does that transition deterministically)
    bigcase = big and kind == "cat" and not isinstance(start, list) and draw(st.integers(0, 2)) == 0
    for i in range(nstates):
        is_add = (i == 0 and not isinstance(start, list))
        # the state a replace_data starts from must hold a series (F19 is C07's); pie/doughnut need >= 1
        need = 1 if (not is_add or nrep or ctype in PIE_TYPES) else 0
        bulk = draw(st.sampled_from([699, 700, 701, 702, 703])) if bigcase else None
        datas.append(draw(_data(kind, bulk=bulk, min_date=min_date, min_series=need)))
    if start == "new":
        # an embedded .xlsx OLE object added before the chart: it shares the "Microsoft_Excel_Sheet%d.xlsx"
        # part-name space with chart workbooks
        mods["ole_first"] = draw(st.sampled_from([False, False, False, True]))
    return {"kind": kind, "type": ctype, "start": start, "mods": mods, "datas": datas}
