"""C20 helper: independent reader of the transitional XSDs and presetShapeDefinitions.xml.

Nothing here imports pptx. The XSD side answers two questions:
  * which simple type does the schema give attribute @A of element {ns}E (all declarations of an
    element with that local name in the schema document whose targetNamespace is ns)?
  * which enumeration tokens does that simple type allow (following restriction bases and unions)?
"""
import os

from lxml import etree

XS = "http://www.w3.org/2001/XMLSchema"
_X = "{%s}" % XS
DML = "http://schemas.openxmlformats.org/drawingml/2006/main"


def spec_dir(repo):
    return os.path.join(repo, "spec")


class Schemas:
    def __init__(self, repo):
        d = os.path.join(repo, "spec", "ISO-IEC-29500-4", "xsd")
        self.docs = {}  # targetNamespace -> root
        for fn in sorted(os.listdir(d)):
            if not fn.endswith(".xsd"):
                continue
            root = etree.parse(os.path.join(d, fn)).getroot()
            tns = root.get("targetNamespace")
            if tns and tns not in self.docs:
                self.docs[tns] = root
        self._ct = {}
        self._st = {}
        self._ag = {}
        for tns, root in self.docs.items():
            for e in root:
                if not isinstance(e.tag, str):
                    continue
                n = e.get("name")
                if e.tag == _X + "complexType":
                    self._ct[(tns, n)] = e
                elif e.tag == _X + "simpleType":
                    self._st[(tns, n)] = e
                elif e.tag == _X + "attributeGroup":
                    self._ag[(tns, n)] = e

    # ---- QName resolution relative to the element that carries it
    @staticmethod
    def _qname(elm, q):
        if ":" in q:
            pfx, local = q.split(":", 1)
            return elm.nsmap.get(pfx), local
        # unprefixed: default namespace of the schema document (these XSDs declare xmlns=tns)
        return elm.nsmap.get(None), q

    def element_types(self, ns, local):
        """set of (tns, complexTypeName) over every declaration <xs:element name=local type=..>."""
        root = self.docs[ns]
        out = set()
        for e in root.iter(_X + "element"):
            if e.get("name") == local and e.get("type"):
                out.add(self._qname(e, e.get("type")))
        return out

    def _attrs_of(self, tns, ctname, seen=None):
        """{attr name: attribute element} of a complex type incl. extension bases and groups."""
        seen = seen or set()
        if (tns, ctname) in seen:
            return {}
        seen.add((tns, ctname))
        ct = self._ct.get((tns, ctname))
        if ct is None:
            return {}
        out = {}

        def walk(node):
            for ch in node:
                if not isinstance(ch.tag, str):
                    continue
                if ch.tag == _X + "attribute":
                    if ch.get("name"):
                        out[ch.get("name")] = ch
                    elif ch.get("ref"):
                        out[ch.get("ref")] = ch
                elif ch.tag == _X + "attributeGroup" and ch.get("ref"):
                    g = self._ag.get(self._qname(ch, ch.get("ref")))
                    if g is not None:
                        walk(g)
                elif ch.tag in (_X + "complexContent", _X + "simpleContent"):
                    walk(ch)
                elif ch.tag in (_X + "extension", _X + "restriction"):
                    b = ch.get("base")
                    if b:
                        bns, bl = self._qname(ch, b)
                        if bns != XS:
                            for k, v in self._attrs_of(bns, bl, seen).items():
                                out.setdefault(k, v)
                    walk(ch)

        walk(ct)
        return out

    def attribute_decl(self, ns, local, attr):
        """-> list of dicts(type=(tns,name), default, use, ctype) one per distinct declaration."""
        res = []
        for tns, ctname in sorted(self.element_types(ns, local), key=str):
            a = self._attrs_of(tns, ctname).get(attr)
            if a is None or not a.get("type"):
                res.append({"ctype": ctname, "type": None, "default": None, "use": None})
                continue
            res.append({"ctype": ctname, "type": self._qname(a, a.get("type")),
                        "default": a.get("default"), "use": a.get("use")})
        return res

    def enumeration(self, tns, name, seen=None):
        """-> (list of tokens in schema order, or None when the type has no enumeration facet;
        primitive base local name)."""
        if tns == XS:
            return None, name
        seen = seen or set()
        if (tns, name) in seen:
            return None, None
        seen.add((tns, name))
        st = self._st.get((tns, name))
        if st is None:
            raise KeyError("simple type %s in %s not found" % (name, tns))
        for ch in st:
            if ch.tag == _X + "restriction":
                toks = [e.get("value") for e in ch if e.tag == _X + "enumeration"]
                bns, bl = self._qname(ch, ch.get("base"))
                if toks:
                    return toks, bl
                return self.enumeration(bns, bl, seen)
            if ch.tag == _X + "union":
                toks = []
                ok = False
                for q in (ch.get("memberTypes") or "").split():
                    t, _ = self.enumeration(*self._qname(ch, q), seen=seen)
                    if t is None:
                        return None, "union"
                    ok = True
                    toks += t
                return (toks if ok else None), "union"
        return None, None


def preset_definitions(repo):
    """-> {preset name: [(gd name, fmla), ...]} from the standard's presetShapeDefinitions.xml"""
    p = os.path.join(repo, "spec", "ISO-IEC-29500-1", "schemas", "dml-geometries",
                     "OfficeOpenXML-DrawingMLGeometries", "presetShapeDefinitions.xml")
    root = etree.parse(p).getroot()
    out = {}
    for c in root:
        if not isinstance(c.tag, str):
            continue
        av = c.find("{%s}avLst" % DML)
        gds = [] if av is None else [(g.get("name"), g.get("fmla")) for g in av.findall("{%s}gd" % DML)]
        out[etree.QName(c).localname] = gds
    return out
