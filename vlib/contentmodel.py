"""XSD content-model and simple-type extraction (independent of python-pptx).

Parses the ISO 29500-4 transitional XSDs (+ the OPC ones) into particle trees per complex type and
compiles a *relaxed* regular expression (every minOccurs -> 0) over child-tag tokens: it judges order
and maximum cardinality only, never required-ness.
"""
from __future__ import annotations

import os
import re

from lxml import etree

from .core import REPO

XS = "http://www.w3.org/2001/XMLSchema"
XSD_DIRS = [os.path.join(REPO, "spec", "ISO-IEC-29500-4", "xsd"),
            os.path.join(REPO, "spec", "ISO-IEC-29500-2", "opc-xsd")]
SKIP_FILES = {"opc-coreProperties.xsd", "opc-digSig.xsd"}


def Q(n):
    return "{%s}%s" % (XS, n)


_PARTICLE_TAGS = (Q("sequence"), Q("choice"), Q("all"), Q("element"), Q("group"), Q("any"))
_MODEL_TAGS = (Q("sequence"), Q("choice"), Q("all"), Q("group"))


class Schemas:
    def __init__(self):
        self.types = {}      # (ns,name) -> complexType element
        self.stypes = {}     # (ns,name) -> simpleType element
        self.groups = {}
        self.elems = {}      # global elements
        self.roots = []
        for d in XSD_DIRS:
            for fn in sorted(os.listdir(d)):
                if not fn.endswith(".xsd") or fn in SKIP_FILES:
                    continue
                root = etree.parse(os.path.join(d, fn)).getroot()
                self.roots.append(root)
                tns = root.get("targetNamespace")
                for ch in root:
                    if not isinstance(ch.tag, str):
                        continue
                    n = ch.get("name")
                    if ch.tag == Q("complexType"):
                        self.types[(tns, n)] = ch
                    elif ch.tag == Q("simpleType"):
                        self.stypes[(tns, n)] = ch
                    elif ch.tag == Q("group"):
                        self.groups[(tns, n)] = ch
                    elif ch.tag == Q("element"):
                        self.elems[(tns, n)] = ch
        self._content_cache = {}

    @staticmethod
    def qname(elem, s):
        if ":" in s:
            p, l = s.split(":")
            return (elem.nsmap[p], l)
        return (elem.nsmap.get(None), s)

    @staticmethod
    def tns(elem):
        return elem.getroottree().getroot().get("targetNamespace")

    # particle: ('seq',[..],min,max) ('choice',[..],min,max) ('el',(ns,name),type,min,max) ('any',min,max)
    def particle(self, node):
        mn = int(node.get("minOccurs", "1"))
        mx = node.get("maxOccurs", "1")
        mx = None if mx == "unbounded" else int(mx)
        t = node.tag
        if t in (Q("sequence"), Q("choice"), Q("all")):
            kids = [self.particle(c) for c in node if isinstance(c.tag, str) and c.tag in _PARTICLE_TAGS]
            return ("choice" if t == Q("choice") else "seq", kids, mn, mx)
        if t == Q("group"):
            g = self.groups[self.qname(node, node.get("ref"))]
            inner = [c for c in g if isinstance(c.tag, str) and c.tag in _MODEL_TAGS[:3]][0]
            return ("seq", [self.particle(inner)], mn, mx)
        if t == Q("element"):
            if node.get("ref"):
                qn = self.qname(node, node.get("ref"))
                ge = self.elems[qn]
                ty = self.qname(ge, ge.get("type")) if ge.get("type") else None
                return ("el", qn, ty, mn, mx)
            ty = self.qname(node, node.get("type")) if node.get("type") else None
            return ("el", (self.tns(node), node.get("name")), ty, mn, mx)
        if t == Q("any"):
            return ("any", mn, mx)
        raise ValueError(t)

    def content(self, tyq):
        """particle tree of a complex type (None if unknown or simple content)."""
        if tyq in self._content_cache:
            return self._content_cache[tyq]
        ct = self.types.get(tyq)
        if ct is None:
            self._content_cache[tyq] = None
            return None
        parts = []
        for c in ct:
            if not isinstance(c.tag, str):
                continue
            if c.tag in _MODEL_TAGS:
                parts.append(self.particle(c))
            elif c.tag == Q("complexContent"):
                for e in c:
                    if e.tag in (Q("extension"), Q("restriction")):
                        base = self.qname(e, e.get("base"))
                        if e.tag == Q("extension"):
                            b = self.content(base)
                            if b:
                                parts.append(b)
                        for cc in e:
                            if isinstance(cc.tag, str) and cc.tag in _MODEL_TAGS:
                                parts.append(self.particle(cc))
        res = ("seq", parts, 1, 1)
        self._content_cache[tyq] = res
        return res

    def element_types(self):
        """(ns,name) -> set of complex-type qnames the XSDs declare for that element name."""
        out = {}
        for root in self.roots:
            tns = root.get("targetNamespace")
            for e in root.iter(Q("element")):
                if e.get("name") and e.get("type"):
                    out.setdefault((tns, e.get("name")), set()).add(self.qname(e, e.get("type")))
        return out

    # ------------------------------------------------------------- attributes
    def attributes(self, tyq, _seen=None):
        """attribute name (unqualified or Clark) -> (type qname, use) incl. base types and groups."""
        out = {}
        ct = self.types.get(tyq)
        if ct is None:
            return out
        self._collect_attrs(ct, out)
        return out

    def _collect_attrs(self, node, out):
        for c in node:
            if not isinstance(c.tag, str):
                continue
            if c.tag == Q("attribute"):
                if c.get("ref"):
                    qn = self.qname(c, c.get("ref"))
                    out["{%s}%s" % qn] = (None, c.get("use", "optional"))
                elif c.get("type"):
                    out[c.get("name")] = (self.qname(c, c.get("type")), c.get("use", "optional"))
            elif c.tag == Q("attributeGroup") and c.get("ref"):
                qn = self.qname(c, c.get("ref"))
                for root in self.roots:
                    if root.get("targetNamespace") != qn[0]:
                        continue
                    for g in root:
                        if g.tag == Q("attributeGroup") and g.get("name") == qn[1]:
                            self._collect_attrs(g, out)
            elif c.tag in (Q("complexContent"), Q("simpleContent")):
                for e in c:
                    if e.tag in (Q("extension"), Q("restriction")):
                        base = self.qname(e, e.get("base"))
                        if base in self.types:
                            self._collect_attrs(self.types[base], out)
                        self._collect_attrs(e, out)

    # ------------------------------------------------------------- simple types
    def enumeration(self, tyq, _depth=0):
        """set of enumeration tokens of a simple type (following restriction bases / unions)."""
        st = self.stypes.get(tyq)
        if st is None or _depth > 6:
            return None
        vals = set()
        found = False
        for r in st.iter(Q("restriction")):
            en = [e.get("value") for e in r if e.tag == Q("enumeration")]
            if en:
                vals.update(en)
                found = True
            elif r.get("base"):
                b = self.enumeration(self.qname(r, r.get("base")), _depth + 1)
                if b:
                    vals.update(b)
                    found = True
        for u in st.iter(Q("union")):
            for mt in (u.get("memberTypes") or "").split():
                b = self.enumeration(self.qname(u, mt), _depth + 1)
                if b:
                    vals.update(b)
                    found = True
        return vals if found else None

    def facets(self, tyq, _depth=0):
        """-> dict(base=primitive qname, min=, max=, enum=, patterns=[...], union=[member facets])"""
        st = self.stypes.get(tyq)
        if st is None:
            return {"base": tyq}
        out = {}
        r = st.find(Q("restriction"))
        if r is not None:
            base = self.qname(r, r.get("base"))
            out = dict(self.facets(base, _depth + 1)) if _depth < 8 else {"base": base}
            for f in r:
                if not isinstance(f.tag, str):
                    continue
                n = etree.QName(f).localname
                v = f.get("value")
                if n == "minInclusive":
                    out["min"] = v
                elif n == "maxInclusive":
                    out["max"] = v
                elif n == "minExclusive":
                    out["minx"] = v
                elif n == "maxExclusive":
                    out["maxx"] = v
                elif n == "enumeration":
                    out.setdefault("enum", []).append(v)
                elif n == "pattern":
                    out.setdefault("patterns", []).append(v)
                elif n in ("length", "minLength", "maxLength"):
                    out[n] = v
            return out
        u = st.find(Q("union"))
        if u is not None:
            members = [self.facets(self.qname(u, mt), _depth + 1) for mt in (u.get("memberTypes") or "").split()]
            return {"union": members}
        l = st.find(Q("list"))
        if l is not None:
            return {"list": self.facets(self.qname(l, l.get("itemType")), _depth + 1)}
        return {"base": tyq}


# ------------------------------------------------------------------- particle helpers

def names(p, acc=None):
    acc = [] if acc is None else acc
    if p[0] == "el":
        acc.append(p[1])
    elif p[0] in ("seq", "choice"):
        for k in p[1]:
            names(k, acc)
    return acc


def to_regex(p, code, relax=True):
    k = p[0]
    if k == "el":
        body = re.escape(code(p[1]))
        mn, mx = p[3], p[4]
    elif k == "any":
        body = "￿"
        mn, mx = p[1], p[2]
    else:
        subs = [to_regex(s, code, relax) for s in p[1]]
        body = "(?:" + ("".join(subs) if k == "seq" else "|".join(subs) if subs else "") + ")"
        mn, mx = p[2], p[3]
    if relax:
        mn = 0
    if mx is None:
        q = "*" if mn == 0 else "+"
    elif mx == 1:
        q = "?" if mn == 0 else ""
    else:
        q = "{%d,%d}" % (mn, mx)
    return "(?:%s)%s" % (body, q)


class Model:
    """Compiled relaxed content model of one complex type."""

    def __init__(self, schemas, tyq):
        self.tyq = tyq
        self.cm = schemas.content(tyq)
        self.names = list(dict.fromkeys(names(self.cm))) if self.cm else []
        self.codes = {n: chr(0x100 + i) for i, n in enumerate(self.names)}
        self.has_any = self.cm is not None and "any" in repr(self.cm)
        self.rx = re.compile(to_regex(self.cm, lambda n: self.codes[n])) if self.cm else None
        self.rx_strict = re.compile(to_regex(self.cm, lambda n: self.codes[n], relax=False)) if self.cm else None

    def encode(self, seq):
        """seq of (ns,name) -> token string, None if a name is not part of this model."""
        try:
            return "".join(self.codes[s] for s in seq)
        except KeyError:
            return None

    def accepts(self, seq):
        s = self.encode(seq)
        return s is not None and self.rx.fullmatch(s) is not None

    def accepts_strict(self, seq):
        s = self.encode(seq)
        return s is not None and self.rx_strict.fullmatch(s) is not None

    def admits_somewhere_strict(self, ctx, child):
        s = self.encode(ctx)
        c = self.codes.get(child)
        if s is None or c is None:
            return False
        return any(self.rx_strict.fullmatch(s[:j] + c + s[j:]) for j in range(len(s) + 1))

    def required_items(self):
        """list of (set of names any of which satisfies the item, default sequence to insert, count needed)"""
        def rec(p):
            k = p[0]
            if k == "el":
                return [({p[1]}, [p[1]] * p[3], p[3])] if p[3] >= 1 else []
            if k == "any":
                return []
            if p[2] < 1:
                return []
            if k == "seq":
                out = []
                for s in p[1]:
                    out += rec(s)
                return out
            # choice, required: satisfied by any member; default = cheapest alternative
            alts = []
            for s in p[1]:
                r = rec(s)
                seq = []
                for item in r:
                    seq += item[1]
                if not seq:
                    nm = names(s)
                    if not nm:
                        return []  # an alternative that can be empty (e.g. xsd:any) - nothing required
                    if s[0] == "el":
                        seq = [s[1]]
                    elif r == [] and s[0] in ("seq", "choice") and s[2] < 1:
                        return []  # optional alternative: choice satisfied by nothing
                    else:
                        seq = [nm[0]]
                alts.append(seq)
            if not alts:
                return []
            alts.sort(key=len)
            return [(set(names(p)), alts[0], 1)]
        return rec(self.cm) if self.cm else []

    def complete(self, ctx, child):
        """Extend `ctx` with the required siblings it lacks (so that a schema-valid parent results once
        `child` is present). Returns the extended context or None if no strictly valid one was found."""
        cur = list(ctx)
        for sat, default, need in self.required_items():
            have = sum(1 for x in cur if x in sat) + (1 if child in sat else 0)
            if have >= need:
                continue
            for nm in default[: need - have] if len(sat) == 1 else default:
                placed = False
                for j in range(len(cur), -1, -1):
                    cand = cur[:j] + [nm] + cur[j:]
                    if self.accepts(cand) and self.admits_somewhere(cand, child):
                        cur = cand
                        placed = True
                        break
                if not placed:
                    return None
        return cur

    def admits_somewhere(self, ctx, child):
        s = self.encode(ctx)
        c = self.codes.get(child)
        if s is None or c is None:
            return False
        return any(self.rx.fullmatch(s[:j] + c + s[j:]) for j in range(len(s) + 1))

    def canon(self, pick=None):
        """one maximal child sequence: every sequence member once; for a choice the alternative
        containing `pick` (else the first)."""
        def rec(p):
            k = p[0]
            if k == "el":
                return [p[1]]
            if k == "any":
                return []
            if k == "seq":
                r = []
                for s in p[1]:
                    r += rec(s)
                return r
            for s in p[1]:
                if pick in names(s):
                    return rec(s)
            return rec(p[1][0]) if p[1] else []
        return rec(self.cm) if self.cm else []

    def repeatable(self):
        """names that can occur more than once (inside an unbounded/maxOccurs>1 particle)."""
        out = set()

        def rec(p, rep):
            k = p[0]
            if k == "el":
                if rep or p[4] is None or p[4] > 1:
                    out.add(p[1])
            elif k in ("seq", "choice"):
                r = rep or p[3] is None or p[3] > 1
                for s in p[1]:
                    rec(s, r)
        if self.cm:
            rec(self.cm, False)
        return out
