"""The repository's corpus of decks (paths relative to the repo root, sorted, deterministic)."""
import glob
import os

from .core import REPO, HarnessError


def corpus_decks():
    out = []
    for pat in ("features/steps/test_files/*.pptx", "tests/test_files/*.pptx", "src/pptx/templates/default.pptx"):
        out += sorted(glob.glob(os.path.join(REPO, pat)))
    if len(out) < 20:
        raise HarnessError("corpus not found under %s" % REPO)
    return [os.path.relpath(p, REPO) for p in out]


def dir_packages():
    out = []
    for p in ("tests/test_files/expanded_pptx", "features/steps/test_files/extracted-pptx"):
        full = os.path.join(REPO, p)
        if os.path.isdir(full):
            # the package root is the directory holding [Content_Types].xml
            for root, _d, files in os.walk(full):
                if "[Content_Types].xml" in files:
                    out.append(os.path.relpath(root, REPO))
    return sorted(out)


def path(rel):
    return os.path.join(REPO, rel)
