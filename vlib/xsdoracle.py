"""ISO/IEC 29500 transitional XSD oracle (libxml2 via lxml), with markup-compatibility preprocessing.

`errors(blob_or_element)` returns a *set* of normalised error records so "no new errors" can be
computed between two states of the same part.
"""
from __future__ import annotations

import copy
import os
import re
import shutil
import tempfile

from lxml import etree

from .core import REPO, VERIF, HarnessError

XD = os.path.join(REPO, "spec", "ISO-IEC-29500-4", "xsd") + os.sep
OPCXD = os.path.join(REPO, "spec", "ISO-IEC-29500-2", "opc-xsd") + os.sep

NS_P = "http://schemas.openxmlformats.org/presentationml/2006/main"
NS_A = "http://schemas.openxmlformats.org/drawingml/2006/main"
NS_C = "http://schemas.openxmlformats.org/drawingml/2006/chart"
NS_R = "http://schemas.openxmlformats.org/officeDocument/2006/relationships"
NS_MC = "http://schemas.openxmlformats.org/markup-compatibility/2006"
NS_CT = "http://schemas.openxmlformats.org/package/2006/content-types"
NS_REL = "http://schemas.openxmlformats.org/package/2006/relationships"
NS_CP = "http://schemas.openxmlformats.org/package/2006/metadata/core-properties"
NS_EP = "http://schemas.openxmlformats.org/officeDocument/2006/extended-properties"

MAIN_NS = {NS_P, NS_A, NS_C}

_cache = {}


def _main_schema():
    if "main" not in _cache:
        wrapper = (
            '<xsd:schema xmlns:xsd="http://www.w3.org/2001/XMLSchema" targetNamespace="urn:verif:wrapper">'
            '<xsd:import namespace="%s" schemaLocation="%spml.xsd"/>'
            '<xsd:import namespace="%s" schemaLocation="%sdml-main.xsd"/>'
            '<xsd:import namespace="%s" schemaLocation="%sdml-chart.xsd"/>'
            '<xsd:import namespace="%s" schemaLocation="%sshared-documentPropertiesExtended.xsd"/>'
            "</xsd:schema>" % (NS_P, XD, NS_A, XD, NS_C, XD, NS_EP, XD)
        )
        try:
            _cache["main"] = etree.XMLSchema(etree.fromstring(wrapper))
        except etree.XMLSchemaParseError as e:
            raise HarnessError("ISO schemas do not compile: %s" % e)
    return _cache["main"]


def _opc_schema(which):
    key = "opc-" + which
    if key not in _cache:
        if which == "coreProperties":
            _cache[key] = _coreprops_schema()
        else:
            _cache[key] = etree.XMLSchema(etree.parse(OPCXD + "opc-%s.xsd" % which))
    return _cache[key]


def _coreprops_schema():
    """opc-coreProperties.xsd imports Dublin Core by URL; patch to the local stubs."""
    tmp = tempfile.mkdtemp(prefix="verif-xsd-")
    try:
        for f in ("dc.xsd", "dcterms.xsd", "xml.xsd"):
            shutil.copy(os.path.join(VERIF, "schemas", f), tmp)
        src = etree.parse(OPCXD + "opc-coreProperties.xsd")
        XS = "{http://www.w3.org/2001/XMLSchema}"
        m = {"http://purl.org/dc/elements/1.1/": "dc.xsd", "http://purl.org/dc/terms/": "dcterms.xsd",
             "http://www.w3.org/XML/1998/namespace": "xml.xsd"}
        for imp in src.getroot().iter(XS + "import"):
            imp.set("schemaLocation", os.path.join(tmp, m[imp.get("namespace")]))
        return etree.XMLSchema(src)
    finally:
        shutil.rmtree(tmp, ignore_errors=True)


# --------------------------------------------------------------------------- MCE preprocessing

def mce(root):
    """In-place markup-compatibility preprocessing for a consumer that understands no extension
    namespace: AlternateContent -> Fallback content; Ignorable namespaces' elements and attributes
    and all mc:* attributes removed."""
    for ac in list(root.iter("{%s}AlternateContent" % NS_MC)):
        parent = ac.getparent()
        if parent is None:
            continue
        fb = ac.find("{%s}Fallback" % NS_MC)
        idx = parent.index(ac)
        kids = list(fb) if fb is not None else []
        for k in reversed(kids):
            parent.insert(idx + 1, k)
        parent.remove(ac)
    ign = set()
    for el in root.iter():
        if not isinstance(el.tag, str):
            continue
        v = el.get("{%s}Ignorable" % NS_MC)
        if v:
            for p in v.split():
                if p in el.nsmap:
                    ign.add(el.nsmap[p])
    for el in list(root.iter()):
        if not isinstance(el.tag, str):
            continue
        for a in list(el.attrib):
            if a.startswith("{" + NS_MC + "}") or (a.startswith("{") and a[1:a.index("}")] in ign):
                del el.attrib[a]
    for el in list(root.iter()):
        if not isinstance(el.tag, str):
            continue
        if etree.QName(el).namespace in ign and el.getparent() is not None:
            el.getparent().remove(el)
    return root


_NUM = re.compile(r"'-?\d{5,}'")
_SP = re.compile(r"\s+")


def _norm(msg):
    # drop the specific large numbers so the same defect on two shapes is one record
    return _SP.sub(" ", _NUM.sub("'N'", msg))[:300]


def parse(blob):
    if isinstance(blob, (bytes, str)):
        return etree.fromstring(blob if isinstance(blob, bytes) else blob.encode("utf-8"))
    # element: re-serialise so pptx custom element classes are out of the picture
    return etree.fromstring(etree.tostring(blob))


def schema_for(root):
    ns = etree.QName(root).namespace
    if ns in MAIN_NS or ns == NS_EP:
        return _main_schema()
    if ns == NS_CT:
        return _opc_schema("contentTypes")
    if ns == NS_REL:
        return _opc_schema("relationships")
    if ns == NS_CP:
        return _opc_schema("coreProperties")
    return None


def errors(blob, with_paths=False):
    """-> set of normalised error strings, or None when no schema covers the root namespace."""
    root = parse(blob)
    schema = schema_for(root)
    if schema is None:
        return None
    root = mce(root)
    # re-parse after MCE so namespace fixups are applied consistently
    if schema.validate(root):
        return set()
    out = set()
    for e in schema.error_log:
        m = _norm(e.message)
        # location class: last three steps of the element path, positional predicates and prefixes dropped
        steps = [re.sub(r"\[\d+\]", "", st).split(":")[-1] for st in (e.path or "").split("/") if st]
        m = "%s @%s" % (m, "/".join(steps[-3:]))
        if with_paths:
            m = "%s [%s]" % (m, e.path)
        out.add(m)
    return out


def error_kinds(errs):
    """Coarser record (element/attribute names only) used for finding keys."""
    out = set()
    for e in errs:
        loc = ""
        if " @" in e:
            e, loc = e.rsplit(" @", 1)
        m = re.findall(r"\}(\w+)'", e)
        attr = re.findall(r"attribute '(\w+)'", e)
        kind = ("order" if "This element is not expected" in e or "Missing child" in e
                else "attr" if "attribute" in e else "value" if "is not a valid value" in e or "facet" in e
                else "other")
        names = "/".join(dict.fromkeys(m[:1] + attr))[:60]
        out.add("%s:%s@%s" % (kind, names, loc) if loc else "%s:%s" % (kind, names))
    return out


def validate_simple(type_qname_ns, type_name, lexical):
    """Validate a lexical value against a named XSD simple type (probe element trick)."""
    key = ("simple", type_qname_ns, type_name)
    if key not in _cache:
        loc = {NS_A: "dml-main.xsd", NS_P: "pml.xsd", NS_C: "dml-chart.xsd",
               "http://schemas.openxmlformats.org/officeDocument/2006/sharedTypes": "shared-commonSimpleTypes.xsd",
               NS_R: "shared-relationshipReference.xsd"}.get(type_qname_ns)
        if type_qname_ns == "http://www.w3.org/2001/XMLSchema":
            xsd = ('<xsd:schema xmlns:xsd="http://www.w3.org/2001/XMLSchema">'
                   '<xsd:element name="probe"><xsd:complexType><xsd:attribute name="v" type="xsd:%s"/>'
                   "</xsd:complexType></xsd:element></xsd:schema>" % type_name)
        else:
            if loc is None:
                raise HarnessError("no schema file for namespace %s" % type_qname_ns)
            xsd = ('<xsd:schema xmlns:xsd="http://www.w3.org/2001/XMLSchema" xmlns:t="%s">'
                   '<xsd:import namespace="%s" schemaLocation="%s%s"/>'
                   '<xsd:element name="probe"><xsd:complexType><xsd:attribute name="v" type="t:%s"/>'
                   "</xsd:complexType></xsd:element></xsd:schema>"
                   % (type_qname_ns, type_qname_ns, XD, loc, type_name))
        _cache[key] = etree.XMLSchema(etree.fromstring(xsd))
    s = _cache[key]
    el = etree.Element("probe")
    el.set("v", lexical)
    return bool(s.validate(el))
