"""C14 reference model (pure Python, no pptx import): a table is a grid r x c, a set of disjoint
merged rectangles and, per grid cell, the list of its non-empty paragraph texts.

Also the case language and the Hypothesis strategy for the random part. The strategy simulates
the model while it draws, so that ops are built by construction (split of an existing origin, merge
touching an existing rectangle, ...) instead of filtered.

Case (JSON-like):
  {"tables": [spec, ...], "ops": [op, ...]}
  spec = {"how": "add", "rows", "cols", "w", "h"}            shapes.add_table
       | {"how": "ph",  "rows", "cols", "phw": int | None}   TablePlaceholder.insert_table
                                                             (phw: width assigned to the placeholder first)
  op   = ["merge", t1, r1, c1, t2, r2, c2, acc]   table(t1).cell(r1,c1).merge(table(t2).cell(r2,c2))
       | ["split", t, r, c, acc]
       | ["text",  t, r, c, s]                     cell.text = s
       | ["para",  t, r, c, s]                     cell.text_frame.add_paragraph().text = s  (s has no "\n")
       | ["rowh",  t, i, emu] | ["colw", t, j, emu] | ["frame", t, 0=height|1=width, emu]
  acc selects how the _Cell proxy is obtained: 0 table.cell(), 1 table.rows[r].cells[c], 2 iter_cells().
"""


class TModel(object):
    def __init__(self, rows, cols):
        self.r, self.c = rows, cols
        self.rects = {}  # (top, left) -> (height, width)
        self.owner = [[None] * cols for _ in range(rows)]
        self.content = [[[] for _ in range(cols)] for _ in range(rows)]
        self.colw = None  # filled from the observed table after creation (sum is checked there)
        self.rowh = None
        self.frame_w = None   # width / height the caller gave the graphic frame itself: stays until a column width /
        self.frame_h = None   # row height changes (the frame then equals the sum again)

    def copy(self):
        m = TModel.__new__(TModel)
        m.r, m.c = self.r, self.c
        m.rects = dict(self.rects)
        m.owner = [list(x) for x in self.owner]
        m.content = [[list(x) for x in row] for row in self.content]
        m.colw = None if self.colw is None else list(self.colw)
        m.rowh = None if self.rowh is None else list(self.rowh)
        m.frame_w, m.frame_h = self.frame_w, self.frame_h
        return m

    def key(self):
        return (tuple(sorted((k, v) for k, v in self.rects.items())),
                tuple(tuple(tuple(x) for x in row) for row in self.content))

    @staticmethod
    def norm(r1, c1, r2, c2):
        return min(r1, r2), min(c1, c2), max(r1, r2), max(c1, c2)

    def merge_verdict(self, r1, c1, r2, c2):
        """'overlap' (must be refused), 'noop' (1x1 on a free cell) or 'ok'."""
        t, l, b, r = self.norm(r1, c1, r2, c2)
        for i in range(t, b + 1):
            for j in range(l, r + 1):
                if self.owner[i][j] is not None:
                    return "overlap"
        if t == b and l == r:
            return "noop"
        return "ok"

    def merge(self, r1, c1, r2, c2):
        t, l, b, r = self.norm(r1, c1, r2, c2)
        moved = []
        for i in range(t, b + 1):
            for j in range(l, r + 1):
                moved += self.content[i][j]
                self.content[i][j] = []
                self.owner[i][j] = (t, l)
        self.content[t][l] = moved
        self.rects[(t, l)] = (b - t + 1, r - l + 1)

    def split_ok(self, r, c):
        return (r, c) in self.rects

    def split(self, r, c):
        h, w = self.rects.pop((r, c))
        for i in range(r, r + h):
            for j in range(c, c + w):
                self.owner[i][j] = None

    def set_text(self, r, c, s):
        self.content[r][c] = [p for p in s.split("\n") if p != ""]

    def add_para(self, r, c, s):
        if s != "":
            self.content[r][c].append(s)

    def expected_cell(self, i, j):
        """(is_origin, is_spanned, span_h, span_w) the API must report for grid cell (i, j);
        span values are None where the documentation calls them unreliable (spanned cells)."""
        o = self.owner[i][j]
        if o is None:
            return (False, False, 1, 1)
        if o == (i, j):
            h, w = self.rects[o]
            return (True, False, h, w)
        return (False, True, None, None)


def orientations(t, l, b, r):
    """distinct (r1,c1,r2,c2) corner pairs naming rectangle t,l,b,r"""
    seen = []
    for o in ((t, l, b, r), (b, r, t, l), (t, r, b, l), (b, l, t, r)):
        if o not in seen:
            seen.append(o)
    return seen


def all_rects(rows, cols):
    for t in range(rows):
        for l in range(cols):
            for b in range(t, rows):
                for r in range(l, cols):
                    yield (t, l, b, r)


# ------------------------------------------------------------------ bounded-exhaustive part

def bfs_initial_text(rows, cols, i, j):
    """distinct text per cell; one cell empty, one with two paragraphs, one with an empty first
    paragraph (the branches of CT_TableCell.append_ps_from)."""
    base = "%d%d" % (i, j)
    n = rows * cols
    idx = i * cols + j
    if n >= 2 and idx == n - 1:
        return "\n" + base
    if n >= 3 and idx == n // 2:
        return ""
    if n >= 4 and idx == 1:
        return base + "a\n" + base + "b"
    return base


def bfs_ops(rows, cols):
    """every op offered in every state: merges of every rectangle in every distinct corner-pair
    orientation, split of every cell"""
    ops = []
    for rect in all_rects(rows, cols):
        for o in orientations(*rect):
            ops.append(("merge",) + o)
    for i in range(rows):
        for j in range(cols):
            ops.append(("split", i, j))
    return ops


def bfs_apply(m, op):
    """-> (verdict, new model or same model)"""
    if op[0] == "merge":
        v = m.merge_verdict(*op[1:])
        if v != "ok":
            return v, m
        n = m.copy()
        n.merge(*op[1:])
        return "ok", n
    if not m.split_ok(op[1], op[2]):
        return "reject", m
    n = m.copy()
    n.split(op[1], op[2])
    return "ok", n


def bfs_states(rows, cols, expand_depth):
    """distinct model states reachable with <= expand_depth state-changing ops, each with one
    canonical (shortest, first-found) op path. Deterministic order."""
    m0 = TModel(rows, cols)
    for i in range(rows):
        for j in range(cols):
            m0.set_text(i, j, bfs_initial_text(rows, cols, i, j))
    ops = bfs_ops(rows, cols)
    seen = {m0.key(): 0}
    states = [(m0, [])]
    frontier = [0]
    for _ in range(expand_depth):
        nxt = []
        for idx in frontier:
            m, path = states[idx]
            for op in ops:
                # canonical orientation is enough to enumerate states
                if op[0] == "merge" and (op[1] > op[3] or op[2] > op[4]):
                    continue
                v, n = bfs_apply(m, op)
                if v != "ok":
                    continue
                k = n.key()
                if k in seen:
                    continue
                seen[k] = len(states)
                states.append((n, path + [list(op)]))
                nxt.append(seen[k])
        frontier = nxt
    return states, ops


def seq_nontrivial(kinds):
    """NT rule on a list of executed-op classes"""
    return (sum(1 for k in kinds if k == "merge-ok") >= 2
            or any(k in ("merge-overlap", "merge-cross") for k in kinds)
            or any(k.startswith("split") for k in kinds))


# ------------------------------------------------------------------ random part

WORDS = ["a", "B", "cell", "x y", "é中", "1", "<&>", "t\vu", "\vlead", "z ", " ", "\v"]


def case_strategy(max_dim=12, max_ops=15):
    from hypothesis import strategies as st

    dim = st.one_of(st.integers(1, 4), st.integers(1, max_dim), st.sampled_from([1, max_dim]))
    size = st.one_of(st.integers(1, 40), st.integers(1, 20000000),
                     st.sampled_from([914400, 8229600, 3657600, 1000003, 12192000]))
    small = st.sampled_from([1, 1, 2, 2, 2, 3, 3, 4])
    para = st.one_of(st.just(""), st.sampled_from(WORDS),
                     st.lists(st.sampled_from(WORDS), min_size=1, max_size=3).map(" ".join))
    text = st.lists(para, min_size=1, max_size=4).map("\n".join)

    @st.composite
    def build(draw):
        ntab = draw(st.sampled_from([1, 1, 2]))
        specs, models = [], []
        ph_used = False
        for _ in range(ntab):
            rows, cols = draw(dim), draw(dim)
            how = "add" if ph_used else draw(st.sampled_from(["add", "add", "ph"]))
            if how == "ph":
                ph_used = True
                phw = draw(st.one_of(st.none(), size))
                specs.append({"how": "ph", "rows": rows, "cols": cols, "phw": phw})
            else:
                w = draw(st.one_of(size, st.integers(1, 2000000).map(lambda k, c=cols: k * c)))
                h = draw(st.one_of(size, st.integers(1, 2000000).map(lambda k, r=rows: k * r)))
                specs.append({"how": "add", "rows": rows, "cols": cols, "w": w, "h": h})
            models.append(TModel(rows, cols))
        ops = []
        nops = draw(st.integers(1, max_ops))
        kinds = ["merge"] * 8 + ["split"] * 4 + ["text"] * 4 + ["para", "rowh", "colw", "frame"]
        if ntab == 2:
            kinds += ["xmerge"] * 2
        for _ in range(nops):
            kind = draw(st.sampled_from(kinds))
            t = draw(st.integers(0, ntab - 1))
            m = models[t]
            if kind == "merge":
                mode = draw(st.sampled_from(["small", "small", "small", "any", "touch"]))
                if mode == "touch" and m.rects:
                    # one corner inside an existing rectangle -> must be refused
                    (ot, ol), (oh, ow) = draw(st.sampled_from(sorted(m.rects.items())))
                    r1 = draw(st.integers(ot, ot + oh - 1))
                    c1 = draw(st.integers(ol, ol + ow - 1))
                    r2 = draw(st.integers(0, m.r - 1))
                    c2 = draw(st.integers(0, m.c - 1))
                elif mode == "any":
                    r1, r2 = draw(st.integers(0, m.r - 1)), draw(st.integers(0, m.r - 1))
                    c1, c2 = draw(st.integers(0, m.c - 1)), draw(st.integers(0, m.c - 1))
                else:
                    r1, c1 = draw(st.integers(0, m.r - 1)), draw(st.integers(0, m.c - 1))
                    r2 = min(m.r - 1, r1 + draw(small) - 1)
                    c2 = min(m.c - 1, c1 + draw(small) - 1)
                    if draw(st.booleans()):
                        r1, r2 = r2, r1
                    if draw(st.booleans()):
                        c1, c2 = c2, c1
                acc = draw(st.integers(0, 2))
                ops.append(["merge", t, r1, c1, t, r2, c2, acc])
                if m.merge_verdict(r1, c1, r2, c2) == "ok":
                    m.merge(r1, c1, r2, c2)
            elif kind == "xmerge":
                o = models[1 - t]
                ops.append(["merge", t, draw(st.integers(0, m.r - 1)), draw(st.integers(0, m.c - 1)),
                            1 - t, draw(st.integers(0, o.r - 1)), draw(st.integers(0, o.c - 1)),
                            draw(st.integers(0, 2))])
            elif kind == "split":
                if m.rects and draw(st.integers(0, 9)) < 6:
                    r, c = draw(st.sampled_from(sorted(m.rects)))
                else:
                    r, c = draw(st.integers(0, m.r - 1)), draw(st.integers(0, m.c - 1))
                ops.append(["split", t, r, c, draw(st.integers(0, 2))])
                if m.split_ok(r, c):
                    m.split(r, c)
            elif kind in ("text", "para"):
                r, c = draw(st.integers(0, m.r - 1)), draw(st.integers(0, m.c - 1))
                s = draw(text if kind == "text" else para)
                ops.append([kind, t, r, c, s])
                # (content is irrelevant for the choices made while drawing)
            elif kind == "frame":
                ops.append(["frame", t, draw(st.integers(0, 1)), draw(size)])
            elif kind == "rowh":
                ops.append(["rowh", t, draw(st.integers(0, m.r - 1)), draw(size)])
            else:
                ops.append(["colw", t, draw(st.integers(0, m.c - 1)), draw(size)])
        return {"tables": specs, "ops": ops, "hold": draw(st.sampled_from([True, True, False]))}

    return build()
