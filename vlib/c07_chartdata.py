"""Abstract chart data: JSON-able descriptions, Hypothesis strategies, builder, reference model.

Written for C07, meant to be reusable (C08).  Nothing here looks at python-pptx output; `build()` is
the only function that touches the library (it only calls the documented ChartData construction API).

Description (`desc`), all lists/dicts/scalars (+ date/datetime objects, which vlib.core serialises):

  category data
    {"kind": "category",
     "number_format": "General",             # chart-data level number format
     "label_kind": "str"|"int"|"float"|"date"|"datetime"|"tree",
     "categories": [[label, [child, ...]], ...],   # uniform depth 1..4, ragged branching;
                                                   # depth 1 = every child list empty
     "cat_api": "add"|"assign",               # depth 1 only: add_category() vs `.categories = [...]`
     "cat_number_format": None | str,         # Categories.number_format
     "series": [{"name": str, "number_format": None|str, "values": [int|float|None, ...]}, ...]}
  xy data
    {"kind": "xy", "number_format": ..., "series": [{"name", "number_format", "points": [[x, y], ...]}]}
  bubble data
    {"kind": "bubble", ..., "series": [{..., "points": [[x, y, size], ...]}]}

Numbers are finite (no NaN/inf); labels of one chart are of one type; multi-level labels are strings.
"""
from __future__ import annotations

import datetime as dt

from hypothesis import strategies as st

# --------------------------------------------------------------------------- chart types

CATEGORY_TYPES = [
    "AREA", "AREA_STACKED", "AREA_STACKED_100",
    "BAR_CLUSTERED", "BAR_STACKED", "BAR_STACKED_100",
    "COLUMN_CLUSTERED", "COLUMN_STACKED", "COLUMN_STACKED_100",
    "DOUGHNUT", "DOUGHNUT_EXPLODED",
    "LINE", "LINE_MARKERS", "LINE_MARKERS_STACKED", "LINE_MARKERS_STACKED_100", "LINE_STACKED",
    "LINE_STACKED_100",
    "PIE", "PIE_EXPLODED",
    "RADAR", "RADAR_FILLED", "RADAR_MARKERS",
]
XY_TYPES = ["XY_SCATTER", "XY_SCATTER_LINES", "XY_SCATTER_LINES_NO_MARKERS", "XY_SCATTER_SMOOTH",
            "XY_SCATTER_SMOOTH_NO_MARKERS"]
BUBBLE_TYPES = ["BUBBLE", "BUBBLE_THREE_D_EFFECT"]
WRITABLE_TYPES = CATEGORY_TYPES + XY_TYPES + BUBBLE_TYPES          # 29
PIE_TYPES = {"PIE", "PIE_EXPLODED", "DOUGHNUT", "DOUGHNUT_EXPLODED"}  # need >= 1 series

KIND_OF_TYPE = {}
for _t in CATEGORY_TYPES:
    KIND_OF_TYPE[_t] = "category"
for _t in XY_TYPES:
    KIND_OF_TYPE[_t] = "xy"
for _t in BUBBLE_TYPES:
    KIND_OF_TYPE[_t] = "bubble"


def probe_writable_types():
    """Names of the XL_CHART_TYPE members for which ChartXmlWriter does not raise
    NotImplementedError (asks the library; used to confirm WRITABLE_TYPES is the whole set)."""
    from pptx.chart.xmlwriter import ChartXmlWriter
    from pptx.enum.chart import XL_CHART_TYPE

    out = []
    for m in XL_CHART_TYPE:
        try:
            ChartXmlWriter(m, [])
        except NotImplementedError:
            continue
        out.append(m.name)
    return sorted(out)


# --------------------------------------------------------------------------- scalar strategies

# No '<', '&', '"', '>' : escaping of number-format text is a different property (C05).
NUMBER_FORMATS = [
    "General", "0", "0.00", "#,##0", "#,##0.0", "0%", "0.00%", "0.0E+00", "# ?/?", "@",
    "yyyy\\-mm\\-dd", "mm/dd/yyyy", "d\\-mmm\\-yy", "h:mm AM/PM", "[$-409]d-mmm-yy;@",
    "#,##0.00_);[Red](#,##0.00)", "$#,##0", "0.0 \\k\\g", "[Blue]0.0;[Red]-0.0;0", "0.0'x'",
    "#,##0 €",
]

_WORDS = ["West", "East", "Q1", "Q2", "Series 1", "Category 1", "alpha", "Foo Bar", "n/a", "x"]
_ODD = ["", " ", "  ", " lead", "trail ", "a b", "None", "0", "1.0", "-3", "1e5", "TRUE", "2016-12-27",
        "<", ">", "&", "\"", "'", "<a&b>", "&amp;", "&#10;", "]]>", "a\nb", "a\tb", "\n",
        "été", "中文", " ", "\U0001f600", "‮abc", "é", "=SUM(A1)",
        "Sheet1!$A$1", "x" * 300]

_text = st.one_of(
    st.sampled_from(_WORDS), st.sampled_from(_WORDS), st.sampled_from(_ODD),
    st.tuples(st.sampled_from(_WORDS), st.integers(0, 99)).map(lambda t: "%s %d" % t),
    st.lists(st.sampled_from(_WORDS + _ODD), min_size=2, max_size=3).map("".join),
    st.text(alphabet=st.characters(min_codepoint=0x20, max_codepoint=0x2FF), min_size=0, max_size=8),
)

_FLOATS = [0.0, -0.0, 1.0, -1.5, 0.1, 1 / 3.0, 2.5e-5, 1e-300, 1e300, 5e-324, 1.7976931348623157e308,
           -1.7976931348623157e308, 123456789.12345679, 1e16, 1e22, 1e23, 0.30000000000000004, 100.0]
_INTS = [0, 1, -1, 7, 42, 100, -100, 65535, 2 ** 31, -2 ** 31, 2 ** 53 + 1, 10 ** 17, -(10 ** 17)]

_finite = st.floats(allow_nan=False, allow_infinity=False)
_number = st.one_of(
    st.integers(-1000, 1000), st.integers(-1000, 1000),
    st.sampled_from(_INTS), st.sampled_from(_FLOATS),
    st.floats(-1e6, 1e6, allow_nan=False), _finite,
    st.integers(-10 ** 17, 10 ** 17),
)
_value = st.one_of(_number, _number, _number, st.none())

_number_format = st.one_of(st.none(), st.none(), st.sampled_from(NUMBER_FORMATS))
_chart_number_format = st.one_of(st.just("General"), st.just("General"), st.sampled_from(NUMBER_FORMATS))

_DATE_EDGES = [dt.date(1900, 1, 1), dt.date(1900, 1, 2), dt.date(1900, 2, 27), dt.date(1900, 2, 28),
               dt.date(1900, 3, 1), dt.date(1900, 3, 2), dt.date(1903, 12, 31), dt.date(1904, 1, 1),
               dt.date(1904, 1, 2), dt.date(1999, 12, 31), dt.date(2000, 2, 29), dt.date(2016, 12, 27),
               dt.date(2100, 12, 31), dt.date(9999, 12, 31)]
_date = st.one_of(st.sampled_from(_DATE_EDGES), st.dates(dt.date(1900, 1, 1), dt.date(2100, 12, 31)),
                  st.dates(dt.date(1900, 1, 1), dt.date(1900, 4, 1)))
_time = st.one_of(st.just(dt.time(0, 0)), st.just(dt.time(12, 0)), st.just(dt.time(23, 59, 59)),
                  st.times())


def _cycle(pool, n):
    if not pool:
        return []
    return [pool[i % len(pool)] for i in range(n)]


# --------------------------------------------------------------------------- shapes

@st.composite
def _shape(draw, min_series, max_series=50, max_points=300):
    """-> (n_series, n_points, shape class)"""
    cls = draw(st.sampled_from(["small"] * 6 + ["zero", "zero", "many", "many", "long", "tiny", "tiny", "mid", "medium-long"]))
    if cls == "zero":
        if min_series > 0:
            cls = "small"
        else:
            return 0, draw(st.integers(1, 6)), "zero"
    if cls == "small":
        return draw(st.integers(max(1, min_series), 6)), draw(st.integers(1, 8)), "small"
    if cls == "many":
        return (draw(st.integers(27, max(27, max_series))), draw(st.integers(1, 4)), "many")
    if cls == "long":
        return draw(st.integers(1, 2)), draw(st.integers(100, max(100, max_points))), "long"
    if cls == "medium-long":
        return draw(st.integers(max(1, min_series), 8)), draw(st.integers(31, min(99, max(31, max_points)))), "medium-long"
    if cls == "tiny":
        return draw(st.integers(max(1, min_series), 3)), draw(st.integers(0, 1)), "tiny"
    return draw(st.integers(7, 26)), draw(st.integers(5, 30)), "mid"


@st.composite
def _values(draw, n):
    """n values; pools are cycled so long series cost few draws."""
    if n == 0:
        return []
    mode = draw(st.sampled_from(["pool", "pool", "pool", "all-none", "no-none", "edge-none"]))
    if mode == "all-none":
        return [None] * n
    k = min(n, 10)
    if mode == "no-none":
        pool = draw(st.lists(_number, min_size=k, max_size=k))
        return _cycle(pool, n)
    pool = draw(st.lists(_value, min_size=k, max_size=k))
    vals = _cycle(pool, n)
    if mode == "edge-none":
        vals[0] = None
        vals[-1] = None
    return vals


# --------------------------------------------------------------------------- categories

@st.composite
def _flat_labels(draw, label_kind, n):
    if label_kind == "str":
        k = min(n, 10)
        pool = draw(st.lists(_text, min_size=k, max_size=k))
        if n <= 10:
            return pool
        return ["%s%d" % (pool[i % k], i) if i >= k else pool[i] for i in range(n)]
    if label_kind == "int":
        if n <= 10 and draw(st.booleans()):
            return draw(st.lists(st.one_of(st.integers(-10 ** 6, 10 ** 12), st.sampled_from(_INTS)),
                                 min_size=n, max_size=n))
        base = draw(st.integers(-50, 3000))
        step = draw(st.sampled_from([1, 1, 5, -1, 10]))
        return [base + i * step for i in range(n)]
    if label_kind == "float":
        k = min(n, 10)
        pool = draw(st.lists(st.one_of(st.sampled_from(_FLOATS), st.floats(-1e6, 1e6, allow_nan=False), _finite),
                             min_size=k, max_size=k))
        return _cycle(pool, n)
    if label_kind in ("date", "datetime"):
        if n <= 10 and draw(st.booleans()):
            ds = draw(st.lists(_date, min_size=n, max_size=n))
        else:
            base = draw(st.one_of(st.sampled_from(_DATE_EDGES[:9]), _date))
            step = draw(st.sampled_from([1, 1, 7, 31, 365]))
            ds = []
            for i in range(n):
                o = base.toordinal() + i * step
                ds.append(dt.date.fromordinal(min(o, dt.date.max.toordinal())))
        if label_kind == "date":
            return ds
        tpool = draw(st.lists(_time, min_size=1, max_size=4))
        return [dt.datetime.combine(d, tpool[i % len(tpool)]) for i, d in enumerate(ds)]
    raise ValueError(label_kind)


@st.composite
def _tree(draw, depth, top=True):
    """Uniform-depth forest [[label,[children]],...] with ragged branching."""
    n = draw(st.integers(1, 4)) if top else draw(st.sampled_from([1, 1, 2, 2, 3]))
    out = []
    for _ in range(n):
        label = draw(_text)
        kids = draw(_tree(depth - 1, top=False)) if depth > 1 else []
        out.append([label, kids])
    return out


@st.composite
def categories(draw, max_leaves=300, n_hint=None):
    """-> (label_kind, forest).  At least one category."""
    label_kind = draw(st.sampled_from(["str", "str", "str", "tree", "tree", "tree", "int", "float", "date",
                                       "date", "datetime"]))
    if label_kind == "tree":
        depth = draw(st.sampled_from([2, 2, 3, 3, 4]))
        return "tree", draw(_tree(depth))
    n = n_hint if n_hint else draw(st.integers(1, 8))
    n = max(1, min(n, max_leaves))
    labels = draw(_flat_labels(label_kind, n))
    return label_kind, [[lb, []] for lb in labels]


# --------------------------------------------------------------------------- chart data

@st.composite
def category_data(draw, min_series=0, max_series=50, max_points=300):
    ns, npts, shape = draw(_shape(min_series, max_series, max_points))
    label_kind, forest = draw(categories(max_leaves=max_points, n_hint=max(1, npts)))
    nleaf = leaf_count(forest)
    series = []
    ragged = draw(st.sampled_from([False, False, True]))   # value count differing from the category count
    for i in range(ns):
        lenmode = draw(st.sampled_from(["eq"] * 4 + ["short", "long", "empty"])) if ragged else "eq"
        n = {"eq": nleaf, "short": max(0, nleaf - draw(st.integers(1, 3))), "long": nleaf + draw(st.integers(1, 3)),
             "empty": 0}[lenmode]
        if shape == "tiny" and npts == 0:
            n = 0
        series.append({"name": draw(_text), "number_format": draw(_number_format), "values": draw(_values(n))})
    return {
        "kind": "category",
        "number_format": draw(_chart_number_format),
        "label_kind": label_kind,
        "categories": forest,
        "cat_api": draw(st.sampled_from(["add", "assign"])) if label_kind != "tree" else "add",
        "cat_number_format": draw(_number_format),
        "series": series,
    }


@st.composite
def _points(draw, n, dims):
    cols = [draw(_values(n)) for _ in range(dims)]
    return [[c[i] for c in cols] for i in range(n)]


@st.composite
def xy_data(draw, min_series=0, max_series=50, max_points=300, dims=2):
    ns, npts, shape = draw(_shape(min_series, max_series, max_points))
    series = []
    for i in range(ns):
        # unequal series lengths
        n = npts if draw(st.integers(0, 3)) else draw(st.integers(0, min(max_points, npts + 4)))
        series.append({"name": draw(_text), "number_format": draw(_number_format),
                       "points": draw(_points(n, dims))})
    return {"kind": "xy" if dims == 2 else "bubble", "number_format": draw(_chart_number_format), "series": series}


def bubble_data(min_series=0, max_series=50, max_points=300):
    return xy_data(min_series=min_series, max_series=max_series, max_points=max_points, dims=3)


def chart_data(kind, min_series=0, max_series=50, max_points=300):
    """Strategy for a description of the given kind ('category' | 'xy' | 'bubble')."""
    if kind == "category":
        return category_data(min_series, max_series, max_points)
    if kind == "xy":
        return xy_data(min_series, max_series, max_points)
    if kind == "bubble":
        return bubble_data(min_series, max_series, max_points)
    raise ValueError(kind)


# --------------------------------------------------------------------------- builder

def build(desc):
    """desc -> pptx ChartData object (CategoryChartData | XyChartData | BubbleChartData)."""
    from pptx.chart.data import BubbleChartData, CategoryChartData, XyChartData

    kind = desc["kind"]
    nf = desc.get("number_format") or "General"
    if kind == "category":
        cd = CategoryChartData(number_format=nf)
        forest = desc["categories"]
        if desc.get("cat_api") == "assign" and all(not kids for _lb, kids in forest):
            cd.categories = [lb for lb, _kids in forest]
        else:
            def add(parent_add, nodes):
                for lb, kids in nodes:
                    c = parent_add(lb)
                    add(c.add_sub_category, kids)
            add(cd.add_category, forest)
        if desc.get("cat_number_format") is not None:
            cd.categories.number_format = desc["cat_number_format"]
        for s in desc["series"]:
            cd.add_series(s["name"], list(s["values"]), s.get("number_format"))
        return cd
    if kind == "xy":
        cd = XyChartData(number_format=nf)
        for s in desc["series"]:
            sd = cd.add_series(s["name"], s.get("number_format"))
            for x, y in s["points"]:
                sd.add_data_point(x, y)
        return cd
    if kind == "bubble":
        cd = BubbleChartData(number_format=nf)
        for s in desc["series"]:
            sd = cd.add_series(s["name"], s.get("number_format"))
            for x, y, size in s["points"]:
                sd.add_data_point(x, y, size)
        return cd
    raise ValueError(kind)


# --------------------------------------------------------------------------- reference model

def leaf_count(forest):
    return sum(leaf_count(kids) if kids else 1 for _lb, kids in forest)


def depth(forest):
    if not forest:
        return 0
    return 1 + depth(forest[0][1])


def leaf_labels(forest):
    out = []
    for lb, kids in forest:
        if kids:
            out.extend(leaf_labels(kids))
        else:
            out.append(lb)
    return out


def flattened(forest, prefix=()):
    """One tuple per leaf, root -> leaf."""
    out = []
    for lb, kids in forest:
        if kids:
            out.extend(flattened(kids, prefix + (lb,)))
        else:
            out.append(prefix + (lb,))
    return out


def levels(forest):
    """Leaf level first; each level a list of (index of first leaf below the node, label)."""
    d = depth(forest)
    lv = [[] for _ in range(d)]

    def walk(nodes, level_from_top, start):
        for lb, kids in nodes:
            lv[d - 1 - level_from_top].append((start, lb))
            if kids:
                start = walk(kids, level_from_top + 1, start)
            else:
                start += 1
        return start

    walk(forest, 0, 0)
    return lv


def excel_serial(d, date1904=False):
    """Day serial of a date in the 1900 system (with Excel's phantom 1900-02-29) or the 1904 system."""
    o = dt.date(d.year, d.month, d.day).toordinal()
    if date1904:
        return o - dt.date(1904, 1, 1).toordinal()
    n = o - dt.date(1899, 12, 31).toordinal()          # 1900-01-01 -> 1
    if o >= dt.date(1900, 3, 1).toordinal():
        n += 1                                          # serial 60 is the non-existent 1900-02-29
    return n


def shape_summary(desc):
    """Small hashable summary used for class histograms."""
    ser = desc["series"]
    if desc["kind"] == "category":
        npts = [len(s["values"]) for s in ser]
        nones = any(v is None for s in ser for v in s["values"])
    else:
        npts = [len(s["points"]) for s in ser]
        nones = any(v is None for s in ser for p in s["points"] for v in p)
    return {"n_series": len(ser), "max_points": max(npts) if npts else 0, "none": nones,
            "unequal": len(set(npts)) > 1}
