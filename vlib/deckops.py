"""Deck operation language: abstract ops -> real python-pptx calls on a live Presentation.

An op is a JSON list [name, *args]. Integer selectors are reduced modulo the current population of the
addressed kind, so every generated list is executable (construction, not rejection). An op whose
population is empty is 'skipped'. A call the API documents as refusing returns outcome
'rejected:<ExceptionName>' (only for the classes listed per op); any other exception from python-pptx
is a Violation (via core.sut).
"""
from __future__ import annotations

import datetime as dt
import io
import os

from .core import REPO, Violation, sut

TEXTS = ["", "a", "Hello World", "a\nb", "x\vy", "\n", " lead", "trail ", "tab\tx", "A & B <c> \"q\" 'r'",
         "]]>", "é\u4e2d\U0001F600", "line1\nline2\nline3", "\v\v", "_x000D_"]
URLS = ["http://example.com/", "http://a.b/c?d=1&e=2", "https://x.y/z#frag", "mailto:a@b.c", "file:///C:/tmp/x y.txt"]
IMAGES = ["tests/test_files/python-icon.jpeg", "tests/test_files/monty-truth.png", "tests/test_files/python.bmp",
          "tests/test_files/python-powered.png", "features/steps/test_files/sonic.gif",
          "features/steps/test_files/72-dpi.tiff"]
MOVIE = "tests/test_files/dummy.mp4"
OLE_FILES = [("features/steps/test_files/shp-embedded-xlsx.xlsx", "XLSX"),
             ("features/steps/test_files/shp-embedded-docx.docx", "DOCX"),
             ("tests/test_files/minimal.pptx", "PPTX")]
COORDS = [0, 1, 914400, -5000, 12345678, 3000000, 457200]
SIZES = [0, 1, 914400, 5000000, 1828800]


def xml_clean(s):
    """text restricted to the XML Char production (names, core properties: attribute/element text as is)"""
    return "".join(ch for ch in s if ch in "\t\n\r" or ord(ch) >= 0x20)


def _has(obj, name):
    """class-level capability test (instance-level hasattr would run properties that may raise)"""
    if name == "shadow" and type(obj).__name__ == "GraphicFrame":
        return False
    return hasattr(type(obj), name)


def _img(i):
    cands = [p for p in IMAGES if os.path.exists(os.path.join(REPO, p))]
    return os.path.join(REPO, cands[i % len(cands)])


# --------------------------------------------------------------------------- strategies

def op_strategy(weights=None):
    """Hypothesis strategy for one op. `weights` maps op name -> relative weight (0 disables)."""
    from hypothesis import strategies as st

    I = st.integers(0, 40)
    C = st.sampled_from(COORDS)
    S = st.sampled_from(SIZES)
    T = st.integers(0, len(TEXTS) - 1)
    table = {
        "add_slide": st.tuples(st.just("add_slide"), I),
        "add_shape": st.tuples(st.just("add_shape"), I, I, I, C, C, S, S),
        "add_textbox": st.tuples(st.just("add_textbox"), I, I, C, C, S, S),
        "add_connector": st.tuples(st.just("add_connector"), I, I, st.integers(0, 2), C, C, C, C),
        "add_picture": st.tuples(st.just("add_picture"), I, I, I, st.integers(0, 3), st.booleans()),
        "add_group": st.tuples(st.just("add_group"), I, I, st.integers(0, 3)),
        "add_freeform": st.tuples(st.just("add_freeform"), I, I,
                                  st.lists(st.tuples(st.integers(-50, 200), st.integers(-50, 200)), min_size=1, max_size=5),
                                  st.booleans(), st.sampled_from([1.0, 100.0, 0.5, 914.4])),
        "add_table": st.tuples(st.just("add_table"), I, st.integers(1, 4), st.integers(1, 4), C, C,
                               st.sampled_from([914400, 3000001, 7]), st.sampled_from([914400, 1000003, 5])),
        "add_chart": st.tuples(st.just("add_chart"), I, I, st.integers(0, 3), st.integers(0, 4), st.integers(0, 3)),
        "replace_data": st.tuples(st.just("replace_data"), I, I, st.integers(1, 3), st.integers(1, 4), st.integers(0, 3)),
        "add_movie": st.tuples(st.just("add_movie"), I, st.integers(0, 5), C, C, S, S),
        "add_ole": st.tuples(st.just("add_ole"), I, I, st.integers(0, 11), st.booleans()),
        "ph_insert": st.tuples(st.just("ph_insert"), I, I, I),
        "set_text": st.tuples(st.just("set_text"), I, I, st.integers(0, 4), T),
        "para_op": st.tuples(st.just("para_op"), I, I, st.integers(0, 5), T),
        "fmt": st.tuples(st.just("fmt"), I, I, st.integers(0, 34), st.integers(0, 7)),
        "table_op": st.tuples(st.just("table_op"), I, I, st.integers(0, 9), st.integers(0, 5), st.integers(0, 5),
                              st.integers(0, 5), st.integers(0, 5)),
        "chart_fmt": st.tuples(st.just("chart_fmt"), I, I, st.integers(0, 27), st.integers(0, 6)),
        # few distinct URLs and few target slides so relationships get shared and reference-counted
        "hyperlink": st.tuples(st.just("hyperlink"), st.integers(0, 1), I, st.sampled_from([-1, -1, 0, 0, 0, 1, 1, 2, 3, 4])),
        "run_hyperlink": st.tuples(st.just("run_hyperlink"), st.integers(0, 1), I, st.sampled_from([-1, -1, 0, 0, 0, 1, 1, 2, 3, 4])),
        "link_burst": st.tuples(st.just("link_burst"), st.integers(0, 1),
                                st.lists(st.tuples(st.integers(0, 3), st.sampled_from([-1, 0, 0, 1]), st.booleans()),
                                         min_size=3, max_size=6)),
        "target_slide": st.tuples(st.just("target_slide"), I, I, st.integers(-1, 10)),
        "notes": st.tuples(st.just("notes"), I, st.integers(-1, len(TEXTS) - 1)),
        "remove_layout": st.tuples(st.just("remove_layout"), I),
        "core_prop": st.tuples(st.just("core_prop"), st.integers(0, 14), T),
        "slide_prop": st.tuples(st.just("slide_prop"), I, st.integers(0, 4), T),
        "read": st.tuples(st.just("read"), st.integers(0, 7), I),
        "bad_call": st.tuples(st.just("bad_call"), st.integers(0, 6), I),
        "turbo": st.tuples(st.just("turbo"), I, I, st.booleans()),
        # several assignments from one family on ONE target (state-dependent setters: the same property set
        # twice with values of different kinds, choice-group members replaced, ...)
        "seq": st.one_of(
            st.tuples(st.just("fmt"), I, I, st.sampled_from([(0, 6), (7, 10), (11, 14), (15, 24), (15, 18), (17, 18)]).flatmap(
                lambda r: st.lists(st.tuples(st.integers(r[0], r[1]), st.integers(0, 7)), min_size=2, max_size=5))),
            st.tuples(st.just("chart_fmt"), I, I, st.lists(st.tuples(st.integers(0, 27), st.integers(0, 6)), min_size=2, max_size=5)),
            st.tuples(st.just("table_op"), I, I, st.lists(st.tuples(st.integers(0, 9), st.integers(0, 5), st.integers(0, 5),
                                                                     st.integers(0, 5), st.integers(0, 5)), min_size=2, max_size=5)),
        ).map(lambda t: ("seq", [[t[0], t[1], t[2]] + list(x) for x in t[3]])) | st.tuples(
            # the life of one chart: added (any of the chart kinds), then its data replaced 1-3 times
            I, st.integers(0, 16), st.integers(0, 3), st.integers(0, 4), st.integers(0, 3),
            st.lists(st.tuples(st.integers(1, 3), st.integers(1, 4), st.integers(0, 3)), min_size=1, max_size=3),
        ).map(lambda t: ("seq", [["add_chart", t[0], t[1], t[2], t[3], t[4]]]
                                + [["replace_data", t[0], -1, a, b, c] for a, b, c in t[5]])) | st.tuples(
            # turbo mode on one slide: switched on for the slide's collection, shapes added through a group and
            # through the slide, the mode assigned again (same or other value) in between
            I, st.lists(st.one_of(st.tuples(st.just("t"), st.booleans()), st.tuples(st.just("g"), I),
                                  st.tuples(st.just("s"), I)), min_size=3, max_size=7),
        ).map(lambda t: ("seq", [["add_group", t[0], 0, 1], ["turbo", t[0], 0, True]] + [
            ["turbo", t[0], 0, x[1]] if x[0] == "t" else
            ["add_shape", t[0], 1 + x[1] % 3, x[1], 0, 0, 914400, 914400] if x[0] == "g" else
            ["add_textbox", t[0], 0, 0, 0, 914400, 914400] for x in t[1]])),
        "save": st.tuples(st.just("save")),
        "save_reopen": st.tuples(st.just("save_reopen")),
    }
    default_w = {"add_slide": 3, "add_shape": 4, "add_textbox": 3, "add_connector": 2, "add_picture": 3, "add_group": 3,
                 "add_freeform": 2, "add_table": 2, "add_chart": 3, "replace_data": 2, "add_movie": 1, "add_ole": 1,
                 "ph_insert": 2, "set_text": 4, "para_op": 3, "fmt": 6, "table_op": 4, "chart_fmt": 4, "seq": 5, "hyperlink": 3, "link_burst": 2,
                 "run_hyperlink": 2, "target_slide": 2, "notes": 2, "remove_layout": 1, "core_prop": 1, "slide_prop": 1,
                 "read": 2, "bad_call": 1, "turbo": 1, "save": 3, "save_reopen": 2}
    w = dict(default_w)
    if weights:
        w.update(weights)
    names = [n for n in table if w.get(n, 0) > 0]
    # weighted choice by construction: sample a name from a list with repetition
    bag = []
    for n in names:
        bag += [n] * int(w[n])
    return st.sampled_from(bag).flatmap(lambda n: table[n]).map(list)


def ops_strategy(max_ops=25, weights=None, min_ops=1):
    from hypothesis import strategies as st
    return st.lists(op_strategy(weights), min_size=min_ops, max_size=max_ops)


# --------------------------------------------------------------------------- helpers

def iter_shapes(shapes, depth=0):
    """(shape, container_shapes, depth) for every shape, recursively into groups."""
    for sh in shapes:
        yield sh, shapes, depth
        if type(sh).__name__ == "GroupShape":
            yield from iter_shapes(sh.shapes, depth + 1)


def containers(slide, max_depth=4):
    """shape collections that can receive additions: the slide tree and every group (depth < max)."""
    out = [(slide.shapes, 0)]
    for sh, _c, d in iter_shapes(slide.shapes):
        if type(sh).__name__ == "GroupShape" and d + 1 < max_depth:
            out.append((sh.shapes, d + 1))
    return out


def chart_data(kind, ncat, nser, variant):
    from pptx.chart.data import CategoryChartData, XyChartData, BubbleChartData
    if kind == "xy":
        cd = XyChartData()
        for s in range(max(nser, 1)):
            ser = cd.add_series("S%d" % s)
            for i in range(ncat + (s if variant == 1 else 0)):
                ser.add_data_point(i * 1.5, (i - s) * 2.25)
        return cd
    if kind == "bubble":
        cd = BubbleChartData()
        for s in range(max(nser, 1)):
            ser = cd.add_series("B%d" % s)
            for i in range(ncat):
                ser.add_data_point(i, i * i, 1 + i)
        return cd
    cd = CategoryChartData()
    if variant == 2:
        cd.categories = [dt.date(2020, 1, 1 + i) for i in range(max(ncat, 1))]
    elif variant == 3:
        cd.categories = [float(i) + 0.5 for i in range(max(ncat, 1))]
    else:
        cd.categories = ["Cat %d" % i for i in range(max(ncat, 1))]
    for s in range(max(nser, 1)):
        vals = [None if (variant == 1 and (i + s) % 3 == 0) else (i + 1) * (s + 1) * 1.25 for i in range(max(ncat, 1))]
        cd.add_series("Series %d" % s, vals)
    return cd


def chart_types():
    from pptx.enum.chart import XL_CHART_TYPE as X
    return [("cat", X.BAR_CLUSTERED), ("cat", X.COLUMN_STACKED), ("cat", X.LINE_MARKERS), ("cat", X.PIE), ("cat", X.AREA),
            ("cat", X.DOUGHNUT), ("cat", X.RADAR), ("xy", X.XY_SCATTER), ("xy", X.XY_SCATTER_LINES_NO_MARKERS),
            ("bubble", X.BUBBLE), ("cat", X.BAR_STACKED_100), ("cat", X.LINE), ("cat", X.COLUMN_CLUSTERED),
            ("cat", X.PIE_EXPLODED), ("cat", X.AREA_STACKED), ("cat", X.RADAR_FILLED), ("cat", X.BAR_OF_PIE if False else X.LINE_STACKED)]


_UPPER = {}


def _upper_ext_copy(path):
    """a copy of `path` whose file name has an upper-case extension (one shared scratch copy, made on demand)"""
    import shutil
    import tempfile
    if path not in _UPPER:
        d = os.path.join(tempfile.gettempdir(), "verif-deckops-upper")
        os.makedirs(d, exist_ok=True)
        base, ext = os.path.splitext(os.path.basename(path))
        dst = os.path.join(d, base.upper() + ext.upper())
        if not (os.path.exists(dst) and os.path.getsize(dst) == os.path.getsize(path)):
            tmp = "%s.%d" % (dst, os.getpid())
            shutil.copyfile(path, tmp)
            os.replace(tmp, dst)
        _UPPER[path] = dst
    return _UPPER[path]


class Interp:
    """Executes ops on a live presentation. Hooks: before_op(interp, op), after_op(interp, op, outcome, info),
    at_save(interp, bytes). `info` is a dict the op fills (e.g. {'added': shape, 'slide': slide})."""

    def __init__(self, prs, hooks=(), crash="continue", prefix="deck"):
        self.prefix = prefix
        # crash: what an undocumented exception escaping from python-pptx means for the running check:
        #   "violation" -> core.Violation (only where the property demands the call be accepted)
        #   "continue"  -> outcome 'crashed:<Exc>@<frame>', history goes on (state must stay consistent)
        #   "stop"      -> outcome 'crashed:...', remaining ops are not executed (self.stopped = True)
        self.crash = crash
        self.slides_accessed = False  # since the deck was (re)opened
        self.stopped = False
        self.crashes = []
        self.prs = prs
        self.hooks = list(hooks)
        self.trace = []
        self.saves = 0
        self.counts = {}
        self.last_saved = None

    # -------------------------------------------------------------- selection
    def slides(self):
        self.slides_accessed = True
        return list(self.prs.slides)

    def slide(self, i):
        s = self.slides()
        return s[i % len(s)] if s else None

    def pick(self, slide, i, pred):
        cands = [sh for sh, _c, _d in iter_shapes(slide.shapes) if pred(sh)]
        return cands[i % len(cands)] if cands else None

    # -------------------------------------------------------------- run
    def run(self, ops):
        for op in ops:
            if self.stopped:
                break
            self.step(list(op))
        return self.trace

    def step(self, op):
        for h in self.hooks:
            if hasattr(h, "before_op"):
                h.before_op(self, op)
        info = {}
        name = op[0]
        fn = getattr(self, "op_" + name)
        # selecting slides/shapes is pure reading of a deck python-pptx produced or loaded: an exception there
        # means the deck has become unusable (reported under the running check's property)
        with sut("%s:deck-unusable:%s" % (self.prefix, name)):
            outcome = fn(info, *op[1:])
        self.counts[name + ":" + outcome.split(":")[0]] = self.counts.get(name + ":" + outcome.split(":")[0], 0) + 1
        self.trace.append([op, outcome])
        for h in self.hooks:
            if hasattr(h, "after_op"):
                h.after_op(self, op, outcome, info)
        return outcome

    def _call(self, what, fn, rejects=()):
        """run fn(); documented rejection classes -> 'rejected:<name>'"""
        try:
            with sut("op:" + what, allow=rejects):
                fn()
        except rejects as e:
            return "rejected:" + type(e).__name__
        except Violation as v:
            if self.crash == "violation" or ":raises=" not in v.key:
                raise
            tag = v.key.split(":raises=", 1)[1]
            self.crashes.append("%s:%s" % (what, tag))
            if self.crash == "stop":
                self.stopped = True
            return "crashed:" + tag
        return "ok"

    # -------------------------------------------------------------- structural ops
    def op_add_slide(self, info, layout_i):
        layouts = list(self.prs.slide_layouts)
        if not layouts:
            return "skipped"
        lay = layouts[layout_i % len(layouts)]
        def f():
            info["added_slide"] = self.prs.slides.add_slide(lay)
            info["layout"] = lay
        return self._call("add_slide", f)

    def _container(self, slide_i, cont_i):
        sl = self.slide(slide_i)
        if sl is None:
            return None, None, 0
        cs = containers(sl)
        c, d = cs[cont_i % len(cs)]
        return sl, c, d

    def op_add_shape(self, info, slide_i, cont_i, type_i, x, y, cx, cy):
        from pptx.enum.shapes import MSO_SHAPE
        sl, c, d = self._container(slide_i, cont_i)
        if sl is None:
            return "skipped"
        members = list(MSO_SHAPE)
        t = members[(type_i * 7) % len(members)]
        def f():
            info.update(added=c.add_shape(t, x, y, cx, cy), slide=sl, container=c, depth=d, kind="sp")
        return self._call("add_shape", f)

    def op_add_textbox(self, info, slide_i, cont_i, x, y, cx, cy):
        sl, c, d = self._container(slide_i, cont_i)
        if sl is None:
            return "skipped"
        def f():
            info.update(added=c.add_textbox(x, y, cx, cy), slide=sl, container=c, depth=d, kind="textbox")
        return self._call("add_textbox", f)

    def op_add_connector(self, info, slide_i, cont_i, k, x1, y1, x2, y2):
        from pptx.enum.shapes import MSO_CONNECTOR
        sl, c, d = self._container(slide_i, cont_i)
        if sl is None:
            return "skipped"
        kind = [MSO_CONNECTOR.STRAIGHT, MSO_CONNECTOR.ELBOW, MSO_CONNECTOR.CURVE][k]
        def f():
            cx = c.add_connector(kind, x1, y1, x2, y2)
            info.update(added=cx, slide=sl, container=c, depth=d, kind="cxn")
            # half of the new connectors are attached to a shape of the slide right away: end first then begin,
            # begin first then end, or one end only
            how = (k + (abs(int(x1)) + abs(int(y2))) // 7) % 6
            tgt = [s for s, _c, _d in iter_shapes(sl.shapes)
                   if type(s).__name__ in ("Shape", "Picture") and not s.is_placeholder and _c is c]
            if how < 3 and tgt:
                t = tgt[(abs(int(x2)) // 3) % len(tgt)]
                if how == 0:
                    cx.end_connect(t, 1); cx.begin_connect(t, 3)
                elif how == 1:
                    cx.begin_connect(t, 0); cx.end_connect(t, 2)
                else:
                    cx.end_connect(t, 2)
        return self._call("add_connector", f)

    def op_add_picture(self, info, slide_i, cont_i, img_i, size_variant, as_stream):
        sl, c, d = self._container(slide_i, cont_i)
        if sl is None:
            return "skipped"
        path = _img(img_i)
        w = [None, 914400, None, 1000000][size_variant]
        h = [None, None, 685800, 500000][size_variant]
        def f():
            src = io.BytesIO(open(path, "rb").read()) if as_stream else path
            info.update(added=c.add_picture(src, 100, 200, w, h), slide=sl, container=c, depth=d, kind="pic", image=path)
        return self._call("add_picture", f)

    def op_add_group(self, info, slide_i, cont_i, n_members):
        sl, c, d = self._container(slide_i, cont_i)
        if sl is None:
            return "skipped"
        members = [sh for sh in c if not sh.is_placeholder][:n_members] if n_members else []
        def f():
            info.update(added=c.add_group_shape(shapes=members), slide=sl, container=c, depth=d, kind="grp",
                        regrouped=len(members))
        return self._call("add_group", f)

    def op_add_freeform(self, info, slide_i, cont_i, pts, closed, scale):
        sl, c, d = self._container(slide_i, cont_i)
        if sl is None:
            return "skipped"
        def f():
            fb = c.build_freeform(pts[0][0], pts[0][1], scale=scale)
            fb.add_line_segments([tuple(p) for p in pts[1:]] or [(pts[0][0] + 10, pts[0][1] + 10)], close=closed)
            first = fb.convert_to_shape()
            if len(pts) % 3 == 0:
                # the same builder converted again at another origin (a stamp): a second, separate shape
                fb.convert_to_shape(origin_x=914400, origin_y=457200)
            info.update(added=first, slide=sl, container=c, depth=d, kind="freeform")
        return self._call("add_freeform", f)

    def op_add_table(self, info, slide_i, r, cl, x, y, w, h):
        sl = self.slide(slide_i)
        if sl is None:
            return "skipped"
        def f():
            info.update(added=sl.shapes.add_table(r, cl, x, y, w, h), slide=sl, container=sl.shapes, depth=0, kind="table")
        return self._call("add_table", f)

    def op_add_chart(self, info, slide_i, type_i, variant, ncat, nser):
        sl = self.slide(slide_i)
        if sl is None:
            return "skipped"
        cts = chart_types()
        kind, ct = cts[type_i % len(cts)]
        def f():
            cd = chart_data(kind, ncat + 1, nser, variant)
            info.update(added=sl.shapes.add_chart(ct, 100, 100, 3000000, 2000000, cd), slide=sl, container=sl.shapes,
                        depth=0, kind="chart", chart_type=ct)
        return self._call("add_chart", f)

    def op_replace_data(self, info, slide_i, chart_i, nser, ncat, variant):
        sl = self.slide(slide_i)
        if sl is None:
            return "skipped"
        gf = self.pick(sl, chart_i, lambda sh: getattr(sh, "has_chart", False))
        if gf is None:
            return "skipped"
        chart = gf.chart
        tag = chart._chartSpace.xpath("c:chart/c:plotArea/*[contains(local-name(), 'Chart')]")
        local = tag[0].tag.rsplit("}", 1)[1] if tag else ""
        kind = "xy" if local == "scatterChart" else "bubble" if local == "bubbleChart" else "cat"
        if not list(chart._chartSpace.xpath("//c:ser")):
            return "skipped"  # nothing to clone from (recorded finding F19 territory, exercised by C07)
        def f():
            chart.replace_data(chart_data(kind, ncat, nser, variant))
            info.update(slide=sl, chart=chart)
        return self._call("replace_data", f)

    def op_add_movie(self, info, slide_i, poster, x, y, cx, cy):
        sl = self.slide(slide_i)
        if sl is None:
            return "skipped"
        def f():
            kw = {}
            if poster % 3 == 1:
                kw["poster_frame_image"] = _img(1)
            elif poster % 3 == 2:
                kw["poster_frame_image"] = io.BytesIO(open(_img(0), "rb").read())
            path = os.path.join(REPO, MOVIE)
            if poster >= 3:
                path = _upper_ext_copy(path)   # CLIP.MP4: the extension of a media file in capitals
            info.update(added=sl.shapes.add_movie(path, x, y, cx, cy, mime_type="video/mp4", **kw),
                        slide=sl, container=sl.shapes, depth=0, kind="movie")
        return self._call("add_movie", f)

    def op_add_ole(self, info, slide_i, cont_i, which, with_icon):
        from pptx.enum.shapes import PROG_ID
        sl, c, d = self._container(slide_i, cont_i)
        if sl is None:
            return "skipped"
        path, prog = OLE_FILES[which % len(OLE_FILES)]
        def f():
            kw = {"icon_file": _img(3)} if with_icon else {}
            size = (which // len(OLE_FILES)) % 4     # neither / width only / height only / both (each is optional alone)
            if size in (1, 3):
                kw["width"] = 1828800
            if size in (2, 3):
                kw["height"] = 1371600
            info.update(added=c.add_ole_object(os.path.join(REPO, path), getattr(PROG_ID, prog), 100, 100, **kw),
                        slide=sl, container=c, depth=d, kind="ole")
        return self._call("add_ole", f)

    def op_ph_insert(self, info, slide_i, ph_i, what):
        sl = self.slide(slide_i)
        if sl is None:
            return "skipped"
        phs = [p for p in sl.placeholders if any(hasattr(p, m) for m in ("insert_picture", "insert_table", "insert_chart"))]
        if not phs:
            return "skipped"
        ph = phs[ph_i % len(phs)]
        def f():
            if hasattr(ph, "insert_picture"):
                info.update(added=ph.insert_picture(_img(what)), kind="ph_pic")
            elif hasattr(ph, "insert_table"):
                info.update(added=ph.insert_table(1 + what % 3, 1 + what % 2), kind="ph_table")
            else:
                from pptx.enum.chart import XL_CHART_TYPE
                info.update(added=ph.insert_chart(XL_CHART_TYPE.PIE, chart_data("cat", 2, 1, 0)), kind="ph_chart")
            info.update(slide=sl, container=sl.shapes, depth=0, replaced_ph=True)
        return self._call("ph_insert", f)

    # -------------------------------------------------------------- text
    def _text_target(self, sl, shape_i):
        return self.pick(sl, shape_i, lambda sh: getattr(sh, "has_text_frame", False))

    def op_set_text(self, info, slide_i, shape_i, level, text_i):
        sl = self.slide(slide_i)
        if sl is None:
            return "skipped"
        sh = self._text_target(sl, shape_i)
        if sh is None:
            return "skipped"
        s = TEXTS[text_i % len(TEXTS)]
        def f():
            tf = sh.text_frame
            if level == 0:
                tf.text = s
            elif level == 1:
                sh.text = s
            elif level == 2:
                tf.paragraphs[text_i % len(tf.paragraphs)].text = s
            elif level == 3:
                p = tf.paragraphs[-1]
                r = p.runs[0] if p.runs else p.add_run()
                r.text = s
            else:
                tf.clear()
        info.update(slide=sl, target=sh)
        return self._call("set_text", f)

    def op_para_op(self, info, slide_i, shape_i, which, text_i):
        sl = self.slide(slide_i)
        if sl is None:
            return "skipped"
        sh = self._text_target(sl, shape_i)
        if sh is None:
            return "skipped"
        def f():
            tf = sh.text_frame
            p = tf.paragraphs[text_i % len(tf.paragraphs)]
            if which == 0:
                tf.add_paragraph().text = TEXTS[text_i % len(TEXTS)]
            elif which == 1:
                p.add_run().text = TEXTS[text_i % len(TEXTS)]
            elif which == 2:
                p.add_line_break()
            elif which == 3:
                p.clear()
            elif which == 4:
                tf.fit_text(max_size=18) if False else tf.add_paragraph()
            else:
                p.add_line_break()
                p.add_run().text = "after"
        info.update(slide=sl, target=sh)
        return self._call("para_op", f)

    # -------------------------------------------------------------- formatting (in- and out-of-domain)
    def op_fmt(self, info, slide_i, shape_i, kind, v):
        from pptx.util import Pt, Emu
        from pptx.dml.color import RGBColor
        from pptx.enum.dml import MSO_THEME_COLOR, MSO_LINE, MSO_PATTERN
        from pptx.enum.text import PP_ALIGN, MSO_ANCHOR, MSO_AUTO_SIZE, MSO_UNDERLINE
        sl = self.slide(slide_i)
        if sl is None:
            return "skipped"
        has_fill = lambda sh: type(sh).__name__ in ("Shape", "SlidePlaceholder") or _has(sh, "fill")
        rej = (ValueError, TypeError)
        themes = [m for m in MSO_THEME_COLOR if m.xml_value]
        if kind <= 6:
            sh = self.pick(sl, shape_i, lambda s: _has(s, "fill") and type(s).__name__ != "GroupShape")
            if sh is None:
                return "skipped"
            def f():
                fl = sh.fill
                if kind == 0:
                    fl.solid(); fl.fore_color.rgb = RGBColor(1 + v, 2, 3)
                elif kind == 1:
                    fl.background()
                elif kind == 2:
                    fl.gradient(); fl.gradient_angle = [0, 45, 90.5, 359, 359.9999999, 1e-9, -45, 720][v]
                    fl.gradient_stops[0].position = [0, 0.3, 1.0, 0.5, 0.25, 0.1, 0.9, 0.75][v]
                elif kind == 3:
                    fl.patterned(); pats = [m for m in MSO_PATTERN if m.xml_value is not None]
                    fl.pattern = pats[(v * 5) % len(pats)]; fl.fore_color.rgb = RGBColor(9, 9, 9)
                    fl.back_color.theme_color = themes[v % len(themes)]
                elif kind == 4:
                    fl.solid(); fl.fore_color.theme_color = themes[(v * 3) % len(themes)]
                    fl.fore_color.brightness = [-1.0, -0.5, 0, 0.4, 1.0, 0.25, -0.25, 0.1][v]
                elif kind == 5:
                    fl.solid(); fl.fore_color.theme_color = MSO_THEME_COLOR.NOT_THEME_COLOR if v % 2 else MSO_THEME_COLOR.MIXED
                else:
                    fl.solid(); fl.fore_color.brightness = [1.5, -2, 7, 1.01, -1.01, 2, 3, 4][v]
            info.update(slide=sl, target=sh)
            return self._call("fmt_fill%d" % kind, f, rej)
        if kind <= 10:
            sh = self.pick(sl, shape_i, lambda s: _has(s, "line"))
            if sh is None:
                return "skipped"
            def f():
                ln = sh.line
                if kind == 7:
                    ln.width = [0, 12700, 20116800, 1, 25400, 6350, 38100, 9525][v]
                elif kind == 8:
                    ds = [m for m in MSO_LINE if m.xml_value is not None]
                    ln.dash_style = None if v == 0 else ds[v % len(ds)]
                elif kind == 9:
                    ln.color.rgb = RGBColor(3, 4, v)
                    if v % 2:
                        ln.fill.background()
                else:
                    ln.width = [-1, 20116801, 10 ** 12, -12700, 2 ** 40, -5, 30000000, -2][v]
            info.update(slide=sl, target=sh)
            return self._call("fmt_line%d" % kind, f, rej)
        if kind <= 14:
            sh = self.pick(sl, shape_i, lambda s: type(s).__name__ not in ("GroupShape",) and not s.is_placeholder)
            if sh is None:
                return "skipped"
            def f():
                if kind == 11:
                    sh.rotation = [0, 45.5, -30, 720, 359.99999, 1e-7, 90, 180][v]
                elif kind == 12:
                    sh.left = COORDS[v % len(COORDS)]; sh.width = SIZES[v % len(SIZES)]
                elif kind == 13:
                    sh.name = xml_clean(TEXTS[(v * 2 + 1) % len(TEXTS)]) or "n"
                else:
                    sh.top = COORDS[(v + 2) % len(COORDS)]; sh.height = SIZES[(v + 1) % len(SIZES)]
            info.update(slide=sl, target=sh)
            if type(sh).__name__ == "GraphicFrame" and kind == 11:
                return self._call("fmt_geom%d" % kind, f, rej + (NotImplementedError, AttributeError))
            return self._call("fmt_geom%d" % kind, f, rej)
        if kind <= 24:
            sh = self._text_target(sl, shape_i)
            if sh is None:
                return "skipped"
            def f():
                tf = sh.text_frame
                p = tf.paragraphs[v % len(tf.paragraphs)]
                if kind == 15:
                    p.alignment = [None, PP_ALIGN.CENTER, PP_ALIGN.RIGHT, PP_ALIGN.JUSTIFY, PP_ALIGN.LEFT, PP_ALIGN.DISTRIBUTE,
                                   PP_ALIGN.THAI_DISTRIBUTE, PP_ALIGN.JUSTIFY_LOW][v]
                elif kind == 16:
                    p.level = [0, 1, 8, 4, 2, 3, 5, 7][v]
                elif kind == 17:
                    p.line_spacing = [None, 1.5, Pt(12), 0.5, 2.0, Pt(1), Pt(100), 1.0][v]
                elif kind == 18:
                    p.space_before = [None, Pt(3), 0, Pt(100), Pt(1.5), Pt(12), Pt(0.25), Pt(1584)][v]
                    p.space_after = [Pt(3), None, Pt(6), 0, Pt(2), None, Pt(1), Pt(10)][v]
                elif kind == 19:
                    p.font.size = [None, Pt(10), Pt(1), Pt(4000), Pt(12.5), Pt(18), Pt(44), Pt(7)][v]
                    p.font.bold = [None, True, False, True, None, False, True, None][v]
                elif kind == 20:
                    r = p.add_run(); r.text = "fmt"
                    r.font.name = [None, "Arial", "Calibri", "A&B", "x", "Times New Roman", "+mn-lt", "Symbol"][v]
                    r.font.underline = [None, True, False, MSO_UNDERLINE.DOUBLE_LINE, MSO_UNDERLINE.WAVY_LINE, True, None, False][v]
                    r.font.italic = bool(v % 2)
                    r.font.color.rgb = RGBColor(1, 2, 3)
                elif kind == 21:
                    tf.word_wrap = [None, True, False][v % 3]
                    tf.auto_size = [None, MSO_AUTO_SIZE.NONE, MSO_AUTO_SIZE.SHAPE_TO_FIT_TEXT, MSO_AUTO_SIZE.TEXT_TO_FIT_SHAPE][v % 4]
                elif kind == 22:
                    anchors = [m for m in MSO_ANCHOR if m.xml_value is not None]
                    tf.vertical_anchor = None if v == 0 else anchors[v % len(anchors)]
                    tf.margin_left = [0, 914400, 45720, 91440, 1, 100000, 0, 5][v]
                    tf.margin_top = [45720, 0, 1, 2, 3, 4, 5, 6][v]
                elif kind == 23:
                    # out-of-domain text formatting
                    if v == 0:
                        p.level = 9
                    elif v == 1:
                        p.font.size = Pt(4001)
                    elif v == 2:
                        p.level = -1
                    elif v == 3:
                        p.font.size = 50
                    elif v == 4:
                        p.line_spacing = 200.0
                    elif v == 5:
                        p.space_before = Pt(1600)
                    elif v == 6:
                        p.space_after = -5
                    else:
                        p.line_spacing = Pt(2000)
                else:
                    if p.runs:
                        r = p.runs[0]
                        r.font.fill.solid(); r.font.fill.fore_color.theme_color = themes[v % len(themes)]
                        r.font.fill.fore_color.brightness = [-0.5, 0, 0.4, 0.1, 0.2, 0.3, -0.1, -0.9][v]
                        from pptx.enum.lang import MSO_LANGUAGE_ID
                        r.font.language_id = list(MSO_LANGUAGE_ID)[(v * 11) % 50]
            info.update(slide=sl, target=sh)
            return self._call("fmt_text%d" % kind, f, rej)
        if kind <= 27:
            sh = self.pick(sl, shape_i, lambda s: _has(s, "adjustments") and len(s.adjustments) > 0) if kind == 25 else \
                 self.pick(sl, shape_i, lambda s: _has(s, "crop_left")) if kind == 26 else \
                 self.pick(sl, shape_i, lambda s: _has(s, "shadow"))
            if sh is None:
                return "skipped"
            def f():
                if kind == 25:
                    sh.adjustments[v % len(sh.adjustments)] = [0, 0.5, 1.5, -0.2, 0.25, 1.0, 0.333333, 0.1][v]
                elif kind == 26:
                    sh.crop_left = [0, 0.1, -0.1, 0.5, 0.25, 0, 0.3, 0.01][v]; sh.crop_bottom = 0.2
                else:
                    sh.shadow.inherit = bool(v % 2)
            info.update(slide=sl, target=sh)
            return self._call("fmt_misc%d" % kind, f, rej + (NotImplementedError,))
        if kind == 34:
            # a connector's ends attached to shapes of its slide, in either order, re-attached, one end only
            cx = self.pick(sl, shape_i, lambda s: type(s).__name__ == "Connector")
            tgt = self.pick(sl, shape_i + v, lambda s: type(s).__name__ in ("Shape", "Picture") and not s.is_placeholder)
            if cx is None or tgt is None:
                return "skipped"
            def f():
                if v % 4 == 0:
                    cx.end_connect(tgt, v % 4); cx.begin_connect(tgt, (v + 1) % 4)
                elif v % 4 == 1:
                    cx.begin_connect(tgt, 0); cx.end_connect(tgt, 2)
                elif v % 4 == 2:
                    cx.end_connect(tgt, 3)
                else:
                    cx.begin_connect(tgt, 1)
            info.update(slide=sl, target=cx)
            return self._call("fmt_connect", f, rej)
        if kind == 33:
            # text-frame insets at and beyond the ends of their 32-bit range (a:bodyPr/@lIns is an ST_Coordinate32)
            sh = self._text_target(sl, shape_i)
            if sh is None:
                return "skipped"
            def f():
                tf = sh.text_frame
                val = [2 ** 31, -2 ** 31 - 1, 2 ** 40, 2 ** 31 - 1, -2 ** 31, 2 ** 31 + 5, -2 ** 33, 2 ** 32][v]
                if v % 2:
                    tf.margin_top = val
                else:
                    tf.margin_left = val
            info.update(slide=sl, target=sh)
            return self._call("fmt_text33", f, rej)
        if kind == 32:
            # two proxies of one colour object taken before a colour exists, a colour assigned through each
            sh = self.pick(sl, shape_i, lambda s: type(s).__name__ in ("Shape", "SlidePlaceholder") and _has(s, "fill"))
            if sh is None:
                return "skipped"
            def f():
                if v % 3 == 0:
                    sh.fill.solid()
                    a, b = sh.fill.fore_color, sh.fill.fore_color
                elif v % 3 == 1:
                    a, b = sh.line.color, sh.line.color
                else:
                    if not (sh.has_text_frame and sh.text_frame.paragraphs[0].runs):
                        sh.text_frame.paragraphs[0].add_run().text = "c"
                    r = sh.text_frame.paragraphs[0].runs[0]
                    a, b = r.font.color, r.font.color
                if v < 4:
                    b.rgb = RGBColor(1, 2, 3); a.theme_color = themes[v % len(themes)]
                else:
                    b.theme_color = themes[v % len(themes)]; a.rgb = RGBColor(4, 5, 6)
            info.update(slide=sl, target=sh)
            return self._call("fmt_two_proxies", f, rej)
        if kind == 31:
            sh = self._text_target(sl, shape_i)
            if sh is None:
                return "skipped"
            def f():
                tf = sh.text_frame
                p = tf.paragraphs[v % len(tf.paragraphs)]
                r = p.add_run(); r.text = "x"
                # refused by the attribute conversion itself, on a run that has no a:latin / a:rPr content yet
                if v % 4 == 0:
                    r.font.name = "Bad\x01Name"
                elif v % 4 == 1:
                    r.font.name = 5
                elif v % 4 == 2:
                    p.font.name = "Bad\x00"
                else:
                    r.font.size = "12"
            info.update(slide=sl, target=sh)
            return self._call("fmt_text31", f, rej)
        # background of the slide, of its layout or of its master (masters usually hold a p:bgRef)
        def f():
            owner = [sl, sl, sl.slide_layout, sl.slide_layout.slide_master][(shape_i + v) % 4]
            bg = owner.background.fill
            if kind == 28:
                bg.solid(); bg.fore_color.rgb = RGBColor(v, v, v)
            elif kind == 29:
                bg.gradient(); bg.gradient_angle = 30 * v
            else:
                bg.background() if v % 2 else bg.patterned()
        info.update(slide=sl)
        return self._call("fmt_bg%d" % kind, f, rej)

    # -------------------------------------------------------------- tables
    def op_table_op(self, info, slide_i, table_i, kind, r1, c1, r2, c2):
        from pptx.dml.color import RGBColor
        from pptx.enum.text import MSO_ANCHOR
        sl = self.slide(slide_i)
        if sl is None:
            return "skipped"
        gf = self.pick(sl, table_i, lambda s: getattr(s, "has_table", False))
        if gf is None:
            return "skipped"
        t = gf.table
        nr, nc = len(t.rows), len(t.columns)
        cell = t.cell(r1 % nr, c1 % nc)
        other = t.cell(r2 % nr, c2 % nc)
        def f():
            if kind == 0:
                cell.text = TEXTS[(r1 + c1) % len(TEXTS)]
            elif kind in (1, 2):
                cell.merge(other)
            elif kind == 3:
                cell.split()
            elif kind == 4:
                cell.fill.solid(); cell.fill.fore_color.rgb = RGBColor(1, 2, 3)
            elif kind == 5:
                cell.margin_left = [None, 0, 1000, 91440, 5, 45720][r2]; cell.vertical_anchor = [None, MSO_ANCHOR.MIDDLE, MSO_ANCHOR.BOTTOM][c2 % 3]
            elif kind == 6:
                t.first_row = bool(r2 % 2); t.horz_banding = bool(c2 % 2); t.last_col = True; t.first_col = bool(r1 % 2)
            elif kind == 7:
                t.rows[r1 % nr].height = [0, 5000, 370840, 1][r2 % 4]; t.columns[c1 % nc].width = [0, 5000, 914400, 1][c2 % 4]
            elif kind == 8:
                t.cell(nr + r2, c1)  # out of range
            else:
                cell.text_frame.paragraphs[0].add_run().text = "r"
                cell.text_frame.add_paragraph().text = "p2"
        info.update(slide=sl, target=gf)
        return self._call("table_op%d" % kind, f, (ValueError, IndexError))

    # -------------------------------------------------------------- chart formatting
    def op_chart_fmt(self, info, slide_i, chart_i, kind, v):
        from pptx.util import Pt
        from pptx.enum.chart import (XL_LEGEND_POSITION, XL_TICK_MARK, XL_LABEL_POSITION, XL_MARKER_STYLE,
                                     XL_TICK_LABEL_POSITION, XL_AXIS_CROSSES)
        sl = self.slide(slide_i)
        if sl is None:
            return "skipped"
        gf = self.pick(sl, chart_i, lambda s: getattr(s, "has_chart", False))
        if gf is None:
            return "skipped"
        ch = gf.chart
        def f():
            plot = ch.plots[0] if len(ch.plots) else None
            def axis(which):
                try:
                    return ch.category_axis if which == 0 else ch.value_axis
                except ValueError:
                    return None
            if kind == 0:
                ch.has_legend = bool(v % 2)
            elif kind == 1:
                if ch.has_legend:
                    lg = ch.legend
                    lg.position = list(XL_LEGEND_POSITION)[v % 5]
                    lg.include_in_layout = [None, True, False][v % 3]
                    lg.horz_offset = [0, 0.3, -0.5, 1.0, -1.0, 0.01, 0.5][v]
                    lg.font.size = Pt(9)
            elif kind == 2:
                ch.has_title = bool(v % 2)
            elif kind == 3:
                ch.chart_title.text_frame.text = TEXTS[v % len(TEXTS)]
            elif kind == 4:
                ch.chart_style = [None, 1, 48, 2, 10, 26, 42][v]
            elif kind == 5:
                ch.font.size = Pt(11); ch.font.bold = True
            elif kind == 6:
                ax = axis(v % 2)
                if ax is not None:
                    ax.has_major_gridlines = bool(v % 3); ax.has_minor_gridlines = bool(v % 2)
                    ax.major_tick_mark = list(XL_TICK_MARK)[v % 4]; ax.minor_tick_mark = list(XL_TICK_MARK)[(v + 1) % 4]
            elif kind == 7:
                ax = axis(v % 2)
                if ax is not None:
                    ax.has_title = bool(v % 3)
                    if ax.has_title:
                        ax.axis_title.text_frame.text = "Axis"
            elif kind == 8:
                ax = axis(1)
                if ax is not None:
                    ax.maximum_scale = [None, 100, 50.5, 1e6, 10, 0.5, 7][v]; ax.minimum_scale = [None, 0, -5, 1, -1e3, 0.1, 2][v]
                    if hasattr(ax, "major_unit"):
                        ax.major_unit = [None, 10, 2.5, 1, 100, 0.25, 5][v]; ax.minor_unit = [None, 1, 0.5, 0.1, 10, 0.05, 1][v]
            elif kind == 9:
                ax = axis(v % 2)
                if ax is not None:
                    ax.tick_label_position = list(XL_TICK_LABEL_POSITION)[v % 4]
                    ax.tick_labels.number_format = ["General", "0.00", "#,##0", "0%", '"x"0', "[<100]0;0.0", "m/d/yyyy"][v]
                    ax.tick_labels.number_format_is_linked = bool(v % 2)
                    ax.tick_labels.font.size = Pt(8)
                    ax.visible = bool((v + 1) % 3)
            elif kind == 10:
                ax = axis(0)
                if ax is not None and hasattr(ax.tick_labels, "offset"):
                    ax.tick_labels.offset = [0, 100, 1000, 50, 500, 1, 999][v]
            elif kind == 11:
                ax = axis(1)
                if ax is not None:
                    ax.crosses = [XL_AXIS_CROSSES.AUTOMATIC, XL_AXIS_CROSSES.MAXIMUM, XL_AXIS_CROSSES.MINIMUM, XL_AXIS_CROSSES.CUSTOM][v % 4]
                    if v % 4 == 3:
                        ax.crosses_at = 2.5
                    ax.reverse_order = bool(v % 2)
            elif kind == 12 and plot is not None:
                plot.has_data_labels = bool(v % 2)
                if plot.has_data_labels:
                    dl = plot.data_labels
                    dl.number_format = "0.0"; dl.number_format_is_linked = False
                    dl.show_value = True; dl.show_category_name = bool(v % 3); dl.show_percentage = False
                    dl.font.size = Pt(7)
                    try:
                        dl.position = list(XL_LABEL_POSITION)[v % 5]
                    except ValueError:
                        pass
            elif kind == 13 and plot is not None:
                if hasattr(plot, "gap_width"):
                    plot.gap_width = [0, 500, 150, 50, 100, 219, 1][v]
                if hasattr(plot, "overlap"):
                    plot.overlap = [-100, 100, 0, 50, -50, 10, 1][v]
                plot.vary_by_categories = bool(v % 2)
            elif kind == 14 and plot is not None and hasattr(plot, "bubble_scale"):
                plot.bubble_scale = [None, 0, 300, 100, 50, 200, 1][v]
            elif kind == 15 and plot is not None and len(plot.series):
                s = plot.series[v % len(plot.series)]
                if _has(s, "smooth"):
                    s.smooth = bool(v % 2)
                if _has(s, "invert_if_negative"):
                    s.invert_if_negative = bool(v % 2)
                s.format.fill.solid(); s.format.fill.fore_color.rgb = __import__("pptx.dml.color", fromlist=["RGBColor"]).RGBColor(1, 2, 3)
                s.format.line.width = Pt(1)
            elif kind == 16 and plot is not None and len(plot.series):
                s = plot.series[v % len(plot.series)]
                if _has(s, "marker"):
                    s.marker.size = [None, 2, 72, 5, 10, 7, 20][v]; s.marker.style = [None] + list(XL_MARKER_STYLE)[:6][v % 7:v % 7 + 1] and list(XL_MARKER_STYLE)[v % 6]
                    s.marker.format.fill.solid()
            elif kind == 17 and plot is not None and len(plot.series):
                s = plot.series[v % len(plot.series)]
                pts = s.points
                if len(pts):
                    pt = pts[v % len(pts)]
                    pt.format.fill.solid()
                    pt.data_label.has_text_frame = bool(v % 2)
                    if v % 2:
                        pt.data_label.text_frame.text = "pt"
                    try:
                        pt.data_label.position = list(XL_LABEL_POSITION)[v % 5]
                    except ValueError:
                        pass
            elif kind == 18:
                # out of domain
                if v == 0:
                    ch.chart_style = 49
                elif v == 1 and plot is not None and _has(plot, "gap_width"):
                    plot.gap_width = 501
                elif v == 2:
                    ax = axis(1)
                    if ax is not None and _has(ax, "major_unit"):
                        ax.major_unit = -1
                elif v == 3 and ch.has_legend:
                    ch.legend.horz_offset = 1.5
                elif v == 4:
                    ax = axis(0)
                    if ax is not None and _has(ax.tick_labels, "offset"):
                        ax.tick_labels.offset = 1001
                elif v == 5 and plot is not None and _has(plot, "overlap"):
                    plot.overlap = 101
                elif v == 6 and plot is not None and len(plot.series) and _has(plot.series[0], "marker"):
                    plot.series[0].marker.size = 73
            elif kind == 19:
                ax = axis(v % 2)
                if ax is not None:
                    ax.format.line.width = Pt(2); ax.major_gridlines.format.line.dash_style = None
            elif kind == 20 and plot is not None:
                cats = plot.categories
                len(cats); list(cats); cats.depth; cats.flattened_labels
            elif kind == 21:
                ch.replace_data  # attribute access only
                list(ch.series)
            elif kind == 22 and ch.has_legend:
                ch.legend.font.bold = True; ch.legend.font.italic = False
            elif kind == 23:
                ch.has_title = True
                ch.chart_title.has_text_frame = bool(v % 2)
                ch.chart_title.format.fill.solid()
            elif kind == 25:
                # values the attribute's own conversion refuses, assigned where the element they would go into
                # may not exist yet (a refused call must not leave a half-built element behind)
                MIXED = XL_LABEL_POSITION.MIXED if hasattr(XL_LABEL_POSITION, "MIXED") else 999983
                if v == 0 and plot is not None:
                    plot.has_data_labels = True
                    plot.data_labels.position = MIXED
                elif v == 1 and plot is not None:
                    plot.has_data_labels = True
                    plot.data_labels.number_format = 42
                elif v == 2:
                    ax = axis(1)
                    if ax is not None:
                        ax.tick_labels.number_format = 42
                elif v == 3 and plot is not None and len(plot.series) and _has(plot.series[0], "data_labels"):
                    plot.series[0].data_labels.position = MIXED
                elif v == 4 and plot is not None and len(plot.series) and len(plot.series[0].points):
                    plot.series[0].points[0].data_label.position = MIXED
                elif v == 5 and ch.has_legend:
                    ch.legend.position = 999983
                else:
                    ch.font.name = "Bad\x01Name"
            elif kind == 26:
                ax = axis(v % 2)
                if ax is not None:
                    ax.has_title = True
                    if v % 3:
                        ax.axis_title.text_frame.text = "Axis"
                    ax.axis_title.has_text_frame = bool(v % 2)
                    if v >= 4:
                        ax.axis_title.format.fill.solid()
            else:
                ax = axis(0)
                if ax is not None:
                    ax.format.fill.background() if False else None
                    ax.has_major_gridlines = False; ax.has_minor_gridlines = False; ax.has_title = False
        info.update(slide=sl, target=gf, chart=ch)
        return self._call("chart_fmt%d" % kind, f, (ValueError, TypeError, NotImplementedError))

    # -------------------------------------------------------------- links
    def op_hyperlink(self, info, slide_i, shape_i, url_i):
        sl = self.slide(slide_i)
        if sl is None:
            return "skipped"
        sh = self.pick(sl, shape_i, lambda s: type(s).__name__ != "GroupShape" and _has(s, "click_action"))
        if sh is None:
            return "skipped"
        def f():
            sh.click_action.hyperlink.address = None if url_i < 0 else URLS[url_i]
        info.update(slide=sl, target=sh)
        info.setdefault("targets", []).append(sh)
        return self._call("hyperlink", f, (TypeError,) if type(sh).__name__ == "GroupShape" else ())

    def op_run_hyperlink(self, info, slide_i, shape_i, url_i):
        sl = self.slide(slide_i)
        if sl is None:
            return "skipped"
        sh = self._text_target(sl, shape_i)
        if sh is None:
            return "skipped"
        def f():
            p = sh.text_frame.paragraphs[-1]
            r = p.runs[-1] if p.runs else p.add_run()
            if not r.text:
                r.text = "link"
            r.hyperlink.address = None if url_i < 0 else URLS[url_i]
        info.update(slide=sl, target=sh)
        info.setdefault("targets", []).append(sh)
        return self._call("run_hyperlink", f)

    def op_seq(self, info, subops):
        """sub-operations that address the same slide and target; each is a full step (hooks run per sub-op)"""
        out = "skipped"
        for sub in subops:
            if self.stopped:
                break
            r = self.step(list(sub))
            if r != "skipped":
                out = "ok"
        return out

    def op_link_burst(self, info, slide_i, items):
        """several hyperlink assignments on few shapes of one slide: shared, re-assigned and cleared URLs"""
        out = "skipped"
        for shape_i, url_i, on_run in items:
            r = (self.op_run_hyperlink if on_run else self.op_hyperlink)(info, slide_i, shape_i, url_i)
            if r != "skipped":
                out = r if out in ("skipped", "ok") else out
        return out

    def op_target_slide(self, info, slide_i, shape_i, slide_j):
        sl = self.slide(slide_i)
        if sl is None:
            return "skipped"
        sh = self.pick(sl, shape_i, lambda s: type(s).__name__ != "GroupShape" and _has(s, "click_action"))
        if sh is None:
            return "skipped"
        def f():
            sh.click_action.target_slide = None if slide_j < 0 else self.slide(slide_j)
        info.update(slide=sl, target=sh)
        info.setdefault("targets", []).append(sh)
        return self._call("target_slide", f)

    def op_notes(self, info, slide_i, text_i):
        sl = self.slide(slide_i)
        if sl is None:
            return "skipped"
        def f():
            if text_i < 0:
                sl.has_notes_slide
                if sl.has_notes_slide:
                    sl.notes_slide.notes_text_frame
            else:
                ns = sl.notes_slide
                tf = ns.notes_text_frame
                if tf is not None:
                    tf.text = TEXTS[text_i]
        info.update(slide=sl, notes=True)
        return self._call("notes", f)

    def op_remove_layout(self, info, layout_i):
        layouts = list(self.prs.slide_layouts)
        if len(layouts) <= 1:
            return "skipped"
        lay = layouts[layout_i % len(layouts)]
        def f():
            self.prs.slide_layouts.remove(lay)
        return self._call("remove_layout", f, (ValueError,))

    def op_core_prop(self, info, i, text_i):
        names = ["author", "category", "comments", "content_status", "identifier", "keywords", "language",
                 "last_modified_by", "subject", "title", "version", "created", "modified", "last_printed", "revision"]
        n = names[i]
        def f():
            cp = self.prs.core_properties
            if n in ("created", "modified", "last_printed"):
                setattr(cp, n, dt.datetime(2001 + text_i, 2, 3, 4, 5, 6))
            elif n == "revision":
                cp.revision = text_i + 1
            else:
                setattr(cp, n, xml_clean(TEXTS[text_i]))
        return self._call("core_prop", f)

    def op_slide_prop(self, info, slide_i, which, text_i):
        sl = self.slide(slide_i)
        if sl is None:
            return "skipped"
        def f():
            if which == 0:
                sl.name = xml_clean(TEXTS[text_i])
            elif which == 1:
                self.prs.slide_width = [9144000, 12192000, 914400, 51206400][text_i % 4]
            elif which == 2:
                self.prs.slide_height = [6858000, 5143500, 914400, 51206400][text_i % 4]
            elif which == 3:
                sl.follow_master_background
                sl.background.fill.solid()
            else:
                sl.slide_layout.name
        info.update(slide=sl)
        return self._call("slide_prop", f)

    def op_turbo(self, info, slide_i, cont_i, flag):
        sl, c, d = self._container(slide_i, cont_i)
        if sl is None:
            return "skipped"
        def f():
            c.turbo_add_enabled = flag
        return self._call("turbo", f)

    # -------------------------------------------------------------- reads / rejected calls
    def op_read(self, info, kind, i):
        from . import snapshot
        def f():
            if kind == 0:
                snapshot.snapshot(self.prs)
            elif kind == 1:
                for sl in self.prs.slides:
                    sl.has_notes_slide; sl.slide_id; sl.name; sl.slide_layout.name
                    [(p.placeholder_format.idx, p.placeholder_format.type) for p in sl.placeholders]
            elif kind == 2:
                for m in self.prs.slide_masters:
                    [l.name for l in m.slide_layouts]; len(m.shapes); len(m.placeholders)
            elif kind == 3:
                cp = self.prs.core_properties
                cp.title, cp.author, cp.created, cp.revision
            elif kind == 4:
                sl = self.slide(i)
                if sl is not None:
                    for sh, _c, _d in iter_shapes(sl.shapes):
                        sh.shape_id, sh.name, sh.shape_type, sh.has_text_frame, sh.is_placeholder
                        getattr(sh, "has_chart", None), getattr(sh, "has_table", None)
            elif kind == 5:
                self.prs.slide_width, self.prs.slide_height, len(self.prs.slide_layouts), len(self.prs.slides)
            elif kind == 6:
                sl = self.slide(i)
                if sl is not None:
                    for sh, _c, _d in iter_shapes(sl.shapes):
                        if getattr(sh, "has_text_frame", False):
                            for p in sh.text_frame.paragraphs:
                                p.text, p.level, p.alignment, [r.text for r in p.runs], p.font.size
            else:
                sl = self.slide(i)
                if sl is not None:
                    for sh, _c, _d in iter_shapes(sl.shapes):
                        sh.left, sh.top, sh.width, sh.height
                        if _has(sh, "fill") and type(sh).__name__ == "Shape":
                            sh.fill.type
                        if _has(sh, "line"):
                            sh.line.width
        return self._call("read%d" % kind, f)

    def op_bad_call(self, info, kind, i):
        """calls the API documents as refused"""
        def f():
            slides = self.prs.slides
            if kind == 0:
                slides[len(slides) + i]
            elif kind == 1:
                self.prs.slide_layouts[len(self.prs.slide_layouts) + i]
            elif kind == 2:
                sl = self.slide(i)
                if sl is None:
                    raise IndexError("no slide")
                sl.shapes[len(sl.shapes) + 3]
            elif kind == 3:
                used = [l for l in self.prs.slide_layouts if l.used_by_slides]
                if not used:
                    raise ValueError("none in use")
                self.prs.slide_layouts.remove(used[0])
            elif kind == 4:
                slides.get(999999, None)
                raise ValueError("nothing to refuse")
            elif kind == 5:
                sl = self.slide(i)
                if sl is None:
                    raise KeyError("no slide")
                sl.placeholders[9999]
            else:
                self.prs.slide_width = [-1, 51206401, 914399][i % 3]
        return self._call("bad_call%d" % kind, f, (IndexError, ValueError, KeyError))

    # -------------------------------------------------------------- save
    def save_bytes(self):
        buf = io.BytesIO()
        with sut("op:save"):
            self.prs.save(buf)
        return buf.getvalue()

    def op_save(self, info):
        data = self.save_bytes()
        self.saves += 1
        self.last_saved = data
        for h in self.hooks:
            if hasattr(h, "at_save"):
                h.at_save(self, data)
        return "ok"

    def op_save_reopen(self, info):
        from pptx import Presentation
        self.op_save(info)
        with sut("op:reopen"):
            self.prs = Presentation(io.BytesIO(self.last_saved))
        self.slides_accessed = False
        info["reopened"] = True
        for h in self.hooks:
            if hasattr(h, "at_reopen"):
                h.at_reopen(self)
        return "ok"


RICH_PRELUDE = [
    ["add_slide", 1], ["add_slide", 5], ["add_slide", 8],
    ["add_textbox", 0, 0, 914400, 914400, 1828800, 914400], ["set_text", 0, 0, 0, 12],
    ["add_shape", 1, 0, 3, 0, 0, 914400, 914400], ["add_table", 1, 3, 3, 914400, 914400, 3000001, 1000003],
    ["add_chart", 1, 0, 0, 2, 2], ["add_chart", 1, 7, 0, 2, 1], ["add_chart", 0, 2, 1, 3, 2],
    ["add_picture", 1, 0, 0, 0, False], ["add_group", 1, 0, 0], ["add_shape", 1, 1, 5, 100, 100, 914400, 914400],
    ["add_textbox", 1, 1, 5000, 5000, 914400, 457200], ["add_connector", 1, 0, 0, 0, 0, 914400, 914400],
    ["notes", 0, 2], ["hyperlink", 1, 1, 0],
]
