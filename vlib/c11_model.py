"""C11 helpers: attribute bindings of the oxml element classes, their XSD simple types, the value
sets for the setter direction and the lexical alternatives for the reader direction.

Everything on the oracle side comes from the XSD files (contentmodel facets + libxml2 probes); the
only facts taken from python-pptx are *which* attribute of *which* element a simple-type class is
bound to (recovered from the closures of the generated properties) and the declared default.
"""
from __future__ import annotations

import decimal
import fractions
import math
import re

from lxml import etree

from . import contentmodel as CM
from . import xsdoracle as XO
from .core import HarnessError

XSD = "http://www.w3.org/2001/XMLSchema"
NS_A = XO.NS_A
NS_C = XO.NS_C
NS_P = XO.NS_P
NS_R = XO.NS_R
NS_CT = XO.NS_CT
NS_REL = XO.NS_REL
NS_SH = "http://schemas.openxmlformats.org/officeDocument/2006/sharedTypes"

# ---------------------------------------------------------------------------------- semantics
# unit of the Python value relative to the integer lexical form (ISO 29500-1: ST_Percentage and the
# text percent types are 1000ths of a percent with 1.0 == 100 % in the python-pptx API, except the
# font scale whose API unit is percent; angles are 60000ths of a degree; spacing points are 100ths
# of a point while the API unit is EMU = 1/127 centipoint).  python = lexical / scale.
SEM = {
    "ST_Percentage": ("scaled", 100000.0),
    "ST_PositiveFixedPercentage": ("scaled", 100000.0),
    "ST_TextSpacingPercentOrPercentString": ("scaled", 100000.0),
    "ST_TextFontScalePercentOrPercentString": ("scaled", 1000.0),
    "ST_Angle": ("angle", 60000.0),
    "ST_PositiveFixedAngle": ("angle", 60000.0),
    "ST_TextSpacingPoint": ("emu-centipoint", 1.0 / 127.0),
}
FULL_TURN = 21600000

# documented as not validated by python-pptx: only round-tripped (DESIGN guard)
UNVALIDATED = {"XsdAnyUri", "ST_ContentType", "XsdId", "ST_Extension"}

INT_PRIMS = {
    "byte": (-128, 127), "short": (-32768, 32767), "int": (-2 ** 31, 2 ** 31 - 1),
    "long": (-2 ** 63, 2 ** 63 - 1), "unsignedByte": (0, 255), "unsignedShort": (0, 65535),
    "unsignedInt": (0, 2 ** 32 - 1), "unsignedLong": (0, 2 ** 64 - 1), "integer": (None, None),
    "nonNegativeInteger": (0, None), "positiveInteger": (1, None), "negativeInteger": (None, -1),
    "nonPositiveInteger": (None, 0),
}
STR_PRIMS = {"string", "token", "normalizedString", "anyURI", "ID", "NCName", "Name", "NMTOKEN", "language"}

PAT_PERCENT = "-?[0-9]+(\\.[0-9]+)?%"
PAT_UNIVERSAL = "-?[0-9]+(\\.[0-9]+)?(mm|cm|in|pt|pc|pi)"
UNIT_EMU = {"mm": 36000, "cm": 360000, "in": 914400, "pt": 12700, "pc": 152400, "pi": 152400}


# ---------------------------------------------------------------------------------- world

_W = {}


def world():
    if _W:
        return _W
    import pptx  # noqa
    import pptx.opc.oxml  # noqa  registers ct:/pr: element classes
    from pptx.oxml import element_class_lookup
    from pptx.oxml.ns import _nsmap, pfxmap
    from pptx.opc.oxml import nsmap as opc_nsmap
    from pptx.oxml.xmlchemy import BaseAttribute, RequiredAttribute

    uris = dict(_nsmap)
    uris.update(opc_nsmap)
    reg = {}
    for pfx, uri in sorted(uris.items()):
        try:
            nsobj = element_class_lookup.get_namespace(uri)
        except Exception:
            continue
        for local, cls in nsobj.items():
            if local is None:
                continue
            local = local.decode() if isinstance(local, bytes) else local
            reg[(uri, local)] = cls
    pf = dict(pfxmap)
    for p, u in opc_nsmap.items():
        pf.setdefault(u, p)
    S = CM.Schemas()
    ET = S.element_types()
    gattr = {}
    for root in S.roots:
        tns = root.get("targetNamespace")
        for ch in root:
            if ch.tag == CM.Q("attribute") and ch.get("name") and ch.get("type"):
                gattr["{%s}%s" % (tns, ch.get("name"))] = S.qname(ch, ch.get("type"))
    bindings = {}
    unbound = []
    for (uri, local), cls in sorted(reg.items()):
        for prop, a in sorted(_find_attrs(cls, BaseAttribute).items()):
            clark = a._clark_name
            xs = []
            for ty in sorted(t for t in ET.get((uri, local), ()) if t is not None):
                ent = S.attributes(ty).get(clark)
                if ent is None:
                    continue
                tq = ent[0] if ent[0] is not None else gattr.get(clark)
                if tq is not None and tq not in xs:
                    xs.append(tq)
            bid = "%s:%s/%s" % (pf.get(uri, "?"), local, prop)
            b = {
                "id": bid, "uri": uri, "local": local, "pfx": pf.get(uri, "n"), "cls": cls, "prop": prop,
                "clark": clark, "attr": a._attr_name, "required": isinstance(a, RequiredAttribute),
                "stype": a._simple_type, "sname": a._simple_type.__name__,
                "default": getattr(a, "_default", None), "xsd": xs,
            }
            if not xs:
                unbound.append(bid)
                continue
            b["kind"] = _kind(b, S)
            bindings[bid] = b
    by_attr = {}
    for b in bindings.values():
        by_attr[(b["uri"], b["local"], b["clark"])] = b
    _W.update(reg=reg, uris=uris, pf=pf, S=S, ET=ET, bindings=bindings, unbound=unbound, gattr=gattr,
              by_attr=by_attr, attr_types={})
    return _W


def attr_types(uri, local, clark):
    """XSD simple types the schema declares for attribute `clark` of element {uri}local (any of the
    complex types that element name is declared with)."""
    w = world()
    key = (uri, local, clark)
    if key not in w["attr_types"]:
        xs = []
        for ty in sorted(t for t in w["ET"].get((uri, local), ()) if t is not None):
            ent = w["S"].attributes(ty).get(clark)
            if ent is None:
                continue
            tq = ent[0] if ent[0] is not None else w["gattr"].get(clark)
            if tq is not None and tq not in xs:
                xs.append(tq)
        w["attr_types"][key] = xs
    return w["attr_types"][key]


def _find_attrs(cls, BaseAttribute):
    out = {}
    for klass in cls.__mro__:
        for name, v in vars(klass).items():
            if not isinstance(v, property):
                continue
            for f in (v.fget, v.fset):
                for c in (getattr(f, "__closure__", None) or ()):
                    try:
                        a = c.cell_contents
                    except ValueError:
                        continue
                    if isinstance(a, BaseAttribute) and hasattr(a, "_simple_type"):
                        out.setdefault(name, a)
    return out


def _members(facets):
    """flatten union members -> list of non-union facet dicts"""
    if "union" in facets:
        out = []
        for m in facets["union"]:
            out += _members(m)
        return out
    return [facets]


def prim_of(f):
    b = f.get("base")
    return b[1] if b and b[0] == XSD else None


def int_bounds(S, tyq):
    """(lo, hi) of the integer member of the type (None = unbounded / no integer member -> None)."""
    for f in _members(S.facets(tyq)):
        p = prim_of(f)
        if p in INT_PRIMS:
            lo, hi = INT_PRIMS[p]
            for k, sign, excl in (("min", 1, 0), ("minx", 1, 1), ("max", -1, 0), ("maxx", -1, 1)):
                if k in f:
                    v = int(f[k]) + sign * excl
                    if sign == 1:
                        lo = v if lo is None else max(lo, v)
                    else:
                        hi = v if hi is None else min(hi, v)
            return lo, hi
    return None


def _kind(b, S):
    from pptx.enum.base import BaseXmlEnum

    st = b["stype"]
    if isinstance(st, type) and issubclass(st, BaseXmlEnum):
        return "enum"
    if b["sname"] in SEM:
        return SEM[b["sname"]][0]
    prims = [prim_of(f) for f in _members(S.facets(b["xsd"][0]))]
    for p in prims:
        if p in INT_PRIMS:
            return "int"
    if "double" in prims or "float" in prims or "decimal" in prims:
        return "float"
    if "boolean" in prims:
        return "bool"
    if "hexBinary" in prims:
        return "hex"
    fs = _members(S.facets(b["xsd"][0]))
    if any("enum" in f for f in fs):
        return "token"
    return "str"


# ---------------------------------------------------------------------------------- XSD validity

_probe = {}


def valid(tyq, lexical):
    """libxml2 verdict: is `lexical` a valid value of the named simple type."""
    ns, name = tyq
    if ns in (NS_CT, NS_REL):
        key = (ns, name)
        if key not in _probe:
            fn = "opc-contentTypes.xsd" if ns == NS_CT else "opc-relationships.xsd"
            xsd = ('<xsd:schema xmlns:xsd="%s" xmlns:t="%s"><xsd:import namespace="%s" schemaLocation="%s%s"/>'
                   '<xsd:element name="probe"><xsd:complexType><xsd:attribute name="v" type="t:%s"/>'
                   "</xsd:complexType></xsd:element></xsd:schema>" % (XSD, ns, ns, XO.OPCXD, fn, name))
            try:
                _probe[key] = etree.XMLSchema(etree.fromstring(xsd))
            except etree.XMLSchemaParseError as e:
                raise HarnessError("probe schema for %s does not compile: %s" % (name, e))
        el = etree.Element("probe")
        el.set("v", lexical)
        return bool(_probe[key].validate(el))
    return XO.validate_simple(ns, name, lexical)


def valid_any(tyqs, lexical):
    return any(valid(t, lexical) for t in tyqs)


_NUMERIC_RX = re.compile(r"^[+-]?[0-9]+$|^-?[0-9]+(\.[0-9]+)?(mm|cm|in|pt|pc|pi|%)$")


def valid_written(b, lexical):
    """validity of a lexical form *written for a Python value*: for numeric attributes whose XSD type is a
    union with a free token member (ST_AdjCoordinate) the token alternative does not count."""
    if b is not None and b.get("kind") in ("int", "scaled", "angle", "emu-centipoint") and not _NUMERIC_RX.match(lexical):
        return False
    return valid_any(b["xsd"], lexical)


_INT_RX = re.compile(r"^[+-]?[0-9]+$")


def lex_class(S, tyqs, lexical):
    """how an invalid written lexical misses the type: above-max / below-min / malformed"""
    if _INT_RX.match(lexical):
        n = int(lexical)
        for t in tyqs:
            bd = int_bounds(S, t)
            if bd:
                if bd[1] is not None and n > bd[1]:
                    return "above-max"
                if bd[0] is not None and n < bd[0]:
                    return "below-min"
    return "malformed"


# ---------------------------------------------------------------------------------- value specs

def enc_member(m):
    return {"t": "member", "mod": type(m).__module__, "cls": type(m).__name__, "name": m.name}


def dec(spec):
    """JSON-like value spec -> Python object handed to the setter."""
    if isinstance(spec, dict) and "t" in spec:
        t = spec["t"]
        if t == "decimal":
            return decimal.Decimal(spec["s"])
        if t == "fraction":
            return fractions.Fraction(spec["n"], spec["d"])
        if t == "complex":
            return complex(spec["re"], spec["im"])
        if t == "list":
            return [dec(x) for x in spec["v"]]
        if t == "tuple":
            return tuple(dec(x) for x in spec["v"])
        if t == "dict":
            return {}
        if t == "member":
            import importlib
            return getattr(importlib.import_module(spec["mod"]), spec["cls"])[spec["name"]]
        if t == "length":
            import pptx.util as U
            return getattr(U, spec["cls"])(spec["v"])
        if t == "rgb":
            from pptx.dml.color import RGBColor
            return RGBColor.from_string(spec["v"])
        raise HarnessError("unknown value spec %r" % (spec,))
    return spec


def vclass(spec):
    if spec is None:
        return "none"
    if isinstance(spec, bool):
        return "bool"
    if isinstance(spec, int):
        return "int" if abs(spec) < 2 ** 64 else "huge-int"
    if isinstance(spec, float):
        if spec != spec or spec in (math.inf, -math.inf):
            return "nonfinite"
        return "float-integral" if spec.is_integer() else "float"
    if isinstance(spec, str):
        return "str"
    if isinstance(spec, bytes):
        return "bytes"
    if isinstance(spec, dict) and "t" in spec:
        return spec["t"]
    return "other"


def is_number_spec(spec):
    return isinstance(spec, (int, float)) and not isinstance(spec, bool)


WRONG_COMMON = [
    None, True, False, "1", "", "abc", b"1", {"t": "decimal", "s": "1"}, {"t": "decimal", "s": "1.5"},
    {"t": "fraction", "n": 1, "d": 2}, {"t": "complex", "re": 1.0, "im": 0.0}, {"t": "list", "v": [1]},
    {"t": "tuple", "v": [1]}, {"t": "dict"},
]
NONFINITE = [math.nan, math.inf, -math.inf]
INT_ENUM_MEMBER = {"t": "member", "mod": "pptx.enum.text", "cls": "PP_PARAGRAPH_ALIGNMENT", "name": "CENTER"}  # int 2


def _near(x, steps=(-2, -1, 0, 1, 2)):
    out = []
    for u in steps:
        y = x
        for _ in range(abs(u)):
            y = math.nextafter(y, math.inf if u > 0 else -math.inf)
        out.append(y)
    return out


def _dedupe(specs):
    seen = set()
    out = []
    for s in specs:
        k = repr(s) + type(s).__name__
        if k not in seen:
            seen.add(k)
            out.append(s)
    return out


def bounds_for(b):
    if "_bounds" in b:
        return b["_bounds"]
    b["_bounds"] = _bounds_for(b)
    return b["_bounds"]


def _bounds_for(b):
    S = world()["S"]
    out = []
    for t in b["xsd"]:
        bd = int_bounds(S, t)
        if bd and bd not in out:
            out.append(bd)
    return out


def values_for(b):
    """boundary / wrong-type value specs for the setter of binding b (deterministic list)."""
    kind = b["kind"]
    bds = bounds_for(b)
    vals = []
    if kind == "int":
        ks = {0, 1, -1, 2, 127, 128, 255, 256, 65535, 65536, 2 ** 31 - 1, 2 ** 31, -2 ** 31, -2 ** 31 - 1,
              2 ** 32 - 1, 2 ** 32, 2 ** 63 - 1, 2 ** 63, -2 ** 63, -2 ** 63 - 1, 10 ** 30, -10 ** 30}
        fl = {1.0, 1.5, -0.0}
        for lo, hi in bds:
            for x in (lo, hi):
                if x is not None:
                    ks |= {x - 1, x, x + 1}
                    fl |= {float(x), x + 0.5}
            if lo is not None and hi is not None:
                ks.add((lo + hi) // 2)
        vals += sorted(ks) + sorted(fl)
        mid = [(lo + hi) // 2 if lo is not None and hi is not None else 5 for lo, hi in bds] or [5]
        vals += [{"t": "length", "cls": "Emu", "v": mid[0]}, INT_ENUM_MEMBER]
        vals += WRONG_COMMON + NONFINITE
    elif kind == "emu-centipoint":
        ks = set()
        for lo, hi in bds:
            for k in (lo - 1, lo, lo + 1, hi - 1, hi, hi + 1, (lo + hi) // 2, 1200):
                for r in (-1, 0, 1, 63, 126):
                    ks.add(k * 127 + r)
        vals += sorted(ks) + [12700.0, 1.5, {"t": "length", "cls": "Pt", "v": 12}, {"t": "length", "cls": "Pt", "v": 1584},
                              {"t": "length", "cls": "Pt", "v": 1585}, INT_ENUM_MEMBER]
        vals += WRONG_COMMON + NONFINITE
    elif kind in ("scaled", "angle"):
        scale = SEM[b["sname"]][1]
        ks = {0, 1, -1, 2}
        for lo, hi in bds:
            for x in (lo, hi):
                if x is not None:
                    ks |= {x - 1, x, x + 1}
            if lo is not None and hi is not None:
                ks.add((lo + hi) // 2)
        if kind == "angle":
            ks |= {FULL_TURN - 1, FULL_TURN, FULL_TURN + 1, FULL_TURN // 2, 2 * FULL_TURN - 1, 2 * FULL_TURN,
                   -FULL_TURN + 1, -FULL_TURN, -FULL_TURN - 1, 5400000, -5400000}
        fs = []
        for k in sorted(ks):
            for d in (-0.5, -0.49, 0.0, 0.49, 0.5):
                fs += _near((k + d) / scale)
        fs += [1e-9, -1e-9, 1e-300, -1e-300, 5e-324, -5e-324, 1e15, -1e15, 1e300, -1e300, 0.0, -0.0, 0.5, 0.25]
        vals += fs
        vals += [int(f) for f in fs if abs(f) < 1e18 and float(f).is_integer()]
        vals += [1, 0, 90, 360, -90, 100, 132, 133, 10 ** 30, -10 ** 30]
        vals += WRONG_COMMON + NONFINITE + [INT_ENUM_MEMBER]
    elif kind == "float":
        vals += [0, 1, -1, 0.0, -0.0, 1.5, -1.5, 1e22, 1e-7, 5e-324, -5e-324, 1.7976931348623157e308,
                 -1.7976931348623157e308, 2 ** 53 + 1, 10 ** 22, 0.1, 1 / 3.0, 1e-300, 123456789.123456789]
        vals += WRONG_COMMON + NONFINITE + [INT_ENUM_MEMBER]
    elif kind == "bool":
        vals += [True, False, 1, 0, 1.0, 0.0, 2, -1, 0.5, "true", "false", "1", "0", "", None, b"1",
                 {"t": "list", "v": []}, {"t": "decimal", "s": "1"}, math.nan, INT_ENUM_MEMBER]
    elif kind == "enum":
        st = b["stype"]
        members = list(st)
        vals += [enc_member(m) for m in members]
        vals += sorted({int(m) for m in members})[:12]
        vals += [12345678, -12345678, None, True, False, 1.0, 1.5, "", "center", b"x", math.nan,
                 {"t": "decimal", "s": "1"}, {"t": "list", "v": [1]}]
        vals += [m.xml_value for m in members[:3] if m.xml_value]
    elif kind == "hex":
        vals += ["FF0000", "ff00aa", "abcdef", "000000", "12345", "1234567", "GGGGGG", "+12345", "-1234A",
                 " 12345", "12345 ", "0x1234", "0X12AB", "1_2345", "", "FF 000", "ＦＦ0000", "١٢٣٤٥٦",
                 None, 1, 0xFF0000, 1.5, True, b"FF0000", {"t": "rgb", "v": "FF0000"}, {"t": "tuple", "v": [255, 0, 0]}]
    else:  # str / token
        S = world()["S"]
        toks = []
        for t in b["xsd"]:
            toks += sorted(S.enumeration(t) or ())
        vals += toks
        vals += [x.upper() for x in toks[:2]] + [x + " " for x in toks[:1]] + ["bogus"]
        if kind == "str":
            vals += ["a", "x y", " lead", "trail ", "é", "中文", "a\nb", "a\tb", "&<>\"'", "\x00", "a\x0bb",
                     "\ud800", "￾", "x" * 300, "rId1", "http://x/y", "/ppt/slides/slide1.xml",
                     "application/xml", "xml"]
        vals += ["", None, 1, 1.5, True, b"abc", {"t": "list", "v": ["a"]}, {"t": "decimal", "s": "1"}]
    return _dedupe(vals)


# ---------------------------------------------------------------------------------- lexical forms

DOUBLE_FORMS = [("1", 1.0), ("1.0", 1.0), ("-1.5", -1.5), ("1e3", 1000.0), ("1E3", 1000.0), ("1.5e-3", 0.0015),
                ("+1.0", 1.0), (".5", 0.5), ("5.", 5.0), ("0", 0.0), ("-0", -0.0), ("INF", math.inf),
                ("-INF", -math.inf), ("NaN", math.nan), ("1.7976931348623157E308", 1.7976931348623157e308),
                ("4.9E-324", 5e-324), ("0.000001", 1e-6), ("123456789.125", 123456789.125)]
UNIVERSAL_FORMS = [("1.5pt", 19050), ("2in", 1828800), ("3mm", 108000), ("0.25cm", 90000), ("1pc", 152400),
                   ("1pi", 152400), ("-1in", -914400), ("0pt", 0), ("72pt", 914400), ("12.7mm", 457200),
                   ("0.5in", 457200), ("10cm", 3600000), ("001pt", 12700)]
GUIDE_NAMES = ["hc", "vc", "adj1", "wd2", "ss", "t", "b", "l", "r", "x1", "connsiteX0"]
STRING_SAMPLES = ["a", "A b", "é", "rId1", "rId12", "http://x/y", "/ppt/slides/slide1.xml", "application/xml",
                  "xml", "en-US", "_x", "Arial", "+mn-lt", "ppaction://hlinkshowjump?jump=nextslide",
                  "application/vnd.openxmlformats-officedocument.presentationml.slide+xml", "jpeg"]
LANG_TAGS = ["en-US", "en-GB", "de-DE", "fr-FR", "ja-JP", "zh-CN", "en-AU", "de-CH", "pt-BR", "es-MX", "es-419",
             "en-ZW", "sr-Latn-RS"]


def percent_scale(tyq):
    """integer-lexical units per percent: DrawingML percent types are 1000ths of a percent, the chart
    percent types (ST_GapAmount, ST_Overlap, ...) are whole percents."""
    return 1 if tyq[0] == NS_C else 1000


def lexicals(tyq):
    """[(lexical, form, canon_lexical_or_None, expect_or_None)] — only libxml2-valid ones."""
    S = world()["S"]
    key = ("lex", tyq)
    if key in _W:
        return _W[key]
    cands = []
    ms = _members(S.facets(tyq))
    bd = int_bounds(S, tyq)
    for f in ms:
        p = prim_of(f)
        if p in INT_PRIMS:
            lo, hi = bd
            ks = {0, 1, -1, 7}
            for x in (lo, hi):
                if x is not None:
                    ks |= {x, x + 1, x - 1}
            if lo is not None and hi is not None:
                ks.add((lo + hi) // 2)
            if lo is None:
                ks.add(-10 ** 20)
            if hi is None:
                ks.add(10 ** 20)
            for k in sorted(ks):
                cands.append((str(k), "int", None, None))
                if k >= 0:
                    cands.append(("+%d" % k, "plus-int", str(k), None))
                cands.append((("-00%d" % -k) if k < 0 else "00%d" % k, "zero-padded", str(k), None))
            cands.append(("-0", "neg-zero", "0", None))
        elif p in ("double", "float", "decimal"):
            for lx, ex in DOUBLE_FORMS:
                cands.append((lx, "double", None, ex))
        elif p == "boolean":
            cands += [("true", "bool-word", "1", None), ("false", "bool-word", "0", None),
                      ("1", "bool-digit", None, None), ("0", "bool-digit", None, None)]
        elif p == "hexBinary":
            cands += [("FF0000", "hex-upper", None, None), ("ff0000", "hex-lower", None, None),
                      ("aBcDeF", "hex-mixed", None, None), ("000000", "hex-upper", None, None)]
        elif p in STR_PRIMS:
            pats = f.get("patterns") or []
            if "enum" in f:
                for tok in f["enum"]:
                    cands.append((tok, "enum-token", None, None))
            elif PAT_UNIVERSAL in pats:
                for lx, emu in UNIVERSAL_FORMS:
                    cands.append((lx, "universal-measure", str(emu), None))
            elif pats and pats[0] == PAT_PERCENT or (pats and pats[-1].endswith("%")):
                ps = percent_scale(tyq)
                pc = ["0%", "1%", "50%", "100%", "150%", "-50%", "-100%", "7%", "050%", "300%", "500%", "1000%",
                      "99%", "12.5%", "-1.5%", "33.333%", "100.0%", "0.001%", "99.99%"]
                for lx in pc:
                    x = decimal.Decimal(lx[:-1]) * ps
                    canon = str(int(x)) if x == x.to_integral_value() else None
                    cands.append((lx, "percent", canon, None))
            elif pats:
                pass  # unknown pattern: Hypothesis from_regex at search time + fixed samples below
            if "enum" not in f and not pats:
                for s in (GUIDE_NAMES if p == "token" else []) + STRING_SAMPLES:
                    cands.append((s, "token" if p == "token" else "string", None, None))
    out = []
    seen = set()
    for c in cands:
        if c[0] in seen:
            continue
        if not valid(tyq, c[0]):
            continue
        if c[2] is not None and not valid(tyq, c[2]):
            c = (c[0], c[1], None, None)  # equivalent integer form not itself in the type's value space
        seen.add(c[0])
        out.append(c)
    _W[key] = out
    return out


def classify_lexical(lx):
    if _INT_RX.match(lx):
        if lx.startswith("+"):
            return "plus-int"
        if re.match(r"^-?0[0-9]", lx):
            return "zero-padded"
        return "int"
    if lx.endswith("%"):
        return "percent"
    if lx[-2:] in UNIT_EMU and re.match(r"^-?[0-9]", lx):
        return "universal-measure"
    return "string"
