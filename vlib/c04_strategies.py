"""Text strategies for checks whose inputs are caller strings (written for C04, meant to be shareable).

`xml_text(max_len)` draws from the XML 1.0 `Char` production
    #x9 | #xA | #xD | [#x20-#xD7FF] | [#xE000-#xFFFD] | [#x10000-#x10FFFF]
plus (with `c0=True`) every other C0 control character U+0000..U+001F. Surrogates, U+FFFE and
U+FFFF are never produced. Strings are built from *tokens* (single characters of interesting
classes and short multi-character lumps) so that the classes a text sink can get wrong are dense:
breaks (LF, VT) alone / leading / trailing / in runs, CR and CRLF, whitespace-only content, all C0
controls, `_xHHHH_` escape look-alikes, markup characters and `]]>`, entity look-alikes, C1 and
other unusual-but-legal code points, astral code points.

Pure functions `classes_of(s)` / `is_xml_char_text(s)` classify a string without reference to any
library under test.
"""
from hypothesis import strategies as st

BREAKS = ["\n", "\v"]
C0_OTHER = [chr(c) for c in range(0x20) if c not in (0x09, 0x0A, 0x0B)]  # includes CR, FF, FS..US, NUL
BLANKS = [" ", "\t", " ", " ", "\t"]
UNI_SPACE = ["\u00a0", "\u2028", "\u2029", "\u0085", "\u3000", "\u200b", "\ufeff"]
MARKUP = ["&", "<", ">", '"', "'"]
PLAIN = list("abcxyzAZ09") + ["_", "x", "-", ".", ";", "#", "]", "["]
BMP_ODD = ["\x7f", "\x80", "\x9f", "\u00e9", "\u0301", "\u4e2d", "\ud7ff", "\ue000", "\ufdd0", "\ufffd",
           "\u202e", "\u00ad"]
ASTRAL = ["\U0001f600", "\U00010000", "\U0010ffff", "\U0001fffe", "\U000e0001", "\U0002a6d6"]
LOOKALIKE = ["_x000A_", "_x000D_", "_x000B_", "_x0007_", "_x0009_", "_x005F_", "_x005F_x000A_", "_x000a_",
             "_xABCD_", "_x0000_", "_x001F_", "_x", "_x000A", "x000A_", "__x000A__", "_X000A_", "_x0020_"]
LUMPS = ["]]>", "&amp;", "&lt;", "&#10;", "&#x0B;", "&#13;", "<a:br/>", "</a:t>", "<![CDATA[", "-->", "<?x?>",
         "\r\n", "\n\n", "\v\v", "\n\v", "\v\n", "\n\r", "  ", " \n ", " \v ", "\t\n", "\n ", " \n",
         "\x1f", "\x1e", "\x1c", "\x0c", "\x0b\x0c", "\x00", "\x08", "\x0e"]


def _token(c0=True):
    pools = [
        (6, st.sampled_from(PLAIN)),
        (5, st.sampled_from(BREAKS)),
        (4, st.sampled_from(BLANKS)),
        (3, st.sampled_from(MARKUP)),
        (3, st.sampled_from(LOOKALIKE)),
        (3, st.sampled_from(LUMPS if c0 else [t for t in LUMPS if not any(ord(ch) < 0x20 and ch not in "\t\n\r" for ch in t)])),
        (2, st.sampled_from(UNI_SPACE)),
        (2, st.sampled_from(BMP_ODD)),
        (2, st.sampled_from(ASTRAL)),
        (1, st.characters(min_codepoint=0x20, max_codepoint=0xD7FF)),
        (1, st.characters(min_codepoint=0xE000, max_codepoint=0xFFFD)),
        (1, st.characters(min_codepoint=0x10000, max_codepoint=0x10FFFF)),
    ]
    pools.append((2, st.sampled_from(["\r", "\r\n", "\r"])))
    if c0:
        pools.append((4, st.sampled_from(C0_OTHER)))
    flat = []
    for w, s in pools:
        flat.extend([s] * w)
    return st.one_of(*flat)


def _rep(long):
    if long:
        return st.sampled_from([1, 1, 1, 1, 1, 1, 2, 2, 3, 5, 17, 60, 150, 301])
    return st.sampled_from([1, 1, 1, 1, 1, 1, 1, 2, 2, 3])


def xml_text(max_len=40, c0=True):
    """Strategy for str of length 0..max_len (code points) as described in the module docstring."""
    long = max_len > 80
    tok = _token(c0)
    piece = st.tuples(tok, _rep(long)).map(lambda t: t[0] * t[1])
    ntok = 14 if not long else 40
    general = st.lists(piece, min_size=1, max_size=ntok).map("".join)
    ws_char = st.sampled_from([" ", "\t", "\n", "\v", " ", "\n", "\v"])
    ws_only = st.lists(st.tuples(ws_char, _rep(long)).map(lambda t: t[0] * t[1]), min_size=1, max_size=8).map("".join)
    brk_run = st.lists(st.sampled_from(BREAKS + ["\n", "\v", " "]), min_size=1, max_size=5).map("".join)
    edged = st.tuples(st.one_of(st.just(""), brk_run, st.sampled_from(BLANKS)), general,
                      st.one_of(st.just(""), brk_run, st.sampled_from(BLANKS))).map("".join)
    ctrl_heavy = st.lists(st.one_of(st.sampled_from(C0_OTHER + ["\v", "\n", "\t"]), st.sampled_from(PLAIN)),
                          min_size=1, max_size=10).map("".join) if c0 else general
    single = st.sampled_from([""] + BREAKS + BLANKS + MARKUP + (C0_OTHER if c0 else ["\r"]))
    s = st.one_of(general, general, general, edged, edged, ws_only, ctrl_heavy, single)
    return s.map(lambda x: x[:max_len])


def xml_safe_text(max_len=12):
    """Text that can sit literally in an XML file and survive an XML 1.0 parse unchanged (no C0 other than
    TAB/LF, no CR): used for *prior* content of a text body."""
    tok = st.one_of(st.sampled_from(PLAIN), st.sampled_from(PLAIN), st.sampled_from([" ", " ", "\t", "  "]),
                    st.sampled_from(MARKUP), st.sampled_from(LOOKALIKE), st.sampled_from(ASTRAL + BMP_ODD),
                    st.sampled_from(["\n", "]]>", "&amp;"]))
    return st.lists(tok, min_size=0, max_size=6).map(lambda l: "".join(l)[:max_len])


# ------------------------------------------------------------------ classification (pure)

def is_xml_char(ch):
    o = ord(ch)
    return o in (0x9, 0xA, 0xD) or 0x20 <= o <= 0xD7FF or 0xE000 <= o <= 0xFFFD or 0x10000 <= o <= 0x10FFFF


def in_domain(s, c0=True):
    for ch in s:
        if is_xml_char(ch):
            continue
        if c0 and ord(ch) < 0x20:
            continue
        return False
    return True


_WS = " \t\n\v\r\f"


def classes_of(s):
    """Input classes present in s (names used in evidence histograms)."""
    out = []
    if s == "":
        out.append("empty")
        return out
    if "\n" in s:
        out.append("lf")
    if "\v" in s:
        out.append("vt")
    if "\r" in s:
        out.append("cr")
    if "\t" in s:
        out.append("tab")
    if any(ord(c) < 0x20 and c not in "\t\n\v\r" for c in s):
        out.append("c0-other")
    if "\x1f" in s:
        out.append("c0-1f")
    if all(c in _WS for c in s):
        out.append("ws-only")
    else:
        if s[0] in _WS:
            out.append("ws-lead")
        if s[-1] in _WS:
            out.append("ws-trail")
    if s[0] in "\n\v":
        out.append("break-lead")
    if s[-1] in "\n\v":
        out.append("break-trail")
    if any(a in "\n\v" and b in "\n\v" for a, b in zip(s, s[1:])):
        out.append("break-run")
    if any(c in s for c in "&<>\"'"):
        out.append("markup")
    if "_x" in s:
        out.append("escape-lookalike")
    if any(ord(c) > 0xFFFF for c in s):
        out.append("astral")
    if any(0x7F <= ord(c) <= 0xFFFF for c in s):
        out.append("non-ascii-bmp")
    if len(s) > 300:
        out.append("len>300")
    return out


def nontrivial_text(s):
    """C04 NT rule: a break, a control character, leading/trailing/only whitespace, or a markup character."""
    if s == "":
        return False
    if any(ord(c) < 0x20 and c != "\t" for c in s):
        return True
    if s[0] in _WS or s[-1] in _WS:
        return True
    return any(c in s for c in "&<>\"'")
