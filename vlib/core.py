"""Shared harness: violations, recorder, known findings, Hypothesis driver, sharded runner.

Exit codes of a check: 0 = property held on everything explored (known findings reported),
1 = at least one violation not listed in KNOWN_FINDINGS.txt, 2 = harness error.
"""
from __future__ import annotations

import base64
import collections
import datetime as _dt
import hashlib
import importlib
import json
import multiprocessing
import os
import sys
import time
import traceback

VERIF = os.path.dirname(os.path.dirname(os.path.abspath(__file__)))
REPO = os.environ.get("VERIF_REPO", "/repo")
SRC = os.path.join(REPO, "src")
OUT = os.environ.get("VERIF_OUT") or VERIF  # evidence + new replay files (sensitivity runs redirect)
KNOWN_FILE = os.path.join(VERIF, "KNOWN_FINDINGS.txt")
NPROC = int(os.environ.get("VERIF_NPROC", "16"))


class Violation(Exception):
    """Raised by an oracle. `key` names the oracle clause + call site (finding key)."""

    def __init__(self, key, message="", case=None):
        super().__init__("%s: %s" % (key, message))
        self.key = key
        self.message = message
        self.case = case


class HarnessError(Exception):
    pass


# --------------------------------------------------------------------------- JSON helpers


def to_jsonable(o):
    if isinstance(o, (str, int, bool)) or o is None:
        return o
    if isinstance(o, float):
        if o != o or o in (float("inf"), float("-inf")):
            return {"__float__": repr(o)}
        return o
    if isinstance(o, bytes):
        return {"__bytes__": base64.b64encode(o).decode("ascii")}
    if isinstance(o, _dt.datetime):
        return {"__datetime__": o.isoformat()}
    if isinstance(o, _dt.date):
        return {"__date__": o.isoformat()}
    if isinstance(o, (list, tuple)):
        return [to_jsonable(x) for x in o]
    if isinstance(o, dict):
        return {str(k): to_jsonable(v) for k, v in o.items()}
    if isinstance(o, (set, frozenset)):
        return sorted(to_jsonable(x) for x in o)
    return {"__repr__": repr(o)}


def from_jsonable(o):
    if isinstance(o, list):
        return [from_jsonable(x) for x in o]
    if isinstance(o, dict):
        if len(o) == 1:
            ((k, v),) = o.items()
            if k == "__bytes__":
                return base64.b64decode(v)
            if k == "__float__":
                return float(v)
            if k == "__datetime__":
                return _dt.datetime.fromisoformat(v)
            if k == "__date__":
                return _dt.date.fromisoformat(v)
        return {k: from_jsonable(v) for k, v in o.items()}
    return o


def case_hash(case):
    return hashlib.sha1(
        json.dumps(to_jsonable(case), sort_keys=True, ensure_ascii=True).encode()
    ).hexdigest()[:16]


# --------------------------------------------------------------------------- recorder


class Rec:
    """Per-job measurement of what was generated."""

    MAX_SAMPLES = 4

    def __init__(self):
        self.evals = 0
        self.nt = set()
        self.samples = []
        self.classes = collections.Counter()
        self.known = collections.Counter()
        self.discarded = 0
        self.states = 0
        self.transitions = 0
        self.extra = {}
        self.nt_count = 0  # non-trivial cases that are distinct by construction (enumerations)

    def note_enum(self, n_evals, n_nontrivial, sample=None):
        self.evals += n_evals
        self.nt_count += n_nontrivial
        if sample is not None and len(self.samples) < self.MAX_SAMPLES:
            self.samples.append(_clip(to_jsonable(sample)))

    def note(self, case, nontrivial, classes=(), n=1):
        self.evals += n
        if nontrivial:
            h = case if isinstance(case, str) and len(case) == 16 else case_hash(case)
            if h not in self.nt:
                self.nt.add(h)
                if len(self.samples) < self.MAX_SAMPLES and not isinstance(case, str):
                    self.samples.append(_clip(to_jsonable(case)))
        for c in classes:
            self.classes[c] += 1

    def cls(self, *names):
        for c in names:
            self.classes[c] += 1

    def dump(self):
        return {
            "evals": self.evals,
            "nt": sorted(self.nt),
            "nt_count": self.nt_count,
            "samples": self.samples,
            "classes": dict(self.classes),
            "known": dict(self.known),
            "discarded": self.discarded,
            "states": self.states,
            "transitions": self.transitions,
            "extra": self.extra,
        }


def _clip(o, maxlen=600):
    s = json.dumps(o, ensure_ascii=True)
    if len(s) <= maxlen:
        return o
    return {"clipped": s[:maxlen] + "..."}


# --------------------------------------------------------------------------- known findings


def load_known():
    """-> {property: {key: description}} for `finding:` lines; `fixed:` lines suppress nothing."""
    out = collections.defaultdict(dict)
    lines = []
    # VERIF_KNOWN_EXTRA: development aid only (a scratch file with candidate finding lines)
    for path in (KNOWN_FILE, os.environ.get("VERIF_KNOWN_EXTRA")):
        if path and os.path.exists(path):
            lines += open(path, encoding="utf-8").read().splitlines()
    for line in lines:
        line = line.strip()
        if not line.startswith("finding:"):
            continue
        rest = line[len("finding:"):].strip()
        toks = rest.split(None, 2)
        prop = key = None
        desc = ""
        for t in toks[:2]:
            if t.startswith("property="):
                prop = t[len("property="):]
            elif t.startswith("key="):
                key = t[len("key="):]
        if len(toks) > 2:
            desc = toks[2]
        if prop and key:
            out[prop][key] = desc
    return out


# --------------------------------------------------------------------------- exception origin


def origin_of(exc):
    """'sut' if the innermost frame among (/verif, repo src) belongs to the repo source."""
    tb = exc.__traceback__
    last = None
    sut_frame = None
    while tb is not None:
        fn = tb.tb_frame.f_code.co_filename
        if fn.startswith(SRC):
            last = "sut"
            sut_frame = "%s:%s" % (
                os.path.relpath(fn, SRC).replace(".py", "").replace(os.sep, "."),
                tb.tb_frame.f_code.co_name,
            )
        elif fn.startswith(VERIF):
            last = "harness"
        tb = tb.tb_next
    return last, sut_frame


class sut:
    """Context manager: an exception escaping from python-pptx code inside the block is a
    Violation (the block must only contain calls the property says are accepted).
    `allow` lists exception classes that are re-raised unchanged (documented rejections)."""

    def __init__(self, what, allow=()):
        self.what = what
        self.allow = tuple(allow)

    def __enter__(self):
        return self

    def __exit__(self, et, ev, tb):
        if ev is None or isinstance(ev, (Violation, HarnessError)):
            return False
        if not isinstance(ev, Exception):
            return False
        if self.allow and isinstance(ev, self.allow):
            return False
        where, frame = origin_of(ev)
        if where == "sut":
            raise Violation(
                "%s:raises=%s@%s" % (self.what, et.__name__, frame),
                "%s raised %s: %s" % (self.what, et.__name__, str(ev)[:200]),
            ) from ev
        return False


# --------------------------------------------------------------------------- hypothesis driver


def hyp_search(fn, strategy, *, seed, max_examples, rec, known, shrink=True, max_rounds=5,
               shrink_budget=200):
    """Run fn(case) over generated cases. fn raises Violation on oracle failure.

    Known finding keys are counted and treated as passes so the search continues behind them.
    Unknown keys are shrunk and collected; the search is repeated with each collected key
    swallowed until no further key appears (root-cause enumeration). Returns list of failures.
    """
    import hypothesis
    from hypothesis import HealthCheck, Phase, given, settings

    phases = [Phase.explicit, Phase.reuse, Phase.generate, Phase.target]
    if shrink:
        phases.append(Phase.shrink)
    failures = []
    swallowed = set()
    for rnd in range(max_rounds):
        last = {}
        failing = {}      # case hash -> Violation raised for it in this round (replays stay consistent)
        calls = [0]       # executions since the first failure

        def body(case):
            h = case_hash(case)
            if h in failing:
                raise failing[h]
            if last:
                calls[0] += 1
                # shrink budget: once exhausted only cases already seen failing still fail, so the
                # shrinker converges at once and its final replay of the best case stays consistent
                if calls[0] > shrink_budget:
                    return
            try:
                fn(case)
            except Violation as v:
                if v.key in known:
                    rec.known[v.key] += 1
                    return
                if v.key in swallowed:
                    return
                if last and v.key != last["v"].key:
                    # a different root cause met while shrinking: keep shrinking the first one
                    return
                last["v"] = v
                last["case"] = case
                failing[h] = v
                raise

        test = given(strategy)(body)
        test = settings(
            max_examples=max_examples,
            database=None,
            deadline=None,
            derandomize=False,
            report_multiple_bugs=False,
            phases=phases,
            suppress_health_check=list(HealthCheck),
            print_blob=False,
        )(test)
        test = hypothesis.seed(seed * 31 + rnd)(test)
        try:
            test()
        except Violation:
            v = last["v"]
            failures.append({"key": v.key, "message": v.message, "case": to_jsonable(last["case"])})
            swallowed.add(v.key)
            continue
        except HarnessError:
            raise
        except Exception:
            # an error from inside Hypothesis (its shrinker has raised on some regex-built strategies) after a case
            # has already failed: the failing case found so far stands, unshrunk; without one it is a harness error
            if not last:
                raise
            v = last["v"]
            failures.append({"key": v.key, "message": v.message, "case": to_jsonable(last["case"])})
            swallowed.add(v.key)
            continue
        break
    return failures


def run_plain(fn, cases, *, rec, known):
    """Exhaustive/enumerated driver. fn raises Violation. One failure kept per key (the first =
    smallest if cases are enumerated small-to-large)."""
    failures = {}
    for case in cases:
        try:
            fn(case)
        except Violation as v:
            if v.key in known:
                rec.known[v.key] += 1
                continue
            if v.key not in failures:
                failures[v.key] = {"key": v.key, "message": v.message, "case": to_jsonable(case)}
    return list(failures.values())


# --------------------------------------------------------------------------- sharded runner


def _job_entry(args):
    modname, job, seed, tier, known = args
    t0 = time.time()
    try:
        mod = importlib.import_module(modname)
        rec = Rec()
        fails = mod.run_job(job, seed, tier, rec, known) or []
        d = rec.dump()
        d["failures"] = fails
        d["job"] = job
        d["wall"] = time.time() - t0
        return d
    except BaseException as e:  # noqa
        return {"harness_error": "".join(traceback.format_exception(type(e), e, e.__traceback__)),
                "job": job}


HARD_SIGNALS = {4: "SIGILL", 6: "SIGABRT", 7: "SIGBUS", 8: "SIGFPE", 11: "SIGSEGV"}


def _job_child(conn, a):
    try:
        conn.send(_job_entry(a))
    finally:
        conn.close()


def run_jobs(args, nproc, deadline):
    """One forked process per job, at most `nproc` at a time. -> list of result dicts (same order as args).

    A job whose process dies without a result gives {"crashed": exitcode, "job": ...}; jobs still running or not
    started when `deadline` (time.time() value) passes give {"timeout": True, "job": ...} and are killed. A pool
    that silently waits for a dead worker, or a check that never ends, is worse than no verdict."""
    from multiprocessing.connection import wait

    ctx = multiprocessing.get_context("fork")
    pending = list(enumerate(args))
    running = {}
    results = {}
    while pending or running:
        while pending and len(running) < nproc:
            idx, a = pending.pop(0)
            rx, tx = ctx.Pipe(duplex=False)
            p = ctx.Process(target=_job_child, args=(tx, a))
            p.start()
            tx.close()
            running[idx] = (p, rx, a)
        wait([rx for _p, rx, _a in running.values()] + [p.sentinel for p, _rx, _a in running.values()], timeout=2.0)
        for idx, (p, rx, a) in list(running.items()):
            res = None
            if rx.poll():
                try:
                    res = rx.recv()
                except (EOFError, OSError):
                    res = None
                p.join(30)
                if p.is_alive():
                    p.kill()
                    p.join()
                if res is None:
                    res = {"crashed": p.exitcode, "job": a[1]}
            elif not p.is_alive():
                p.join()
                res = {"crashed": p.exitcode, "job": a[1]}
            if res is not None:
                rx.close()
                results[idx] = res
                del running[idx]
        if time.time() > deadline:
            for idx, (p, rx, a) in running.items():
                p.kill()
                p.join()
                rx.close()
                results[idx] = {"timeout": True, "job": a[1]}
            for idx, a in pending:
                results[idx] = {"timeout": True, "job": a[1], "not_started": True}
            running, pending = {}, []
    return [results[i] for i in range(len(args))]


def assert_tree():
    import pptx

    if not os.path.abspath(pptx.__file__).startswith(os.path.abspath(SRC)):
        raise HarnessError("pptx imported from %s, not from %s" % (pptx.__file__, SRC))


def main_check(prop, modname, tier, seed, replay_path=None):
    """Run one property check. Returns exit code."""
    t0 = time.time()
    mod = importlib.import_module(modname)
    known_all = load_known()
    known = dict(known_all.get(prop, {}))
    out_lines = []
    violations = []  # dicts key,message,case,source
    known_seen = collections.Counter()

    # ---- replay of one explicit file
    if replay_path:
        data = json.load(open(replay_path, encoding="utf-8"))
        fails = _replay_case(mod, data)
        bad = [f for f in fails if f["key"] not in known]
        for f in fails:
            print("replay result: key=%s %s" % (f["key"], f["message"][:300]))
        if bad:
            print("VIOLATION property=%s replay=%s" % (prop, replay_path))
            return 1
        print("replay passed (%d known-finding hits)" % (len(fails) - len(bad)))
        return 0

    # ---- replay tier: every committed replay file must pass (or hit a listed finding)
    rdir = os.path.join(VERIF, "replays", prop)
    replayed = 0
    if os.path.isdir(rdir):
        for fn in sorted(os.listdir(rdir)):
            if not fn.endswith(".json") or fn.startswith("new-"):
                continue
            path = os.path.join(rdir, fn)
            data = json.load(open(path, encoding="utf-8"))
            replayed += 1
            for f in _replay_case(mod, data):
                if f["key"] in known:
                    known_seen[f["key"]] += 1
                else:
                    f["replay_file"] = path
                    violations.append(f)

    # ---- generated search
    jobs = mod.jobs(tier)
    args = [(modname, job, seed * 1009 + i, tier, known) for i, job in enumerate(jobs)]
    nproc = min(NPROC, max(1, len(args)))
    budget = float(os.environ.get("VERIF_WALL_BUDGET_S", "2700" if tier == "quick" else "10800"))
    if os.environ.get("VERIF_SERIAL"):
        results = [_job_entry(a) for a in args]
    else:
        results = run_jobs(args, nproc, t0 + budget)
        # jobs whose interpreter died: once more, few at a time (rules out memory pressure from 15 neighbours),
        # all of them within ten more minutes
        crashed = [i for i, r in enumerate(results) if "crashed" in r]
        retry = run_jobs([args[i] for i in crashed], min(4, nproc), time.time() + 600) if crashed else []
        for i, again in zip(crashed, retry):
            if True:
                if "crashed" in again and -(again["crashed"] or 0) in HARD_SIGNALS:
                    sig = HARD_SIGNALS[-again["crashed"]]
                    rec = Rec().dump()
                    rec.update(job=args[i][1], wall=0.0, failures=[{
                        "key": "%s:interpreter-died:%s" % (prop, sig),
                        "message": "the interpreter running job %r (seed %d) was killed by %s twice, the second time "
                                   "with at most three neighbours; python-pptx code on the tree under test takes the process down"
                                   % (args[i][1], args[i][2], sig),
                        "case": {"__job__": args[i][1], "seed": args[i][2], "tier": tier}}])
                    results[i] = rec
                else:
                    results[i] = again
    lost = [r for r in results if "crashed" in r or "timeout" in r]
    results = [r for r in results if not ("crashed" in r or "timeout" in r)]
    for r in lost[:5]:
        print("no result from job %r: %s" % (r["job"], "wall-clock budget of %d s exceeded" % budget
                                              if "timeout" in r else "process exit code %r" % r["crashed"]))
    if lost and not any(r.get("failures") for r in results) and not violations:
        print("inconclusive: %d job(s) gave no result and the others found nothing; no verdict" % len(lost))
        return 2
    results.sort(key=lambda r: json.dumps(r.get("job"), sort_keys=True, default=str))
    herr = [r for r in results if "harness_error" in r]
    if herr:
        for r in herr[:3]:
            sys.stderr.write("HARNESS ERROR in job %r:\n%s\n" % (r["job"], r["harness_error"]))
        print("harness error in %d job(s); no verdict" % len(herr))
        return 2

    evals = sum(r["evals"] for r in results)
    nt = set()
    nt_count = 0
    samples = []
    classes = collections.Counter()
    discarded = 0
    states = transitions = 0
    extra = {}
    for r in results:
        nt.update(r["nt"])
        nt_count += r["nt_count"]
        for s in r["samples"]:
            if len(samples) < 6:
                samples.append(s)
        classes.update(r["classes"])
        known_seen.update(r["known"])
        discarded += r["discarded"]
        states += r["states"]
        transitions += r["transitions"]
        for k, v in r["extra"].items():
            if isinstance(v, (int, float)):
                extra[k] = extra.get(k, 0) + v
            elif isinstance(v, list):
                extra.setdefault(k, [])
                for x in v:
                    if x not in extra[k] and len(extra[k]) < 200:
                        extra[k].append(x)
            else:
                extra[k] = v
        for f in r["failures"]:
            violations.append(f)

    # dedupe violations by key
    by_key = {}
    for f in violations:
        by_key.setdefault(f["key"], f)
    new_paths = []
    for key, f in sorted(by_key.items()):
        if f.get("replay_file"):
            path = f["replay_file"]
        else:
            odir = os.path.join(OUT, "replays", prop)
            os.makedirs(odir, exist_ok=True)
            h = hashlib.sha1(key.encode()).hexdigest()[:10]
            path = os.path.join(odir, "new-%s.json" % h)
            with open(path, "w", encoding="utf-8") as fh:
                json.dump({"property": prop, "key": key, "message": f["message"],
                           "case": f["case"], "seed": seed, "tier": tier}, fh, indent=1,
                          ensure_ascii=True)
        new_paths.append((key, path, f["message"]))

    for key in sorted(known):
        if known_seen.get(key):
            out_lines.append("KNOWN-FINDING: property=%s key=%s %s (seen %d times this run)"
                             % (prop, key, known[key], known_seen[key]))
        else:
            out_lines.append("KNOWN-FINDING: property=%s key=%s %s (listed; not reproduced in this run)"
                             % (prop, key, known[key]))
    for key, path, msg in new_paths:
        out_lines.append("violation detail: key=%s %s" % (key, msg[:400]))
        out_lines.append("VIOLATION property=%s replay=%s" % (prop, path))

    wall = time.time() - t0
    level = getattr(mod, "LEVEL", "exploration")
    cov = {
        "evaluations": evals,
        "distinct_nontrivial": len(nt) + nt_count,
        "rule": mod.RULE,
        "samples": samples or [{"note": "no non-trivial sample recorded"}],
        "class_histogram": dict(sorted(classes.items())),
        "discarded": discarded,
        "replayed_regressions": replayed,
        "known_findings_hit": dict(known_seen),
        "jobs": len(jobs),
        "jobs_without_result": len(lost),
        "slowest_jobs_s": [[round(r["wall"], 1), r["job"]] for r in sorted(results, key=lambda r: -r["wall"])[:3]],
        "exhaustive": bool(getattr(mod, "EXHAUSTIVE", False)),
    }
    if states:
        cov["states"] = states
    if transitions:
        cov["transitions"] = transitions
    cov.update(extra)
    ev = {
        "property_id": prop,
        "tier": tier,
        "seed": seed,
        "level": level,
        "coverage": cov,
        "assumptions": list(getattr(mod, "ASSUMPTIONS", [])),
        "wall_s": round(wall, 2),
        "violations": len(new_paths),
    }
    os.makedirs(os.path.join(OUT, "evidence"), exist_ok=True)
    with open(os.path.join(OUT, "evidence", "%s.json" % prop), "w", encoding="utf-8") as fh:
        json.dump(ev, fh, indent=1, ensure_ascii=True, sort_keys=False)
    for l in out_lines:
        print(l)
    print("%s tier=%s seed=%d evaluations=%d distinct_nontrivial=%d violations=%d known_hit=%d wall=%.1fs"
          % (prop, tier, seed, evals, len(nt) + nt_count, len(new_paths), sum(known_seen.values()), wall))
    if lost:
        print("note: %d job(s) gave no result; the violations above come from the jobs that finished" % len(lost))
    return 1 if new_paths else 0


def _replay_case(mod, data):
    """Re-execute a saved case through the check's plain executor; returns failures."""
    case = data["case"] if isinstance(data, dict) and "case" in data else data
    if isinstance(case, dict) and "__job__" in case:
        # a whole job whose interpreter died: run it again in a process of its own
        known = dict(load_known().get(mod.PROPERTY, {}))
        r = run_jobs([(mod.__name__, case["__job__"], case["seed"], case["tier"], known)], 1, time.time() + 3600)[0]
        if "crashed" in r and -(r["crashed"] or 0) in HARD_SIGNALS:
            return [{"key": "%s:interpreter-died:%s" % (mod.PROPERTY, HARD_SIGNALS[-r["crashed"]]),
                     "message": "job %r killed by signal" % (case["__job__"],), "case": case}]
        return list(r.get("failures") or [])
    fails = mod.replay(from_jsonable(case)) or []
    return fails


def collect(fn, case):
    """helper for replay(): run fn(case) -> list of failures"""
    try:
        fn(case)
    except Violation as v:
        return [{"key": v.key, "message": v.message, "case": to_jsonable(case)}]
    return []
