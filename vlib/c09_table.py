"""C09 property table: object kinds (locators), rows (one per public read/write property), domains.

Everything here is *data* for the engine in checks/c09.py.  Each row was written from the docstring
and the code of the property it names (file:line of the setter is in the row's `src`); where the
draft table of DESIGN.md Appendix C disagreed with the code+docstring, the code+docstring won (see
NOTES at the end of this file and the `unverified` list).

Vocabulary
----------
kind      an object locator: `build(prs)` creates the object on a fresh default presentation and
          returns its *path*; `locate(prs)` finds the first matching object of a corpus deck (or
          None); `prepare(anchor)` establishes documented state preconditions (fill.solid(),
          has_legend = True ...) on the anchor object; `sub` is the path from the anchor to the
          object under test.  Paths are lists of steps, re-resolved on a re-opened deck:
            ["slide", i] ["shape", shape_id] ["attr", name] ["idx", i] ["cell", r, c]
readings  name -> fn(obj, chain): all getters of the object that the oracle snapshots
          (chain = objects along the path, chain[0] is the Presentation).
row       prop, domain (in-domain value classes), ood (out-of-domain encoded values), eq
          (equivalence of reading and assigned value), none (None semantics or NO), affects
          (readings that are NOT asserted unchanged: documented or not-excluded couplings), expect
          (documented couplings: reading -> expected value / predicate), get/set overrides.

Encoded values (JSON-like): int, float, bool, str, None, {"t":"len","v":n} (pptx.util.Emu),
{"t":"enum","e":<enum class name>,"n":<member name>}, {"t":"rgb","v":"RRGGBB"}, {"t":"tuple","v":[..]}.
"""
from __future__ import annotations

import io

# ------------------------------------------------------------------------------------ values

_ENUMS = {}


def _enum_registry():
    if _ENUMS:
        return _ENUMS
    from pptx.enum import chart as ec, dml as ed, lang as el, shapes as es, text as et

    for mod in (ec, ed, el, es, et):
        for name in dir(mod):
            obj = getattr(mod, name)
            if isinstance(obj, type) and hasattr(obj, "__members__"):
                _ENUMS.setdefault(obj.__name__, obj)
    return _ENUMS


def decode(v):
    if isinstance(v, dict):
        t = v.get("t")
        if t == "len":
            from pptx.util import Emu

            return Emu(v["v"])
        if t == "enum":
            return _enum_registry()[v["e"]][v["n"]]
        if t == "rgb":
            from pptx.dml.color import RGBColor

            return RGBColor.from_string(v["v"])
        if t == "tuple":
            return tuple(decode(x) for x in v["v"])
        raise ValueError("bad encoded value %r" % (v,))
    return v


def E(cls_name, member):
    return {"t": "enum", "e": cls_name, "n": member}


def L(n):
    return {"t": "len", "v": int(n)}


def RGB(s):
    return {"t": "rgb", "v": s}


# members that share an XML token with another member (KNOWN_FINDINGS C20: they read back as the
# other member); not part of the C09 domain
ALIAS_MEMBERS = {
    "MSO_AUTO_SHAPE_TYPE": {"LINE_CALLOUT_4", "LINE_CALLOUT_4_ACCENT_BAR",
                            "LINE_CALLOUT_4_BORDER_AND_ACCENT_BAR", "LINE_CALLOUT_4_NO_BORDER",
                            "ROUNDED_RECTANGULAR_CALLOUT"},
    "MSO_LANGUAGE_ID": {"NO_PROOFING"},
}


def enum_members(cls_name, exclude=()):
    """names of the assignable members: those with an XML token, minus aliases, minus `exclude`"""
    cls = _enum_registry()[cls_name]
    bad = set(exclude) | ALIAS_MEMBERS.get(cls_name, set())
    out = []
    for m in cls:
        if m.name in bad:
            continue
        if hasattr(m, "xml_value") and not m.xml_value:
            continue
        out.append(m.name)
    return out


# ------------------------------------------------------------------------------------ domains
# A domain is a dict: {"kind":..., params}; the engine turns it into a Hypothesis strategy of
# (value_class, encoded_value) with value classes int(erior) / bnd / qnt.


def D_int(lo, hi, extra_bnd=()):
    return {"d": "int", "lo": lo, "hi": hi, "bnd": list(extra_bnd)}


def D_len(lo, hi, quantum=None, extra_bnd=()):
    """Length (Emu instance) lo..hi; quantum-adjacent values around multiples of `quantum`"""
    return {"d": "len", "lo": lo, "hi": hi, "q": quantum, "bnd": list(extra_bnd)}


def D_float(lo, hi, quantum=None, extra_bnd=(), ints=True):
    return {"d": "float", "lo": lo, "hi": hi, "q": quantum, "bnd": list(extra_bnd), "ints": ints}


def D_bool():
    return {"d": "bool"}


def D_enum(cls_name, exclude=(), extra=()):
    """extra: further encoded in-domain values (True/False for underline)"""
    return {"d": "enum", "e": cls_name, "exclude": list(exclude), "extra": list(extra)}


def D_str():
    return {"d": "str"}


def D_rgb():
    return {"d": "rgb"}


def D_union(*ds):
    return {"d": "union", "of": list(ds)}


NO = None  # None is not a documented assignment for the row


class NoneSem:
    """Documented None semantics: the reading after `= None` and a probe telling whether the
    explicit attribute / element is still present (fn(obj, chain) -> bool)."""

    def __init__(self, reading, explicit):
        self.reading = reading
        self.explicit = explicit


class Row:
    def __init__(self, prop, dom, ood=(), eq="=", none=NO, affects=(), expect=None, get=None,
                 set=None, src="", pre=None, default=None, owner=None):
        self.prop = prop
        self.dom = dom
        self.ood = list(ood)
        self.eq = eq
        self.none = none
        self.affects = {a for a in affects}
        self.expect = expect          # fn(value, before) -> {reading: expected | predicate}
        self.get = get                # fn(obj, chain); default getattr(obj, prop)
        self.set = set                # fn(obj, value); default setattr(obj, prop, value)
        self.src = src
        # (default value, probe): the stored attribute is an xmlchemy OptionalAttribute with that
        # default - "Assigning the default value causes the attribute to be removed from the
        # element" (oxml/xmlchemy.py:194-198, the mechanism the property anchors); probe as in NoneSem
        self.default = default
        self.owner = owner            # class defining the property when it is a base class of the kind's class
        self.pre = pre                # fn(before) -> bool: row applicable in this state (documented precondition)


class Kind:
    def __init__(self, name, cls, build, sub=(), prepare=None, locate=None, readings=None, rows=(),
                 cost=1, sub2=(), key=None):
        self.name = name
        self.cls = cls                # class name used in row ids ("Font.size")
        self.build = build
        self.sub = [list(s) for s in sub]      # base path -> anchor (prepare() is applied to it)
        self.sub2 = [list(s) for s in sub2]    # anchor -> object under test
        self.key = key or cls                  # name used in finding keys
        self.prepare = prepare
        self.locate = locate
        self.rows = list(rows)
        self.extra_readings = readings or {}
        self.cost = cost

    def row(self, prop):
        for r in self.rows:
            if r.prop == prop:
                return r
        raise KeyError("%s has no row %s" % (self.name, prop))

    def readings(self):
        out = {}
        for r in self.rows:
            out[r.prop] = r.get or (lambda o, ch, _p=r.prop: getattr(o, _p))
        out.update(self.extra_readings)
        return out


def sample_value(dom):
    """one fixed in-domain encoded value (not the usual default) for a domain; None when there is none"""
    d = dom.get("d")
    if d == "int":
        return dom["lo"] + max(1, (dom["hi"] - dom["lo"]) // 3)
    if d == "len":
        return L(dom["lo"] + max(1, (dom["hi"] - dom["lo"]) // 3))
    if d == "float":
        return round(dom["lo"] + (dom["hi"] - dom["lo"]) / 3.0, 2)
    if d == "bool":
        return True
    if d == "enum":
        ms = enum_members(dom["e"], dom.get("exclude", ()))
        return E(dom["e"], ms[len(ms) // 2]) if ms else None
    if d == "str":
        return "companion"
    if d == "rgb":
        return RGB("C01020")
    if d == "union":
        for x in dom["of"]:
            v = sample_value(x)
            if v is not None:
                return v
    return None


# pairs (acting kind, companion kind) built by the same builder on the same anchor shape whose settings the
# documentation treats as independent: assignments to the first must leave every reading of the second alone
COMPANIONS = [
    ("color-fill-rgb", "color-line"), ("color-line", "color-fill-rgb"), ("fill-patterned", "color-line"),
    ("fill-gradient", "color-line"), ("line", "color-fill-rgb"), ("autoshape", "color-fill-rgb"),
    ("shadow", "color-line"), ("color-fill-theme", "line"),
    ("font-run", "paragraph"), ("paragraph", "font-run"), ("color-font", "font-run"), ("textframe", "paragraph"),
    ("chart", "category-axis"), ("chart", "value-axis"), ("category-axis", "value-axis"), ("value-axis", "category-axis"),
    ("legend", "value-axis"), ("bar-plot", "datalabel-point"), ("bar-plot", "bar-series"),
    ("datalabels-plot", "datalabel-point"), ("font-chart", "font-ticklabels"), ("font-ticklabels", "font-chart"),
    ("ticklabels-category", "ticklabels-value"), ("chart-title", "axis-title"), ("axis-title", "chart-title"),
    ("chart", "axis-title"), ("value-axis", "chart-title"),
    ("table", "cell"), ("cell", "color-cell"), ("color-cell", "cell"),
    ("line-plot", "marker-line-fmt"), ("line-series", "marker-line-fmt"),
]


# ------------------------------------------------------------------------------------ paths


def resolve(prs, path):
    """-> chain of objects; chain[-1] is the addressed object"""
    chain = [prs]
    cur = prs
    for step in path:
        op = step[0]
        if op == "slide":
            cur = prs.slides[step[1]]
        elif op == "layout":
            cur = prs.slide_layouts[step[1]]
        elif op == "shape":
            found = None
            for sh in cur.shapes:
                if sh.shape_id == step[1]:
                    found = sh
                    break
            if found is None:
                raise LookupError("no shape id %r" % (step[1],))
            cur = found
        elif op == "attr":
            cur = getattr(cur, step[1])
        elif op == "idx":
            cur = cur[step[1]]
        elif op == "cell":
            cur = cur.cell(step[1], step[2])
        else:
            raise ValueError("bad path step %r" % (step,))
        chain.append(cur)
    return chain


def iter_shapes(prs):
    """(path, shape) for every shape of every slide, groups descended, document order"""

    def rec(container, path):
        for sh in container.shapes:
            p = path + [["shape", sh.shape_id]]
            yield p, sh
            if hasattr(sh, "shapes"):
                for x in rec(sh, p):
                    yield x

    for i, slide in enumerate(prs.slides):
        try:
            for x in rec(slide, [["slide", i]]):
                yield x
        except NotImplementedError:
            continue


def _safe(fn, default=None):
    try:
        return fn()
    except Exception:
        return default


def first_shape(prs, pred):
    seen = set()
    for path, sh in iter_shapes(prs):
        key = (path[0][1], sh.shape_id)
        if key in seen:      # a duplicated shape id on one slide cannot be re-resolved by id
            continue
        seen.add(key)
        if _safe(lambda: pred(sh), False):
            # the id must be unique among its siblings, else the path is ambiguous
            return path
    return None


def unique_path(prs, path):
    """True if `path` resolves to exactly one object (no duplicate shape ids among siblings)"""
    cur = prs
    for step in path:
        if step[0] == "slide":
            cur = prs.slides[step[1]]
        elif step[0] == "shape":
            hits = [s for s in cur.shapes if s.shape_id == step[1]]
            if len(hits) != 1:
                return False
            cur = hits[0]
        else:
            break
    return True


# ------------------------------------------------------------------------------------ builders

_PNG = None


def png_bytes():
    global _PNG
    if _PNG is None:
        from PIL import Image

        b = io.BytesIO()
        Image.new("RGB", (8, 6), (200, 30, 30)).save(b, "PNG")
        _PNG = b.getvalue()
    return _PNG


def _blank(prs):
    return prs.slides.add_slide(prs.slide_layouts[6])


def b_presentation(prs):
    return []


def b_slide(prs):
    _blank(prs)
    return [["slide", 0]]


def b_autoshape(prs):
    from pptx.enum.shapes import MSO_SHAPE

    s = _blank(prs)
    sh = s.shapes.add_shape(MSO_SHAPE.ROUNDED_RECTANGLE, 914400, 914400, 1828800, 914400)
    return [["slide", 0], ["shape", sh.shape_id]]


def b_autoshape3(prs):
    """a shape with three adjustments"""
    from pptx.enum.shapes import MSO_SHAPE

    s = _blank(prs)
    sh = s.shapes.add_shape(MSO_SHAPE.LINE_CALLOUT_1, 914400, 914400, 1828800, 914400)
    return [["slide", 0], ["shape", sh.shape_id]]


def b_textbox(prs):
    s = _blank(prs)
    sh = s.shapes.add_textbox(914400, 914400, 1828800, 914400)
    sh.text_frame.text = "abc"
    return [["slide", 0], ["shape", sh.shape_id]]


def b_picture(prs):
    s = _blank(prs)
    sh = s.shapes.add_picture(io.BytesIO(png_bytes()), 914400, 914400)
    return [["slide", 0], ["shape", sh.shape_id]]


def b_connector(prs):
    from pptx.enum.shapes import MSO_CONNECTOR

    s = _blank(prs)
    sh = s.shapes.add_connector(MSO_CONNECTOR.STRAIGHT, 914400, 914400, 2743200, 1828800)
    return [["slide", 0], ["shape", sh.shape_id]]


def b_group(prs):
    from pptx.enum.shapes import MSO_SHAPE

    s = _blank(prs)
    g = s.shapes.add_group_shape()
    g.shapes.add_shape(MSO_SHAPE.RECTANGLE, 914400, 914400, 914400, 914400)
    g.shapes.add_shape(MSO_SHAPE.OVAL, 2743200, 914400, 914400, 914400)
    return [["slide", 0], ["shape", g.shape_id]]


def b_group_child(prs):
    from pptx.enum.shapes import MSO_SHAPE

    s = _blank(prs)
    g = s.shapes.add_group_shape()
    c = g.shapes.add_shape(MSO_SHAPE.RECTANGLE, 914400, 914400, 914400, 914400)
    g.shapes.add_shape(MSO_SHAPE.OVAL, 2743200, 914400, 914400, 914400)
    return [["slide", 0], ["shape", g.shape_id], ["shape", c.shape_id]]


def b_table(prs):
    s = _blank(prs)
    gf = s.shapes.add_table(3, 3, 914400, 914400, 5486400, 1371600)
    return [["slide", 0], ["shape", gf.shape_id]]


def b_placeholder(prs):
    """title placeholder of a 'Title Slide' slide: no a:xfrm of its own, geometry inherited"""
    s = prs.slides.add_slide(prs.slide_layouts[0])
    ph = s.shapes.title
    return [["slide", 0], ["shape", ph.shape_id]]


def b_body_placeholder(prs):
    s = prs.slides.add_slide(prs.slide_layouts[1])
    ph = s.placeholders[1]
    ph.text_frame.text = "one\ntwo"
    return [["slide", 0], ["shape", ph.shape_id]]


def _cat_data():
    from pptx.chart.data import CategoryChartData

    cd = CategoryChartData()
    cd.categories = ["East", "West", "Mid"]
    cd.add_series("S1", (1.5, -2.0, 3.25))
    cd.add_series("S2", (4.0, 5.0, 6.0))
    return cd


def _chart(prs, chart_type_name, data):
    from pptx.enum.chart import XL_CHART_TYPE

    s = _blank(prs)
    gf = s.shapes.add_chart(getattr(XL_CHART_TYPE, chart_type_name), 457200, 457200, 6400800,
                            4114800, data)
    return [["slide", 0], ["shape", gf.shape_id]]


def b_bar_chart(prs):
    return _chart(prs, "COLUMN_CLUSTERED", _cat_data())


def b_line_chart(prs):
    return _chart(prs, "LINE_MARKERS", _cat_data())


def b_area_chart(prs):
    return _chart(prs, "AREA", _cat_data())


def b_radar_chart(prs):
    return _chart(prs, "RADAR_MARKERS", _cat_data())


def b_doughnut_chart(prs):
    return _chart(prs, "DOUGHNUT", _cat_data())


def b_pie_chart(prs):
    from pptx.chart.data import CategoryChartData

    cd = CategoryChartData()
    cd.categories = ["a", "b", "c"]
    cd.add_series("S1", (0.2, 0.3, 0.5))
    return _chart(prs, "PIE", cd)


def b_xy_chart(prs):
    from pptx.chart.data import XyChartData

    cd = XyChartData()
    s1 = cd.add_series("S1")
    for x, y in ((0.5, 1.0), (1.5, 2.5), (2.5, 0.25)):
        s1.add_data_point(x, y)
    return _chart(prs, "XY_SCATTER", cd)


def b_bubble_chart(prs):
    from pptx.chart.data import BubbleChartData

    cd = BubbleChartData()
    s1 = cd.add_series("S1")
    for x, y, z in ((0.5, 1.0, 3), (1.5, 2.5, 5), (2.5, 0.25, 2)):
        s1.add_data_point(x, y, z)
    return _chart(prs, "BUBBLE", cd)


# ------------------------------------------------------------------------------------ corpus locators


def _is(sh, type_name):
    from pptx.enum.shapes import MSO_SHAPE_TYPE

    return sh.shape_type == getattr(MSO_SHAPE_TYPE, type_name)


def loc_autoshape(prs):
    return first_shape(prs, lambda sh: _is(sh, "AUTO_SHAPE") and sh._element.xfrm is not None
                       and sh._element.xfrm.off is not None and sh._element.xfrm.ext is not None)


def loc_adj_shape(prs):
    return first_shape(prs, lambda sh: _is(sh, "AUTO_SHAPE") and len(sh.adjustments) >= 1)


def loc_textbox(prs):
    return first_shape(prs, lambda sh: _is(sh, "TEXT_BOX") and sh._element.xfrm is not None)


def loc_text_shape(prs):
    """any non-placeholder p:sp with a text body holding a run"""
    return first_shape(prs, lambda sh: (_is(sh, "TEXT_BOX") or _is(sh, "AUTO_SHAPE"))
                       and sh._element.txBody is not None
                       and len(sh.text_frame.paragraphs[0].runs) > 0)


def loc_picture(prs):
    return first_shape(prs, lambda sh: _is(sh, "PICTURE") and sh._element.xfrm is not None
                       and sh._element.xfrm.off is not None and sh._element.xfrm.ext is not None)


def loc_connector(prs):
    return first_shape(prs, lambda sh: _is(sh, "LINE") and sh._element.xfrm is not None
                       and sh._element.xfrm.off is not None and sh._element.xfrm.ext is not None)


def loc_group(prs):
    return first_shape(prs, lambda sh: _is(sh, "GROUP") and sh._element.xfrm is not None
                       and sh._element.xfrm.off is not None and sh._element.xfrm.ext is not None)


def loc_table(prs):
    return first_shape(prs, lambda sh: sh.has_table and len(sh.table.rows) >= 1
                       and len(sh.table.columns) >= 1)


def loc_placeholder_inherit(prs):
    return first_shape(prs, lambda sh: sh.is_placeholder and _is(sh, "PLACEHOLDER")
                       and sh._element.tag.endswith("}sp") and sh._element.xfrm is None
                       and sh.left is not None and sh.width is not None)


def _chart_pred(fn):
    return lambda prs: first_shape(prs, lambda sh: sh.has_chart and fn(sh.chart))


def _plot_cls(chart, name):
    return type(chart.plots[0]).__name__ == name


loc_chart = _chart_pred(lambda ch: len(ch.plots) >= 1)
loc_cat_chart = _chart_pred(lambda ch: type(ch.category_axis).__name__ == "CategoryAxis"
                            and ch.value_axis is not None)
loc_val_chart = _chart_pred(lambda ch: ch.value_axis is not None and ch.value_axis._cross_xAx is not None)
loc_bar_chart = _chart_pred(lambda ch: _plot_cls(ch, "BarPlot") and len(ch.plots[0].series) >= 1)
loc_line_chart = _chart_pred(lambda ch: _plot_cls(ch, "LinePlot") and len(ch.plots[0].series) >= 1)
loc_bubble_chart = _chart_pred(lambda ch: _plot_cls(ch, "BubblePlot"))
loc_series_chart = _chart_pred(lambda ch: len(ch.plots) >= 1 and len(ch.plots[0].series) >= 1
                               and type(ch.plots[0].series[0]).__name__ in
                               ("BarSeries", "LineSeries", "PieSeries", "AreaSeries", "RadarSeries")
                               and len(ch.plots[0].series[0].points) >= 1)

# ------------------------------------------------------------------------------------ XML probes
# "explicit setting still present" probes used by NoneSem; they look at the stored XML only.


def _attr(elm_fn, name):
    return lambda o, ch: elm_fn(o) is not None and elm_fn(o).get(name) is not None


def _child(elm_fn, *tags):
    from pptx.oxml.ns import qn

    def probe(o, ch):
        e = elm_fn(o)
        if e is None:
            return False
        return any(e.find(qn(t)) is not None for t in tags)

    return probe


def _bodyPr(tf):
    return tf._txBody.bodyPr


def _pPr(p):
    return p._p.pPr


def _rPr(f):
    return f._rPr


def _tcPr(c):
    return c._tc.tcPr


def _ln(lf):
    return lf._ln


# ------------------------------------------------------------------------------------ shared row sets

COORD_LO, COORD_HI = -27273042329600, 27273042316900
INT32_LO, INT32_HI = -2147483648, 2147483647
BIG = 10 ** 15  # beyond ST_Coordinate

OOD_INT = [1.5, "12", None, BIG, -BIG]      # for RequiredAttribute integer coordinates
OOD_BOOL = ["x", 2, None]                   # for XsdBoolean attributes without None semantics


def geometry_rows(position_affects=(), size_affects=(), rotation=True, name=True,
                  lo=COORD_LO, hi=COORD_HI):
    """left/top/width/height(/rotation/name) of BaseShape (shapes/base.py:97-215).
    Domain = ST_Coordinate / ST_PositiveCoordinate of the schema (oxml/simpletypes.py:342-345,541-549)."""
    rows = [
        Row("left", D_int(lo, hi, extra_bnd=(0, -1, 1)), OOD_INT, affects=position_affects,
            src="shapes/base.py:121"),
        Row("top", D_int(lo, hi, extra_bnd=(0, -1, 1)), OOD_INT, affects=position_affects,
            src="shapes/base.py:201"),
        Row("width", D_int(0, hi, extra_bnd=(1,)), OOD_INT + [-1], affects=size_affects,
            src="shapes/base.py:213"),
        Row("height", D_int(0, hi, extra_bnd=(1,)), OOD_INT + [-1], affects=size_affects,
            src="shapes/base.py:101"),
    ]
    if rotation:
        # "Read/write float. Negative values can be assigned ... -45.0 will change setting to 315.0"
        rows.append(Row("rotation", D_float(-3600.0, 3600.0, quantum=1 / 60000.0,
                                            extra_bnd=(0.0, 360.0, -360.0, 359.99999, -45.0)),
                        ["x", None, {"t": "tuple", "v": [1]}], eq="deg", src="shapes/base.py:163",
                        default=(0.0, lambda o, ch: o._element.xfrm is not None
                                 and o._element.xfrm.get("rot") is not None)))
    if name:
        rows.append(Row("name", D_str(), [], src="shapes/base.py:130"))
    return rows


def font_rows():
    """Font (text/text.py:280-422)"""
    return [
        # ST_TextFontSize 100..400000 centipoints; stored as emu // 127
        Row("size", D_len(12700, 50800000, quantum=127, extra_bnd=(12700 + 126, 152400, 50800000 - 1)),
            [12699, 0, -12700, 50800127, "abc"], eq="cp",
            none=NoneSem(None, _attr(_rPr, "sz")), src="text/text.py:391"),
        Row("bold", D_bool(), ["x", 2], none=NoneSem(None, _attr(_rPr, "b")), src="text/text.py:301"),
        Row("italic", D_bool(), ["x", 2], none=NoneSem(None, _attr(_rPr, "i")), src="text/text.py:328"),
        Row("underline", D_enum("MSO_TEXT_UNDERLINE_TYPE", extra=(True, False)),
            [E("MSO_TEXT_UNDERLINE_TYPE", "MIXED"), "x", 999983], eq="underline",
            none=NoneSem(None, _attr(_rPr, "u")), src="text/text.py:416"),
        Row("name", D_str(), [5, 1.5], none=NoneSem(None, _child(_rPr, "a:latin")),
            src="text/text.py:363"),
        Row("language_id", D_enum("MSO_LANGUAGE_ID"), [E("MSO_LANGUAGE_ID", "MIXED"), "x", 999983],
            eq="langid", none=NoneSem(E("MSO_LANGUAGE_ID", "NONE"), _attr(_rPr, "lang")),
            src="text/text.py:344"),
    ]


def color_rows(brightness=True):
    """ColorFormat (dml/color.py:27-97)"""

    def rgb_expect(v, before):
        exp = {"type": E("MSO_COLOR_TYPE", "RGB")}
        # "If the color was a theme color with a brightness adjustment, the brightness adjustment
        # is removed when changing it to an RGB color."
        if before.get("type") == E("MSO_COLOR_TYPE", "SCHEME"):
            exp["brightness"] = 0
        return exp

    rows = [
        Row("rgb", D_rgb(), ["FF0000", {"t": "tuple", "v": [1, 2, 3]}, None, 255],
            affects=("type", "theme_color", "brightness"), expect=rgb_expect, src="dml/color.py:59"),
        Row("theme_color", D_enum("MSO_THEME_COLOR_INDEX"),
            [E("MSO_THEME_COLOR_INDEX", "NOT_THEME_COLOR"), E("MSO_THEME_COLOR_INDEX", "MIXED"),
             999983, "x"],
            affects=("type", "rgb", "brightness"),
            expect=lambda v, before: {"type": E("MSO_COLOR_TYPE", "SCHEME")}, src="dml/color.py:82"),
    ]
    if brightness:
        # "Read/write float value between -1.0 and 1.0"; needs a colour (documented ValueError otherwise)
        rows.append(Row("brightness", D_float(-1.0, 1.0, quantum=1e-5, extra_bnd=(0.0, 0, 0.5, -0.5)),
                        [1.00001, -1.5, 2, "x", None], eq="f5",
                        pre=lambda before: before.get("type") is not None, src="dml/color.py:36"))
    return rows


COLOR_READINGS = {"type": lambda o, ch: o.type, "brightness": lambda o, ch: o.brightness}


def axis_rows():
    """_BaseAxis (chart/axis.py:46-242)"""
    return [
        Row("has_major_gridlines", D_bool(), [], owner="_BaseAxis", src="chart/axis.py:58"),
        Row("has_minor_gridlines", D_bool(), [], owner="_BaseAxis", src="chart/axis.py:77"),
        Row("has_title", D_bool(), [], owner="_BaseAxis", src="chart/axis.py:96"),
        Row("visible", D_bool(), ["x", 2, None], owner="_BaseAxis", src="chart/axis.py:237"),
        Row("reverse_order", D_bool(), [], owner="_BaseAxis", src="chart/axis.py:194"),
        Row("major_tick_mark", D_enum("XL_TICK_MARK"), [999983, "x"], owner="_BaseAxis", src="chart/axis.py:122"),
        Row("minor_tick_mark", D_enum("XL_TICK_MARK"), [999983, "x"], owner="_BaseAxis", src="chart/axis.py:172"),
        Row("tick_label_position", D_enum("XL_TICK_LABEL_POSITION"), [999983, "x"],
            owner="_BaseAxis", src="chart/axis.py:222"),
        Row("maximum_scale", D_float(-1e12, 1e12, extra_bnd=(0.0, 1e-300, -1e300)), ["x"], eq="=f",
            none=NoneSem(None, lambda o, ch: o._element.scaling.max is not None),
            owner="_BaseAxis", src="chart/axis.py:140"),
        Row("minimum_scale", D_float(-1e12, 1e12, extra_bnd=(0.0, 1e-300, -1e300)), ["x"], eq="=f",
            none=NoneSem(None, lambda o, ch: o._element.scaling.min is not None),
            owner="_BaseAxis", src="chart/axis.py:156"),
    ]


def value_axis_rows():
    """ValueAxis (chart/axis.py:428-512). crosses/crosses_at are documented as coupled:
    crosses 'Returns XL_AXIS_CROSSES.CUSTOM when a specific numeric crossing point is defined',
    crosses_at 'Returns None if no crossing value is set'."""
    custom = E("XL_AXIS_CROSSES", "CUSTOM")

    def crosses_expect(v, before):
        if v != custom:
            return {"crosses_at": None}
        return {}

    return [
        Row("major_unit", D_float(1e-9, 1e12, extra_bnd=(1.0, 1e-300, 0.5)), [0, 0.0, -1.0, "x"],
            eq="=f", none=NoneSem(None, lambda o, ch: o._element.majorUnit is not None),
            src="chart/axis.py:487"),
        Row("minor_unit", D_float(1e-9, 1e12, extra_bnd=(1.0, 1e-300, 0.5)), [0, 0.0, -1.0, "x"],
            eq="=f", none=NoneSem(None, lambda o, ch: o._element.minorUnit is not None),
            src="chart/axis.py:507"),
        # assigning CUSTOM is documented only through the getter; generated, reading asserted,
        # crosses_at left unasserted in that case
        Row("crosses", D_enum("XL_AXIS_CROSSES", extra=(custom,)), [999983, "x"],
            affects=("crosses_at",), expect=crosses_expect, src="chart/axis.py:441"),
        Row("crosses_at", D_float(-1e12, 1e12, extra_bnd=(0.0, 1.5)), ["x"], eq="=f",
            none=NoneSem(None, lambda o, ch: o._cross_xAx.crossesAt is not None),
            affects=("crosses",), expect=lambda v, before: {} if v is None else {"crosses": custom},
            src="chart/axis.py:465"),
    ]


def datalabels_rows():
    """DataLabels (chart/datalabel.py:28-125)"""
    return [
        # "Assigning a format string ... automatically sets number_format_is_linked to False"
        Row("number_format", D_str(), [5], affects=("number_format_is_linked",),
            expect=lambda v, before: {"number_format_is_linked": False}, src="chart/datalabel.py:45"),
        Row("number_format_is_linked", D_bool(), ["x", 2], src="chart/datalabel.py:64"),
        Row("position", D_enum("XL_DATA_LABEL_POSITION"),
            [E("XL_DATA_LABEL_POSITION", "MIXED"), 999983, "x"],
            none=NoneSem(None, lambda o, ch: o._element.dLblPos is not None),
            src="chart/datalabel.py:82"),
        Row("show_category_name", D_bool(), [], src="chart/datalabel.py:93"),
        Row("show_legend_key", D_bool(), [], src="chart/datalabel.py:101"),
        Row("show_percentage", D_bool(), [], src="chart/datalabel.py:113"),
        Row("show_series_name", D_bool(), [], src="chart/datalabel.py:120"),
        Row("show_value", D_bool(), [], src="chart/datalabel.py:127"),
    ]


def _gframe(chain):
    from pptx.shapes.graphfrm import GraphicFrame

    for o in reversed(chain):
        if isinstance(o, GraphicFrame):
            return o
    raise LookupError("no graphic frame in chain")


def _table(chain):
    from pptx.table import Table

    for o in reversed(chain):
        if isinstance(o, Table):
            return o
    raise LookupError("no table in chain")


# ------------------------------------------------------------------------------------ the table


def build_kinds():
    """-> list[Kind].  Called lazily (needs pptx importable)."""
    from pptx.util import Emu  # noqa: F401

    K = []
    SH = lambda p: [["attr", x] for x in p.split(".")]  # noqa: E731

    # ---- Presentation (presentation.py:62-104): ST_SlideSizeCoordinate 914400..51206400
    ood_sz = [914399, 51206401, 0, -914400, 1000000.5, "1000000", None]
    K.append(Kind("presentation", "Presentation", b_presentation, locate=lambda prs: []
                  if prs.slide_width is not None else None, rows=[
        Row("slide_width", D_int(914400, 51206400, extra_bnd=(9144000, 12192000)), ood_sz,
            src="presentation.py:101"),
        Row("slide_height", D_int(914400, 51206400, extra_bnd=(6858000,)), ood_sz,
            src="presentation.py:62"),
    ]))

    # ---- Slide.name (slide.py:56-68): "" / None removes, reads ''
    K.append(Kind("slide", "Slide", b_slide,
                  locate=lambda prs: [["slide", 0]] if len(prs.slides) else None, rows=[
        Row("name", D_str(), [5], none=NoneSem("", lambda o, ch: o._element.cSld.get("name") is not None),
            src="slide.py:66"),
    ]))

    # ---- shapes with their own a:xfrm
    adj0 = Row("adjustments[0]", D_float(-20.0, 20.0, quantum=1e-5, extra_bnd=(0.0, 1.0, 0.5, 0.16667)),
               ["x", None], eq="f5", get=lambda o, ch: o.adjustments[0],
               set=lambda o, v: o.adjustments.__setitem__(0, v), src="shapes/autoshape.py:105")
    K.append(Kind("autoshape", "Shape", b_autoshape, locate=loc_autoshape,
                  rows=geometry_rows()))
    K.append(Kind("autoshape-adjustments", "Shape", b_autoshape, locate=loc_adj_shape,
                  rows=[adj0], readings={
                      "adjustments": lambda o, ch: [o.adjustments[i] for i in range(len(o.adjustments))],
                      "left": lambda o, ch: o.left, "width": lambda o, ch: o.width,
                      "rotation": lambda o, ch: o.rotation, "name": lambda o, ch: o.name,
                      "auto_shape_type": lambda o, ch: o.auto_shape_type}))
    K[-1].rows[0].affects = {"adjustments"}
    K[-1].rows[0].expect = lambda v, before: {
        "adjustments": lambda got, _b=before: isinstance(got, list) and got[1:] == _b["adjustments"][1:]}

    def adj_row(i):
        r = Row("adjustments[%d]" % i, D_float(-20.0, 20.0, quantum=1e-5, extra_bnd=(0.0, 1.0, -0.5)),
                ["x", None], eq="f5", get=lambda o, ch, _i=i: o.adjustments[_i],
                set=lambda o, v, _i=i: o.adjustments.__setitem__(_i, v), src="shapes/autoshape.py:105")
        return r

    K.append(Kind("autoshape-adjustments3", "Shape", b_autoshape3,
                  rows=[adj_row(0), adj_row(1), adj_row(2), adj_row(3)]))
    K.append(Kind("textbox", "Shape", b_textbox, locate=loc_textbox, rows=geometry_rows()))
    K.append(Kind("group-child", "Shape", b_group_child, rows=geometry_rows()))
    K.append(Kind("group", "GroupShape", b_group, locate=loc_group, rows=geometry_rows()))
    K.append(Kind("graphicframe", "GraphicFrame", b_table, locate=loc_table, rows=geometry_rows()))

    # ---- placeholder inheriting its geometry (shapes/placeholder.py:24-125): F17 lives here
    K.append(Kind("placeholder-inherited-geometry", "Placeholder", b_placeholder,
                  locate=loc_placeholder_inherit, rows=geometry_rows(),
                  key="placeholder-inherited-geometry"))

    # ---- Picture (shapes/picture.py:27-73,146-176): crops ST_Percentage, mask MSO_SHAPE
    crop_dom = D_float(-21474.83648, 21474.83647, quantum=1e-5, extra_bnd=(0.0, 1.0, 0.25, -0.25, 0))
    crop_ood = [21474.84, -21474.84, 1e9, "x", None]

    def _srcrect(letter):
        return lambda o, ch: (o._pic.blipFill.srcRect is not None
                              and o._pic.blipFill.srcRect.get(letter) is not None)

    K.append(Kind("picture", "Picture", b_picture, locate=loc_picture, rows=geometry_rows() + [
        Row("crop_left", crop_dom, crop_ood, eq="f5", default=(0.0, _srcrect("l")), src="shapes/picture.py:47"),
        Row("crop_top", crop_dom, crop_ood, eq="f5", default=(0.0, _srcrect("t")), src="shapes/picture.py:72"),
        Row("crop_right", crop_dom, crop_ood, eq="f5", default=(0.0, _srcrect("r")), src="shapes/picture.py:59"),
        Row("crop_bottom", crop_dom, crop_ood, eq="f5", default=(0.0, _srcrect("b")), src="shapes/picture.py:35"),
        Row("auto_shape_type", D_enum("MSO_AUTO_SHAPE_TYPE"), [999983, "rect", None],
            src="shapes/picture.py:167"),
    ]))

    # ---- Connector (shapes/connector.py:45-213): begin/end points; the bounding box follows them
    # the end points move the bounding box (x, x+cx): all coordinates of this kind are kept within
    # +-5e12 so that no sum or difference leaves ST_Coordinate / ST_PositiveCoordinate
    pt = D_int(-5 * 10 ** 12, 5 * 10 ** 12, extra_bnd=(0, 914400, 2743200, 1828800))
    bbox = ("left", "top", "width", "height")
    K.append(Kind("connector", "Connector", b_connector, locate=loc_connector,
                  rows=geometry_rows(position_affects=("begin_x", "begin_y", "end_x", "end_y"),
                                     size_affects=("begin_x", "begin_y", "end_x", "end_y"),
                                     lo=-5 * 10 ** 12, hi=5 * 10 ** 12) + [
        Row("begin_x", pt, [], affects=bbox, src="shapes/connector.py:57"),
        Row("begin_y", pt, [], affects=bbox, src="shapes/connector.py:98"),
        Row("end_x", pt, [], affects=bbox, src="shapes/connector.py:154"),
        Row("end_y", pt, [], affects=bbox, src="shapes/connector.py:195"),
    ]))

    # ---- TextFrame (text/text.py:56-217)
    m_ood = [1.5, "12", None, INT32_HI + 1, INT32_LO - 1]
    m_dom = lambda d: D_int(INT32_LO, INT32_HI, extra_bnd=(0, d, d - 1, d + 1, 91440, 45720))  # noqa: E731
    K.append(Kind("textframe", "TextFrame", b_textbox, sub=SH("text_frame"), locate=loc_text_shape,
                  rows=[
        Row("margin_left", m_dom(91440), m_ood, default=(91440, _attr(_bodyPr, "lIns")), src="text/text.py:123"),
        Row("margin_top", m_dom(45720), m_ood, default=(45720, _attr(_bodyPr, "tIns")), src="text/text.py:141"),
        Row("margin_right", m_dom(91440), m_ood, default=(91440, _attr(_bodyPr, "rIns")), src="text/text.py:132"),
        Row("margin_bottom", m_dom(45720), m_ood, default=(45720, _attr(_bodyPr, "bIns")), src="text/text.py:114"),
        Row("word_wrap", D_bool(), ["x", 2], none=NoneSem(None, _attr(_bodyPr, "wrap")),
            src="text/text.py:208"),
        Row("auto_size", D_enum("MSO_AUTO_SIZE", exclude=("MIXED",)), [999983, "x"],
            none=NoneSem(None, _child(_bodyPr, "a:noAutofit", "a:normAutofit", "a:spAutoFit")),
            src="text/text.py:68"),
        Row("vertical_anchor", D_enum("MSO_VERTICAL_ANCHOR"),
            [E("MSO_VERTICAL_ANCHOR", "MIXED"), 999983, "x"],
            none=NoneSem(None, _attr(_bodyPr, "anchor")), src="text/text.py:189"),
    ]))

    # ---- _Paragraph (text/text.py:484-590)
    sp_dom = D_len(0, 20116800, quantum=127, extra_bnd=(127, 126, 12700, 20116800 - 127))
    sp_ood = [-1, -12700, 20116801, 12.5, "x"]
    K.append(Kind("paragraph", "_Paragraph", b_textbox, sub=SH("text_frame.paragraphs") + [["idx", 0]],
                  locate=loc_text_shape, rows=[
        Row("alignment", D_enum("PP_PARAGRAPH_ALIGNMENT"),
            [E("PP_PARAGRAPH_ALIGNMENT", "MIXED"), 999983, "x"],
            none=NoneSem(None, _attr(_pPr, "algn")), src="text/text.py:494"),
        Row("level", D_int(0, 8), [-1, 9, 1.5, "1", None], default=(0, _attr(_pPr, "lvl")),
            src="text/text.py:527"),
        # number -> multiples of lines (ST_TextSpacingPercent 0..132), Length -> fixed height
        Row("line_spacing", D_union(D_float(0.0, 132.0, quantum=1e-5, extra_bnd=(1.0, 1.5, 2, 0.9)),
                                    D_len(0, 20116800, quantum=127, extra_bnd=(152400, 127))),
            [132.5, -0.5, 1000, "x", L(20116801), L(-127)], eq="spacing",
            none=NoneSem(None, _child(_pPr, "a:lnSpc")), src="text/text.py:546"),
        Row("space_before", sp_dom, sp_ood, eq="cp", none=NoneSem(None, _child(_pPr, "a:spcBef")),
            src="text/text.py:588"),
        Row("space_after", sp_dom, sp_ood, eq="cp", none=NoneSem(None, _child(_pPr, "a:spcAft")),
            src="text/text.py:570"),
    ]))

    # ---- Font at several sites
    K.append(Kind("font-run", "Font", b_textbox,
                  sub=SH("text_frame.paragraphs") + [["idx", 0], ["attr", "runs"], ["idx", 0], ["attr", "font"]],
                  locate=loc_text_shape, rows=font_rows()))
    K.append(Kind("font-paragraph", "Font", b_textbox,
                  sub=SH("text_frame.paragraphs") + [["idx", 0], ["attr", "font"]],
                  locate=loc_text_shape, rows=font_rows()))
    K.append(Kind("font-placeholder-run", "Font", b_body_placeholder,
                  sub=SH("text_frame.paragraphs") + [["idx", 1], ["attr", "runs"], ["idx", 0], ["attr", "font"]],
                  rows=font_rows()))
    K.append(Kind("font-chart", "Font", b_bar_chart, sub=SH("chart.font"), locate=loc_chart,
                  rows=font_rows(), cost=2))
    K.append(Kind("font-ticklabels", "Font", b_bar_chart, sub=SH("chart.value_axis.tick_labels.font"),
                  locate=loc_val_chart, rows=font_rows(), cost=2))

    # ---- ColorFormat at several sites / starting states
    def prep_solid(anchor):
        anchor.solid()

    def prep_solid_rgb(anchor):
        from pptx.dml.color import RGBColor

        anchor.solid()
        anchor.fore_color.rgb = RGBColor(0x12, 0x34, 0x56)

    def prep_solid_theme(anchor):
        from pptx.enum.dml import MSO_THEME_COLOR

        anchor.solid()
        anchor.fore_color.theme_color = MSO_THEME_COLOR.ACCENT_2
        anchor.fore_color.brightness = 0.25

    K.append(Kind("color-fill-none", "ColorFormat", b_autoshape, sub=SH("fill") , prepare=prep_solid,
                  rows=color_rows(), readings=COLOR_READINGS))
    K[-1].sub2 = SH("fore_color")
    K.append(Kind("color-fill-rgb", "ColorFormat", b_autoshape, sub=SH("fill"), prepare=prep_solid_rgb,
                  locate=loc_autoshape, rows=color_rows(), readings=COLOR_READINGS))
    K[-1].sub2 = SH("fore_color")
    K.append(Kind("color-fill-theme", "ColorFormat", b_autoshape, sub=SH("fill"),
                  prepare=prep_solid_theme, rows=color_rows(), readings=COLOR_READINGS))
    K[-1].sub2 = SH("fore_color")
    K.append(Kind("color-line", "ColorFormat", b_autoshape, sub=SH("line.fill"), prepare=prep_solid_rgb,
                  locate=loc_autoshape, rows=color_rows(), readings=COLOR_READINGS))
    K[-1].sub2 = SH("fore_color")
    K.append(Kind("color-font", "ColorFormat", b_textbox,
                  sub=SH("text_frame.paragraphs") + [["idx", 0], ["attr", "runs"], ["idx", 0],
                                                     ["attr", "font"], ["attr", "fill"]],
                  prepare=prep_solid_rgb, locate=loc_text_shape, rows=color_rows(),
                  readings=COLOR_READINGS))
    K[-1].sub2 = SH("fore_color")
    K.append(Kind("color-cell", "ColorFormat", b_table, sub=SH("table") + [["cell", 0, 0], ["attr", "fill"]],
                  prepare=prep_solid_theme, locate=loc_table, rows=color_rows(), readings=COLOR_READINGS))
    K[-1].sub2 = SH("fore_color")

    def prep_patterned(anchor):
        anchor.patterned()
        anchor.fore_color
        anchor.back_color

    K.append(Kind("color-pattern-back", "ColorFormat", b_autoshape, sub=SH("fill"), prepare=prep_patterned,
                  rows=color_rows(), readings=COLOR_READINGS))
    K[-1].sub2 = SH("back_color")

    def prep_gradient(anchor):
        anchor.gradient()

    K.append(Kind("color-gradient-stop", "ColorFormat", b_autoshape, sub=SH("fill"), prepare=prep_gradient,
                  rows=color_rows(brightness=False), readings=COLOR_READINGS))
    K[-1].sub2 = SH("gradient_stops") + [["idx", 1], ["attr", "color"]]

    # ---- FillFormat properties proper (dml/fill.py:86-135)
    K.append(Kind("fill-patterned", "FillFormat", b_autoshape, sub=SH("fill"), prepare=prep_patterned,
                  locate=loc_autoshape, rows=[
        Row("pattern", D_enum("MSO_PATTERN_TYPE"), [E("MSO_PATTERN_TYPE", "MIXED"), 999983, "x"],
            none=NoneSem(None, lambda o, ch: o._fill._pattFill.get("prst") is not None),
            src="dml/fill.py:134"),
    ], readings={"type": lambda o, ch: o.type, "fore_rgb": lambda o, ch: o.fore_color.rgb,
                 "back_rgb": lambda o, ch: o.back_color.rgb}))

    def prep_gradient_angle(anchor):
        anchor.gradient()
        anchor.gradient_angle = 90.0   # the default gradient has a:lin without ang

    K.append(Kind("fill-gradient", "FillFormat", b_autoshape, sub=SH("fill"), prepare=prep_gradient_angle,
                  locate=loc_autoshape, rows=[
        # "Angle in float degrees ... Increasing angles represent counter-clockwise rotation"
        Row("gradient_angle", D_float(-720.0, 720.0, quantum=1 / 60000.0,
                                      extra_bnd=(0.0, 90.0, 360.0, 359.999995, 0.000004, -90.0, 45)),
            ["x", {"t": "tuple", "v": [1]}], eq="deg", src="dml/fill.py:103"),
    ], readings={"type": lambda o, ch: o.type,
                 "stops": lambda o, ch: [s.position for s in o.gradient_stops]}))
    pos_dom = D_float(0.0, 1.0, quantum=1e-5, extra_bnd=(0.5, 0, 1))
    pos_ood = [1.00001, -0.00001, 1.5, -1, "x", None]
    K.append(Kind("gradient-stop", "_GradientStop", b_autoshape, sub=SH("fill"), prepare=prep_gradient,
                  rows=[Row("position", pos_dom, pos_ood, eq="f5", src="dml/fill.py:397")],
                  readings={"other": lambda o, ch: ch[-2][0].position,
                            "color_type": lambda o, ch: o.color.type}))
    K[-1].sub2 = SH("gradient_stops") + [["idx", 1]]

    # ---- LineFormat (dml/line.py:33-90)
    K.append(Kind("line", "LineFormat", b_autoshape, sub=SH("line"), locate=loc_autoshape, rows=[
        Row("width", D_int(0, 20116800, extra_bnd=(12700, 9525, 1)), [-1, 20116801, 1.5, "x"],
            default=(0, _attr(_ln, "w")), src="dml/line.py:83"),
        Row("dash_style", D_enum("MSO_LINE_DASH_STYLE"),
            [E("MSO_LINE_DASH_STYLE", "DASH_STYLE_MIXED"), 999983, "x"],
            none=NoneSem(None, _child(_ln, "a:prstDash", "a:custDash")), src="dml/line.py:48"),
    ], readings={"fill_type": lambda o, ch: o.fill.type}))
    K.append(Kind("line-connector", "LineFormat", b_connector, sub=SH("line"), locate=loc_connector,
                  rows=[
        Row("width", D_int(0, 20116800, extra_bnd=(12700, 9525, 1)), [-1, 20116801, 1.5, "x"],
            default=(0, _attr(_ln, "w")), src="dml/line.py:83"),
        Row("dash_style", D_enum("MSO_LINE_DASH_STYLE"),
            [E("MSO_LINE_DASH_STYLE", "DASH_STYLE_MIXED"), 999983, "x"],
            none=NoneSem(None, _child(_ln, "a:prstDash", "a:custDash")), src="dml/line.py:48"),
    ]))

    # ---- ShadowFormat (dml/effect.py:13-40): any truthiness accepted (bool(value))
    K.append(Kind("shadow", "ShadowFormat", b_autoshape, sub=SH("shadow"), locate=loc_autoshape, rows=[
        Row("inherit", D_bool(), [], src="dml/effect.py:33"),
    ]))

    # ---- Table flags (table.py:45-130), cells, rows, columns
    K.append(Kind("table", "Table", b_table, sub=SH("table"), locate=loc_table, rows=[
        Row(p, D_bool(), OOD_BOOL, src="table.py", default=(False, _attr(lambda t: t._tbl.tblPr, a)))
        for p, a in (("first_row", "firstRow"), ("first_col", "firstCol"), ("last_row", "lastRow"),
                     ("last_col", "lastCol"), ("horz_banding", "bandRow"), ("vert_banding", "bandCol"))]))
    cm_ood = [1.5, "12", INT32_HI + 1, INT32_LO - 1]
    cm_dom = lambda d: D_int(0, INT32_HI, extra_bnd=(d, d - 1, d + 1, 91440, 45720))  # noqa: E731
    K.append(Kind("cell", "_Cell", b_table, sub=SH("table") + [["cell", 0, 0]], locate=loc_table, rows=[
        # "If assigned None, the default value is used, 0.1 inches for left and right margins and
        # 0.05 inches for top and bottom."
        Row("margin_left", cm_dom(91440), cm_ood, none=NoneSem(91440, _attr(_tcPr, "marL")),
            src="table.py:184"),
        Row("margin_right", cm_dom(91440), cm_ood, none=NoneSem(91440, _attr(_tcPr, "marR")),
            src="table.py:194"),
        Row("margin_top", cm_dom(45720), cm_ood, none=NoneSem(45720, _attr(_tcPr, "marT")),
            src="table.py:204"),
        Row("margin_bottom", cm_dom(45720), cm_ood, none=NoneSem(45720, _attr(_tcPr, "marB")),
            src="table.py:214"),
        Row("vertical_anchor", D_enum("MSO_VERTICAL_ANCHOR"),
            [E("MSO_VERTICAL_ANCHOR", "MIXED"), 999983, "x"],
            none=NoneSem(None, _attr(_tcPr, "anchor")), src="table.py:300"),
    ], readings={"is_merge_origin": lambda o, ch: o.is_merge_origin, "text": lambda o, ch: o.text}))

    def row_expect(i, dim):
        def f(v, before):
            def ok(got, _b=before):
                exp = list(_b["all"])
                exp[i] = v
                return got == exp
            return {"all": ok, "frame": lambda got, _b=before: got == sum(
                v if j == i else x for j, x in enumerate(_b["all"]))}
        return f

    dim_dom = D_int(0, 10 ** 12, extra_bnd=(1, 370840, 914400))
    dim_ood = [1.5, "12", None, BIG]
    K.append(Kind("table-row", "_Row", b_table, sub=SH("table.rows") + [["idx", 1]], rows=[
        # Table.notify_height_changed: "Triggers the graphic frame to recalculate its total height
        # (as the sum of the row heights)"
        Row("height", dim_dom, dim_ood, affects=("all", "frame"), expect=row_expect(1, "h"),
            src="table.py:372"),
    ], readings={"all": lambda o, ch: [int(r.height) for r in _table(ch).rows],
                 "frame": lambda o, ch: int(_gframe(ch).height),
                 "frame_width": lambda o, ch: int(_gframe(ch).width),
                 "cols": lambda o, ch: [int(c.width) for c in _table(ch).columns]}))
    K.append(Kind("table-column", "_Column", b_table, sub=SH("table.columns") + [["idx", 1]], rows=[
        Row("width", dim_dom, dim_ood, affects=("all", "frame"), expect=row_expect(1, "w"),
            src="table.py:340"),
    ], readings={"all": lambda o, ch: [int(c.width) for c in _table(ch).columns],
                 "frame": lambda o, ch: int(_gframe(ch).width),
                 "frame_height": lambda o, ch: int(_gframe(ch).height),
                 "rows": lambda o, ch: [int(r.height) for r in _table(ch).rows]}))

    # ---- Chart (chart/chart.py:41-128)
    K.append(Kind("chart", "Chart", b_bar_chart, sub=SH("chart"), locate=loc_chart, cost=2, rows=[
        Row("chart_style", D_int(1, 48), [0, 49, -1, 256, 1.5, "x"],
            none=NoneSem(None, lambda o, ch: o._chartSpace.style is not None), src="chart/chart.py:56"),
        Row("has_legend", D_bool(), [], src="chart/chart.py:96"),
        Row("has_title", D_bool(), [], src="chart/chart.py:111"),
    ]))

    def prep_legend(anchor):
        anchor.has_legend = True

    K.append(Kind("legend", "Legend", b_bar_chart, sub=SH("chart"), prepare=prep_legend,
                  locate=loc_chart, cost=2, rows=[
        Row("position", D_enum("XL_LEGEND_POSITION"), [E("XL_LEGEND_POSITION", "CUSTOM"), 999983, "x"],
            src="chart/legend.py:76"),
        # "Assigning None ... causes any c:overlay element to be removed, which is interpreted the
        # same as True"
        Row("include_in_layout", D_bool(), [],
            none=NoneSem(True, lambda o, ch: o._element.overlay is not None), src="chart/legend.py:58"),
        # "Expressed as a float between -1.0 and 1.0"
        Row("horz_offset", D_float(-1.0, 1.0, extra_bnd=(0.0, 0, 0.5, -0.25)), ["x"], eq="=f",
            src="chart/legend.py:37"),
    ]))
    K[-1].sub2 = SH("legend")

    # a legend the user dragged in PowerPoint: manual layout in "edge" mode (python-pptx itself writes "factor" only)
    def prep_legend_edge(anchor):
        from pptx.oxml import parse_xml

        anchor.has_legend = True
        layout = anchor.legend._element.get_or_add_layout()
        for ch in list(layout):
            layout.remove(ch)
        layout.append(parse_xml(
            '<c:manualLayout xmlns:c="http://schemas.openxmlformats.org/drawingml/2006/chart"><c:xMode val="edge"/>'
            '<c:yMode val="edge"/><c:x val="0.7"/><c:y val="0.3"/><c:w val="0.2"/><c:h val="0.3"/></c:manualLayout>'))

    K.append(Kind("legend-edge-layout", "Legend", b_bar_chart, sub=SH("chart"), prepare=prep_legend_edge, cost=2, rows=[
        Row("horz_offset", D_float(-1.0, 1.0, extra_bnd=(0.0, 0, 0.5, -0.25)), ["x"], eq="=f",
            src="chart/legend.py:37"),
        Row("include_in_layout", D_bool(), [],
            none=NoneSem(True, lambda o, ch: o._element.overlay is not None), src="chart/legend.py:58"),
    ]))
    K[-1].sub2 = SH("legend")

    K.append(Kind("category-axis", "CategoryAxis", b_bar_chart, sub=SH("chart.category_axis"),
                  locate=loc_cat_chart, cost=2, rows=axis_rows()))
    K.append(Kind("value-axis", "ValueAxis", b_bar_chart, sub=SH("chart.value_axis"),
                  locate=loc_val_chart, cost=2, rows=axis_rows() + value_axis_rows()))
    K.append(Kind("xy-x-axis", "ValueAxis", b_xy_chart, sub=SH("chart.category_axis"), cost=2,
                  rows=axis_rows() + value_axis_rows()))

    # ---- TickLabels (chart/axis.py:356-418)
    def tl_rows(with_offset):
        rows = [
            Row("number_format", D_str(), [5], affects=("number_format_is_linked",),
                expect=lambda v, before: {"number_format_is_linked": False}, src="chart/axis.py:373"),
            Row("number_format_is_linked", D_bool(), ["x", 2], src="chart/axis.py:394"),
        ]
        if with_offset:
            # "int value in range 0-1000"; "only a category axis has an offset"
            rows.append(Row("offset", D_int(0, 1000, extra_bnd=(100, 99, 101)), [-1, 1001, 65536, 1.5, "x"],
                            src="chart/axis.py:411"))
        return rows

    K.append(Kind("ticklabels-category", "TickLabels", b_bar_chart,
                  sub=SH("chart.category_axis.tick_labels"), locate=loc_cat_chart, cost=2,
                  rows=tl_rows(True)))
    K.append(Kind("ticklabels-value", "TickLabels", b_bar_chart, sub=SH("chart.value_axis.tick_labels"),
                  locate=loc_val_chart, cost=2, rows=tl_rows(False),
                  readings={"offset": lambda o, ch: o.offset}))

    # ---- DataLabels of a plot and of a series; DataLabel of a point
    def prep_plot_labels(anchor):
        anchor.has_data_labels = True

    K.append(Kind("datalabels-plot", "DataLabels", b_bar_chart, sub=SH("chart.plots") + [["idx", 0]],
                  prepare=prep_plot_labels, locate=loc_chart, cost=2, rows=datalabels_rows()))
    K[-1].sub2 = SH("data_labels")
    K.append(Kind("datalabels-series", "DataLabels", b_pie_chart,
                  sub=SH("chart.plots") + [["idx", 0], ["attr", "series"], ["idx", 0], ["attr", "data_labels"]],
                  locate=loc_series_chart, cost=2, rows=datalabels_rows()))
    K.append(Kind("datalabel-point", "DataLabel", b_bar_chart,
                  sub=SH("chart.plots") + [["idx", 0], ["attr", "series"], ["idx", 0], ["attr", "points"],
                                           ["idx", 1], ["attr", "data_label"]],
                  cost=2, rows=[
        Row("has_text_frame", D_bool(), [], src="chart/datalabel.py:185"),
        Row("position", D_enum("XL_DATA_LABEL_POSITION"),
            [E("XL_DATA_LABEL_POSITION", "MIXED"), 999983, "x"],
            none=NoneSem(None, lambda o, ch: o._dLbl is not None and o._dLbl.dLblPos is not None),
            src="chart/datalabel.py:209"),
    ]))

    # ---- plots (chart/plot.py:56-186)
    base_plot_rows = lambda: [  # noqa: E731
        Row("vary_by_categories", D_bool(), [], src="chart/plot.py:104"),
        Row("has_data_labels", D_bool(), [], src="chart/plot.py:66"),
    ]
    K.append(Kind("bar-plot", "BarPlot", b_bar_chart, sub=SH("chart.plots") + [["idx", 0]],
                  locate=loc_bar_chart, cost=2, rows=base_plot_rows() + [
        # ST_GapAmount 0..500; "integer percentage of the bar width"
        Row("gap_width", D_int(0, 500, extra_bnd=(150, 149, 151)), [-1, 501, 1.5, "x", None],
            default=(150, lambda o, ch: o._element.gapWidth is not None
                     and o._element.gapWidth.get("val") is not None), src="chart/plot.py:134"),
        # "int value in range -100..100"
        Row("overlap", D_int(-100, 100, extra_bnd=(0, 1, -1)), [-101, 101, 1.5, "x", None],
            src="chart/plot.py:153"),
    ]))
    # a plot whose data labels are already configured: assigning has_data_labels = True AGAIN leaves them as they are
    def prep_labelled_plot(anchor):
        anchor.has_data_labels = True
        dl = anchor.data_labels
        dl.show_value = False
        dl.show_category_name = True
        dl.number_format = "0.0"

    def labels_reading(o, ch):
        if not o.has_data_labels:
            return None
        dl = o.data_labels
        return [dl.show_value, dl.show_category_name, dl.show_series_name, dl.show_percentage, dl.number_format]

    K.append(Kind("bar-plot-labelled", "BarPlot", b_bar_chart, sub=SH("chart.plots") + [["idx", 0]],
                  prepare=prep_labelled_plot, cost=2, rows=[
        Row("has_data_labels", D_bool(), [], affects=("labels",),
            expect=lambda v, before: ({"labels": before["labels"]} if (v is True and before["has_data_labels"] is True)
                                      else {}), src="chart/plot.py:66"),
        Row("vary_by_categories", D_bool(), [], src="chart/plot.py:104"),
    ], readings={"labels": labels_reading}))
    K.append(Kind("line-plot", "LinePlot", b_line_chart, sub=SH("chart.plots") + [["idx", 0]],
                  locate=loc_line_chart, cost=2, rows=base_plot_rows()))
    for nm, cls_, bld in (("pie-plot", "PiePlot", b_pie_chart), ("xy-plot", "XyPlot", b_xy_chart),
                          ("area-plot", "AreaPlot", b_area_chart), ("radar-plot", "RadarPlot", b_radar_chart),
                          ("doughnut-plot", "DoughnutPlot", b_doughnut_chart)):
        K.append(Kind(nm, cls_, bld, sub=SH("chart.plots") + [["idx", 0]], cost=2, rows=base_plot_rows()))
    K.append(Kind("bubble-plot", "BubblePlot", b_bubble_chart, sub=SH("chart.plots") + [["idx", 0]],
                  locate=loc_bubble_chart, cost=2, rows=base_plot_rows() + [
        # "integer between 0 and 300 inclusive ... Assigning None produces the same behavior as
        # assigning 100"
        Row("bubble_scale", D_int(0, 300, extra_bnd=(100, 99, 101)), [-1, 301, 1.5, "x"],
            none=NoneSem(100, lambda o, ch: o._element.bubbleScale is not None), src="chart/plot.py:182"),
    ]))

    # ---- series and markers (chart/series.py:120-160, chart/marker.py:30-70)
    K.append(Kind("bar-series", "BarSeries", b_bar_chart,
                  sub=SH("chart.plots") + [["idx", 0], ["attr", "series"], ["idx", 0]],
                  locate=loc_bar_chart, cost=2, rows=[
        # c:invertIfNegative is a CT_Boolean_Explicit: any truthiness is accepted (bool(value))
        Row("invert_if_negative", D_bool(), [], src="chart/series.py:131"),
    ], readings={"name": lambda o, ch: o.name, "values": lambda o, ch: list(o.values)}))
    K.append(Kind("line-series", "LineSeries", b_line_chart,
                  sub=SH("chart.plots") + [["idx", 0], ["attr", "series"], ["idx", 0]],
                  locate=loc_line_chart, cost=2, rows=[
        Row("smooth", D_bool(), ["x", 2, None], src="chart/series.py:153"),
    ], readings={"name": lambda o, ch: o.name, "values": lambda o, ch: list(o.values)}))
    marker_rows = lambda: [  # noqa: E731
        # "An integer between 2 and 72 inclusive ... Assigning None removes any explicitly assigned size"
        Row("size", D_int(2, 72), [1, 0, 73, 256, -2, 1.5, "x"],
            none=NoneSem(None, lambda o, ch: o._element.marker is not None
                         and o._element.marker.size is not None), src="chart/marker.py:42"),
        Row("style", D_enum("XL_MARKER_STYLE"), [999983, "x"],
            none=NoneSem(None, lambda o, ch: o._element.marker is not None
                         and o._element.marker.symbol is not None), src="chart/marker.py:63"),
    ]
    K.append(Kind("marker-line", "Marker", b_line_chart,
                  sub=SH("chart.plots") + [["idx", 0], ["attr", "series"], ["idx", 0], ["attr", "marker"]],
                  locate=loc_line_chart, cost=2, rows=marker_rows()))
    K.append(Kind("marker-xy", "Marker", b_xy_chart,
                  sub=SH("chart.plots") + [["idx", 0], ["attr", "series"], ["idx", 0], ["attr", "marker"]],
                  cost=2, rows=marker_rows()))

    # a marker that also carries fill and line formatting (c:marker/c:spPr): size and style are independent of it
    def prep_marker_fmt(anchor):
        from pptx.dml.color import RGBColor
        from pptx.util import Pt

        fmt = anchor.marker.format
        fmt.fill.solid()
        fmt.fill.fore_color.rgb = RGBColor(0xC0, 0x10, 0x20)
        fmt.line.width = Pt(2)

    MARKER_FMT_READINGS = {"fill_type": lambda o, ch: o.format.fill.type,
                           "fill_rgb": lambda o, ch: o.format.fill.fore_color.rgb,
                           "line_width": lambda o, ch: int(o.format.line.width)}
    K.append(Kind("marker-line-fmt", "Marker", b_line_chart,
                  sub=SH("chart.plots") + [["idx", 0], ["attr", "series"], ["idx", 0]], sub2=[["attr", "marker"]],
                  prepare=prep_marker_fmt, cost=2, rows=marker_rows(), readings=MARKER_FMT_READINGS))
    K.append(Kind("marker-point-fmt", "Marker", b_line_chart,
                  sub=SH("chart.plots") + [["idx", 0], ["attr", "series"], ["idx", 0], ["attr", "points"], ["idx", 1]],
                  sub2=[["attr", "marker"]], prepare=prep_marker_fmt, cost=2, rows=marker_rows(),
                  readings=MARKER_FMT_READINGS))

    # ---- titles (chart/chart.py:214-226, chart/axis.py:274-279)
    def prep_chart_title(anchor):
        anchor.has_title = True

    K.append(Kind("chart-title", "ChartTitle", b_bar_chart, sub=SH("chart"), prepare=prep_chart_title,
                  locate=loc_chart, cost=2, rows=[
        Row("has_text_frame", D_bool(), [], src="chart/chart.py:221"),
    ]))
    K[-1].sub2 = SH("chart_title")
    K.append(Kind("axis-title", "AxisTitle", b_bar_chart, sub=SH("chart.value_axis"),
                  prepare=prep_chart_title, locate=loc_val_chart, cost=2, rows=[
        Row("has_text_frame", D_bool(), [], src="chart/axis.py:274"),
    ]))
    K[-1].sub2 = SH("axis_title")

    names = [k.name for k in K]
    assert len(names) == len(set(names))
    return K


_KINDS = None


def kinds():
    global _KINDS
    if _KINDS is None:
        _KINDS = build_kinds()
    return _KINDS


def kind(name):
    for k in kinds():
        if k.name == name:
            return k
    raise KeyError(name)


def row_ids():
    """distinct '<Class>.<prop>' ids of the table (a property checked at several sites counts once)"""
    out = []
    for k in kinds():
        for r in k.rows:
            rid = "%s.%s" % (k.cls, r.prop)
            if rid not in out:
                out.append(rid)
    return out


# Rows of the DESIGN.md draft that are NOT enabled, with the reason (reported in evidence)
UNVERIFIED = [
    "FillFormat.gradient_angle = None: docstring says 'May be None' for the reading only; the setter "
    "computes 360.0 - value (TypeError) - None is neither asserted accepted nor rejected",
    "LineFormat.width = None: handled by the code (-> 0) but not documented; not generated",
    "TextFrame.margin_* = None: not documented (TypeError today); generated as out-of-domain only",
    "TextFrame.auto_size = MSO_AUTO_SIZE.MIXED: 'return value only' per the enum docs but silently "
    "accepted (removes the setting); not generated either way",
    "Legend.horz_offset outside -1.0..1.0: the docstring states the range but nothing validates it "
    "(XsdDouble); not generated as out-of-domain (lenient reading)",
    "_Cell.margin_* negative: docstring of the validator says 'positive integer' but code and schema "
    "accept negatives; only 0..2^31-1 generated",
    "_Row.height/_Column.width negative: accepted by ST_Coordinate but the graphic-frame size "
    "(ST_PositiveCoordinate) then rejects the sum after the row was already changed; not generated",
    "Hyperlink.address rows (run, click action): string sink covered by C05; '' ~ None semantics",
    "core properties: covered by C18",
    "axis.tick_label_position = None, legend.position = None: accepted by the attribute machinery, "
    "not documented; not generated",
    "ColorFormat.rgb on a colour that already is RGB with a brightness: docs are silent on whether "
    "brightness survives; pair left out. theme_color assignment vs brightness: same",
    "ValueAxis.crosses = CUSTOM vs crosses_at, crosses_at = None vs crosses: left unasserted",
    "chart/axis/legend `format` (ChartFormat.fill/line) sites of ColorFormat/LineFormat: same classes "
    "as the shape sites, not separately located",
    "Movie/_MediaFormat, OLE, freeform-builder, notes-slide objects: no read/write property beyond "
    "BaseShape geometry",
]
