"""Independent minimal .xlsx reader for C08 (zipfile + plain lxml only; no xlsxwriter / openpyxl / python-pptx).

    wb = read_xlsx(blob)           -> Workbook
    wb.date1904                    bool, xl/workbook.xml  workbookPr/@date1904
    wb.sheet_names                 names in workbook order
    wb.sheet("Sheet1")             -> Sheet   (KeyError when absent)
    sheet.cells                    {(row, col): Cell}, 1-based, only cells present in sheetData
    sheet.get(row, col)            Cell or None

Cell.kind in {"str", "num", "bool", "err", "blank"}; .value (str | float | bool | None); .formula (text of
<f>, "" for an empty <f/>, None when there is no <f>); .hyperlink (None, or the external target / "#location"
of a <hyperlink> covering the cell); .raw (text of <v>); .style (int).

Strings: shared strings (t="s"), inline strings (t="inlineStr"), formula strings (t="str"); rich-text runs
are concatenated, phonetic runs (rPh) skipped; ST_Xstring escapes _xHHHH_ are decoded left to right.
Part lookup follows the package relationships (root officeDocument -> workbook -> worksheet / sharedStrings
-> worksheet hyperlink relationships) rather than fixed member names.
"""
from __future__ import annotations

import io
import posixpath
import re
import zipfile

from lxml import etree

NS_S = "http://schemas.openxmlformats.org/spreadsheetml/2006/main"
NS_R = "http://schemas.openxmlformats.org/officeDocument/2006/relationships"
NS_PR = "http://schemas.openxmlformats.org/package/2006/relationships"
RT_DOC = NS_R + "/officeDocument"
RT_SST = NS_R + "/sharedStrings"
RT_HLINK = NS_R + "/hyperlink"
S = "{%s}" % NS_S

_parser = etree.XMLParser(remove_blank_text=False, resolve_entities=False)


class XlsxError(Exception):
    """The blob is not a readable workbook (message says why)."""


class Cell(object):
    __slots__ = ("kind", "value", "formula", "hyperlink", "raw", "style")

    def __init__(self, kind, value, formula=None, hyperlink=None, raw=None, style=0):
        self.kind, self.value, self.formula, self.hyperlink, self.raw, self.style = (
            kind, value, formula, hyperlink, raw, style)

    @property
    def is_empty(self):
        return self.kind == "blank" and self.formula is None and self.hyperlink is None

    def __repr__(self):
        x = "%s:%r" % (self.kind, self.value)
        if self.formula is not None:
            x += " f=%r" % self.formula
        if self.hyperlink is not None:
            x += " link=%r" % self.hyperlink
        return "<" + x + ">"


class Sheet(object):
    def __init__(self, name, cells, partname):
        self.name, self.cells, self.partname = name, cells, partname

    def get(self, row, col):
        return self.cells.get((row, col))


class Workbook(object):
    def __init__(self, date1904, sheets, members):
        self.date1904 = date1904
        self._sheets = sheets
        self.members = members

    @property
    def sheet_names(self):
        return [s.name for s in self._sheets]

    def sheet(self, name):
        for s in self._sheets:
            if s.name == name:
                return s
        raise KeyError(name)


# ------------------------------------------------------------------------------- A1 references

def col_to_num(letters):
    """'A'->1, 'Z'->26, 'AA'->27 (bijective base 26)."""
    n = 0
    for ch in letters:
        if not ("A" <= ch <= "Z"):
            raise ValueError("bad column letters %r" % (letters,))
        n = n * 26 + (ord(ch) - 64)
    return n


def num_to_col(n):
    """inverse of col_to_num for n >= 1."""
    if n < 1:
        raise ValueError(n)
    out = []
    while n > 0:
        n -= 1
        out.append(chr(65 + n % 26))
        n //= 26
    return "".join(reversed(out))


_A1 = re.compile(r"^\$?([A-Z]{1,3})\$?([1-9][0-9]*)$")


def parse_a1(ref):
    m = _A1.match(ref)
    if not m:
        raise ValueError("bad cell reference %r" % (ref,))
    return int(m.group(2)), col_to_num(m.group(1))


def parse_a1_range(ref):
    """'A2:B4' or 'A2' -> (r1, c1, r2, c2) as written (not normalised)."""
    a, _, b = ref.partition(":")
    r1, c1 = parse_a1(a)
    r2, c2 = parse_a1(b) if b else (r1, c1)
    return r1, c1, r2, c2


# ------------------------------------------------------------------------------- strings

_XESC = re.compile(r"_x([0-9A-Fa-f]{4})_")


def decode_xstring(s):
    """ECMA-376 ST_Xstring: _xHHHH_ stands for the UTF-16 code unit HHHH (scanned left to right)."""
    if "_x" not in s:
        return s
    return _XESC.sub(lambda m: chr(int(m.group(1), 16)), s)


def _si_text(si):
    """text of a CT_Rst (shared string item / inline string): t, or r/t runs; rPh and phoneticPr skipped."""
    parts = []
    for ch in si:
        if not isinstance(ch.tag, str):
            continue
        if ch.tag == S + "t":
            parts.append(ch.text or "")
        elif ch.tag == S + "r":
            for t in ch:
                if isinstance(t.tag, str) and t.tag == S + "t":
                    parts.append(t.text or "")
    return decode_xstring("".join(parts))


# ------------------------------------------------------------------------------- package plumbing

def _rels_of(members, partname):
    """-> [(id, type, target_mode, target, resolved_member_or_None)] for a part name without leading '/'
    ('' = package root)."""
    if partname == "":
        rn = "_rels/.rels"
        base = ""
    else:
        d, fn = posixpath.split(partname)
        rn = posixpath.join(d, "_rels", fn + ".rels")
        base = d
    if rn not in members:
        return []
    root = etree.fromstring(members[rn], _parser)
    out = []
    for el in root:
        if not isinstance(el.tag, str) or el.tag != "{%s}Relationship" % NS_PR:
            continue
        mode = el.get("TargetMode", "Internal")
        tgt = el.get("Target")
        res = None
        if mode == "Internal":
            res = tgt[1:] if tgt.startswith("/") else posixpath.normpath(posixpath.join(base, tgt))
        out.append((el.get("Id"), el.get("Type"), mode, tgt, res))
    return out


def read_xlsx(blob):
    try:
        z = zipfile.ZipFile(io.BytesIO(blob))
    except zipfile.BadZipFile as e:
        raise XlsxError("not a zip: %s" % e)
    members = {}
    for info in z.infolist():
        if not info.is_dir():
            members[info.filename] = z.read(info)
    if "[Content_Types].xml" not in members:
        raise XlsxError("no [Content_Types].xml")
    docs = [r for r in _rels_of(members, "") if r[1] == RT_DOC]
    if len(docs) != 1 or docs[0][4] not in members:
        raise XlsxError("no (unique) officeDocument relationship")
    wbname = docs[0][4]
    try:
        wbroot = etree.fromstring(members[wbname], _parser)
    except etree.XMLSyntaxError as e:
        raise XlsxError("workbook part malformed: %s" % e)
    pr = wbroot.find(S + "workbookPr")
    date1904 = False
    if pr is not None:
        date1904 = pr.get("date1904", "0") in ("1", "true")
    wbrels = _rels_of(members, wbname)
    by_id = dict((r[0], r) for r in wbrels)

    sst = []
    sst_rels = [r for r in wbrels if r[1] == RT_SST]
    if sst_rels:
        if sst_rels[0][4] not in members:
            raise XlsxError("sharedStrings target missing")
        try:
            sroot = etree.fromstring(members[sst_rels[0][4]], _parser)
        except etree.XMLSyntaxError as e:
            raise XlsxError("sharedStrings malformed: %s" % e)
        for si in sroot:
            if isinstance(si.tag, str) and si.tag == S + "si":
                sst.append(_si_text(si))

    sheets = []
    sheets_el = wbroot.find(S + "sheets")
    for sh in (sheets_el if sheets_el is not None else []):
        if not isinstance(sh.tag, str) or sh.tag != S + "sheet":
            continue
        rid = sh.get("{%s}id" % NS_R)
        rel = by_id.get(rid)
        if rel is None or rel[4] not in members:
            raise XlsxError("sheet %r: relationship %r does not resolve" % (sh.get("name"), rid))
        if not rel[1].endswith("/worksheet"):
            continue   # chart sheets, dialog sheets
        sheets.append(_read_sheet(sh.get("name"), rel[4], members, sst))
    return Workbook(date1904, sheets, members)


def _read_sheet(name, partname, members, sst):
    try:
        root = etree.fromstring(members[partname], _parser)
    except etree.XMLSyntaxError as e:
        raise XlsxError("worksheet %s malformed: %s" % (partname, e))
    cells = {}
    sd = root.find(S + "sheetData")
    next_row = 1
    for row in (sd if sd is not None else []):
        if not isinstance(row.tag, str) or row.tag != S + "row":
            continue
        r = int(row.get("r")) if row.get("r") else next_row
        next_row = r + 1
        next_col = 1
        for c in row:
            if not isinstance(c.tag, str) or c.tag != S + "c":
                continue
            if c.get("r"):
                rr, cc = parse_a1(c.get("r"))
                if rr != r:
                    raise XlsxError("cell %s sits in row %d" % (c.get("r"), r))
            else:
                rr, cc = r, next_col
            next_col = cc + 1
            if (rr, cc) in cells:
                raise XlsxError("cell (%d,%d) occurs twice" % (rr, cc))
            cells[(rr, cc)] = _read_cell(c, sst)
    # hyperlinks
    hl = root.find(S + "hyperlinks")
    if hl is not None:
        rels = dict((r[0], r) for r in _rels_of(members, partname))
        for h in hl:
            if not isinstance(h.tag, str) or h.tag != S + "hyperlink":
                continue
            rid = h.get("{%s}id" % NS_R)
            target = None
            if rid is not None and rid in rels:
                target = rels[rid][3]
            if h.get("location"):
                target = (target or "") + "#" + h.get("location")
            if target is None:
                target = ""
            r1, c1, r2, c2 = parse_a1_range(h.get("ref"))
            for rr in range(min(r1, r2), max(r1, r2) + 1):
                for cc in range(min(c1, c2), max(c1, c2) + 1):
                    cell = cells.get((rr, cc))
                    if cell is None:
                        cell = cells[(rr, cc)] = Cell("blank", None)
                    cell.hyperlink = target
    return Sheet(name, cells, partname)


def _read_cell(c, sst):
    t = c.get("t", "n")
    style = int(c.get("s", "0"))
    f = c.find(S + "f")
    formula = None if f is None else (f.text or "")
    v = c.find(S + "v")
    raw = None if v is None else (v.text or "")
    if t == "inlineStr":
        is_ = c.find(S + "is")
        return Cell("str", _si_text(is_) if is_ is not None else "", formula, None, raw, style)
    if raw is None:
        return Cell("blank", None, formula, None, raw, style)
    if t == "s":
        try:
            return Cell("str", sst[int(raw)], formula, None, raw, style)
        except (ValueError, IndexError):
            raise XlsxError("shared string index %r out of range (%d strings)" % (raw, len(sst)))
    if t == "str":
        return Cell("str", decode_xstring(raw), formula, None, raw, style)
    if t == "n":
        try:
            return Cell("num", float(raw), formula, None, raw, style)
        except ValueError:
            raise XlsxError("numeric cell holds %r" % (raw,))
    if t == "b":
        return Cell("bool", raw.strip() in ("1", "true"), formula, None, raw, style)
    if t == "e":
        return Cell("err", raw, formula, None, raw, style)
    if t == "d":
        return Cell("str", raw, formula, None, raw, style)   # ISO 8601 date cell, kept as text
    raise XlsxError("unknown cell type %r" % (t,))
